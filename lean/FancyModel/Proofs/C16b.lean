import FancyModel.Proofs.C15c
import FancyModel.Proofs.C05c
import FancyModel.Proofs.C16
/-!
# C16 (second part) — group metadata: the parser's counter, names, accessors
-/
namespace Fancy.Parse
open Fancy.Utf8 (codepointLen isLead)
open Fancy

/-! ## Outcomes: what holds of an `ok` -/

/-- `P` holds of the value when the outcome is `ok` (nothing is said of the other outcomes) -/
def OkP {α : Type} (P : α → Prop) : Res α → Prop
  | .ok a => P a
  | _ => True

theorem OkP.bind {α β : Type} {P : α → Prop} {Q : β → Prop} {x : Res α} {f : α → Res β}
    (hx : OkP P x) (hf : ∀ a, P a → OkP Q (f a)) : OkP Q (x >>= f) := by
  cases x with
  | ok a => exact hf a hx
  | err k p => trivial
  | cerr => trivial
  | panic s => trivial
  | outOfFuel => trivial

theorem OkP.mono {α : Type} {P Q : α → Prop} {x : Res α} (hx : OkP P x) (h : ∀ a, P a → Q a) :
    OkP Q x := by
  cases x with
  | ok a => exact h a hx
  | err k p => trivial
  | cerr => trivial
  | panic s => trivial
  | outOfFuel => trivial

theorem OkP.ite {α : Type} {P : α → Prop} {c : Prop} [Decidable c] {t e : Res α}
    (ht : c → OkP P t) (he : ¬c → OkP P e) : OkP P (if c then t else e) := by
  split
  · exact ht ‹_›
  · exact he ‹_›

theorem OkP.of_eq {α : Type} {P : α → Prop} {x : Res α} {a : α} (hx : OkP P x) (h : x = .ok a) :
    P a := by
  rw [h] at hx; exact hx

theorem OkP.intro {α : Type} {P : α → Prop} {x : Res α} (h : ∀ a, x = .ok a → P a) : OkP P x := by
  cases x with
  | ok a => exact h a rfl
  | err k p => trivial
  | cerr => trivial
  | panic s => trivial
  | outOfFuel => trivial

theorem OkP.trivial {α : Type} {x : Res α} : OkP (fun _ => True) x := by
  cases x <;> exact True.intro

@[simp] theorem OkP_ok {α : Type} (P : α → Prop) (a : α) : OkP P (.ok a) = P a := rfl
@[simp] theorem OkP_pure {α : Type} (P : α → Prop) (a : α) : OkP P (pure a) = P a := rfl
@[simp] theorem OkP_err {α : Type} (P : α → Prop) (k : PErr) (p : Nat) :
    OkP P (.err k p) = True := rfl
@[simp] theorem OkP_cerr {α : Type} (P : α → Prop) : OkP P .cerr = True := rfl
@[simp] theorem OkP_panic {α : Type} (P : α → Prop) (s : String) : OkP P (.panic s) = True := rfl
@[simp] theorem OkP_outOfFuel {α : Type} (P : α → Prop) : OkP P .outOfFuel = True := rfl

theorem GoodS.okP {α : Type} {re : Bytes} {P : α → Prop} {x : Res α} (h : GoodS re P x) :
    OkP P x := by
  cases x with
  | ok a => exact h
  | err k p => trivial
  | cerr => trivial
  | panic s => trivial
  | outOfFuel => trivial

/-! ## Positions move to the right (any byte string) -/

/-- `optional_whitespace` never moves left -/
theorem okP_optWs (re : Bytes) (fl : Flags) (ix : Nat) :
    OkP (fun ix' => ix ≤ ix') (optWs re fl ix) := by
  by_cases hix : ix ≤ re.size
  · exact (goodS_optWs re fl ix hix).okP.mono fun _ h => h.1
  · have hne : (ix == re.size) = false := by simp; omega
    have hget : re[ix]? = none := by rw [Array.getElem?_eq_none_iff]; omega
    simp [optWs, optionalWhitespace, hne, hget]

theorem okP_checkForCloseParen (re : Bytes) (fl : Flags) (ix : Nat) :
    OkP (fun ix' => ix < ix') (checkForCloseParen re fl ix) := by
  unfold checkForCloseParen
  refine OkP.bind (okP_optWs re fl ix) (fun ix1 h1 => ?_)
  refine OkP.ite (fun _ => trivial) (fun _ => ?_)
  refine OkP.bind OkP.trivial (fun b _ => ?_)
  refine OkP.ite (fun _ => trivial) (fun _ => ?_)
  simp only [OkP_ok]; omega

theorem okP_parseDecimal (re : Bytes) (ix : Nat) :
    OkP (fun r => ∀ e v, r = some (e, v) → ix < e) (parseDecimal re ix) :=
  OkP.intro fun r hr e v he => by
    subst he
    exact (C06_parseDecimal_bounds re ix e v hr).1

/-- `parse_repeat` ends to the right of the `{` -/
theorem okP_parseRepeat (re : Bytes) (fl : Flags) (ix : Nat) :
    OkP (fun r => ix < r.1) (parseRepeat re fl ix) := by
  unfold parseRepeat
  refine OkP.bind (okP_optWs re fl (ix + 1)) (fun ix1 h1 => ?_)
  refine OkP.ite (fun _ => trivial) (fun _ => ?_)
  refine OkP.bind OkP.trivial (fun b _ => ?_)
  refine OkP.bind (P := fun p : Nat × Nat => ix1 ≤ p.2) ?_ (fun p hp => ?_)
  · refine OkP.ite (fun _ => by simp) (fun _ => ?_)
    refine OkP.bind (okP_parseDecimal re ix1) (fun r hr => ?_)
    cases r with
    | none => trivial
    | some q =>
      obtain ⟨next, lo⟩ := q
      have := hr _ _ rfl
      simp only [OkP_pure]; omega
  refine OkP.bind (okP_optWs re fl p.2) (fun ix2 h2 => ?_)
  refine OkP.ite (fun _ => trivial) (fun _ => ?_)
  refine OkP.bind OkP.trivial (fun b2 _ => ?_)
  refine OkP.bind (P := fun q : Nat × Nat => ix2 ≤ q.2) ?_ (fun q hq => ?_)
  · refine OkP.ite (fun _ => by simp) (fun _ => ?_)
    refine OkP.ite (fun _ => ?_) (fun _ => trivial)
    refine OkP.bind (okP_optWs re fl (ix2 + 1)) (fun e he => ?_)
    refine OkP.bind (okP_parseDecimal re e) (fun r hr => ?_)
    cases r with
    | none => simp only [OkP_pure]; omega
    | some q =>
      obtain ⟨next, hi⟩ := q
      have := hr _ _ rfl
      simp only [OkP_pure]; omega
  refine OkP.bind (okP_optWs re fl q.2) (fun ix3 h3 => ?_)
  refine OkP.ite (fun _ => trivial) (fun _ => ?_)
  refine OkP.bind OkP.trivial (fun b3 _ => ?_)
  refine OkP.ite (fun _ => trivial) (fun _ => ?_)
  simp only [OkP_ok]; omega

end Fancy.Parse
