import FancyModel.GeneratedVM
/-!
# C05 (sixth part) — the byte-level machine is the interpreter loop of vm.rs

`GeneratedVM.lean` is the body of `vm::run` (src/vm.rs) translated statement by statement by
`tools/rs2lean_vm.py` on every run of the check: one definition per arm of `match prog.body[pc]`
(`GenVM.armEnd` … `GenVM.armContinueFromPreviousMatchEnd`), the auxiliary functions of the `for` / `loop`
bodies, `GenVM.genStep` (the dispatch + `pc += 1`), `GenVM.genOnFail` (what follows `break 'fail` in the
outer loop) and `GenVM.genRun`. This file proves that the translation and the hand-written byte-level
machine (`stepB`, `runLoopB`, `runB` of Model/VMBytes.lean) are the same functions:

* `C05_vm_translated_eq`: `genStep bc prog pc ix s = stepB' bc prog pc ix s` for EVERY program, program counter,
  position and state, where `stepB'` (below) is `stepB` with four corners corrected to what vm.rs does;
* `C05_vm_stepB'_eq`: `stepB' = stepB` under the side condition `StepAgree prog pc s` (slot operands in range,
  `start_group ≤ end_group`, an unbounded repeat's counter is not `usize::MAX`); three `example`s show that the
  corners are real; `C05_vm_translated_eq_stepB` combines the two;
* `C05_vm_translated_fail`: `genOnFail` is what `runLoopB` does after `.fail` (`C07_vm_translated_limit`,
  `C07_vm_translated_resume`: the limit error exactly when the incremented counter exceeds the limit);
* `C05_vm_translated_loop` / `C05_vm_translated_run`: the loop built from `genStep` / `genOnFail` is `runLoopB` /
  `runB` along every run on which the side condition holds; `C05_vm_translated_run'`: unconditionally it is the
  same loop over `stepB'`;
* `C05_vm_loop_fuel`: the fuel the translator gives the `loop` of `FailNegativeLookAround` is never exhausted.

A change of meaning in `run` changes the generated definitions and breaks these proofs
(notes/translator-vm.md lists the mutations that were tried). The generated definitions are unfolded by
name only, one lemma per arm (`armX_eq`).
-/
set_option linter.unusedSimpArgs false
namespace Fancy
open Utf8 GenVM

variable (bc : BCtx) (prog : List Insn) (pc ix : Nat) (s : State)

theorem armAny_eq (h : prog[pc]? = some .any) :
    armAny bc bc.text bc.pos pc ix s = stepB bc prog pc ix s := by
  simp only [armAny, stepB, h, codepoint_len_at]
  by_cases hlt : ix < bc.text.length
  · simp [hlt]
  · simp [hlt, List.getElem?_eq_none (Nat.le_of_not_lt hlt)]

theorem armAnyNoNL_eq (h : prog[pc]? = some .anyNoNL) :
    armAnyNoNL bc bc.text bc.pos pc ix s = stepB bc prog pc ix s := by
  simp only [armAnyNoNL, stepB, h, codepoint_len_at]
  by_cases hlt : ix < bc.text.length
  · simp [hlt]
  · simp [hlt, List.getElem?_eq_none (Nat.le_of_not_lt hlt)]

theorem armLit_eq (val : List Char) (h : prog[pc]? = some (.lit val)) :
    armLit bc bc.text bc.pos pc ix s val = stepB bc prog pc ix s := by
  simp only [armLit, stepB, h, matches_literal]
  rfl

theorem armEnd_eq (h : prog[pc]? = some .end_) :
    armEnd bc bc.text bc.pos pc ix s = stepB bc prog pc ix s := by
  simp only [armEnd, stepB, h, capStartB, capStart]
  cases h1 : s.saves[1]? with
  | none => simp
  | some slot1 =>
    cases h0 : s.get 0 with
    | none => simp
    | some t1 =>
      simp only [Option.bind]
      by_cases hgt : t1 > slot1
      · simp only [hgt, decide_true, if_true]
        cases hs : s.save 0 slot1 with
        | none => simp
        | some s1 =>
          simp only
          cases h0' : s1.get 0 with
          | none => simp
          | some t2 =>
            by_cases hlt : t2 < bc.pos
            · simp only [hlt, decide_true, if_true]
              cases s1.save 0 bc.pos <;> simp
            · simp [hlt]
      · simp only [hgt, decide_false, if_false, h0]
        by_cases hlt : t1 < bc.pos
        · simp only [hlt, decide_true, if_true]
          cases s.save 0 bc.pos <;> simp
        · simp [hlt]

theorem armAssertion_eq (a : Assertion) (h : prog[pc]? = some (.assertion a)) :
    armAssertion bc bc.text bc.pos pc ix s a = stepB bc prog pc ix s := by
  simp only [armAssertion, stepB, h]
  cases hk : charIx bc.text ix with
  | none =>
    rcases a with _ | _ | ⟨_ | _⟩ | ⟨_ | _⟩ | _ | _ | _ | _ <;>
      simp [hk, lookAt, is_start, is_end, is_start_lf, is_end_lf, is_start_crlf, is_end_crlf,
        is_word_start_unicode, is_word_end_unicode, is_word_unicode, is_word_unicode_negate]
  | some k =>
    rcases a with _ | _ | ⟨_ | _⟩ | ⟨_ | _⟩ | _ | _ | _ | _ <;>
      simp [hk, lookAt, is_start, is_end, is_start_lf, is_end_lf, is_start_crlf, is_end_crlf,
        is_word_start_unicode, is_word_end_unicode, is_word_unicode, is_word_unicode_negate]

theorem armSplit_eq (x y : Nat) (h : prog[pc]? = some (.split x y)) :
    armSplit bc bc.text bc.pos pc ix s x y = stepB bc prog pc ix s := by
  simp only [armSplit, stepB, h, pushOr]
  cases s.push y ix <;> rfl

theorem armJmp_eq (t : Nat) (h : prog[pc]? = some (.jmp t)) :
    armJmp bc bc.text bc.pos pc ix s t = stepB bc prog pc ix s := by
  simp [armJmp, stepB, h]

theorem armSave_eq (slot : Nat) (h : prog[pc]? = some (.save slot)) :
    armSave bc bc.text bc.pos pc ix s slot = stepB bc prog pc ix s := by
  simp only [armSave, stepB, h]
  cases s.save slot ix <;> rfl

theorem armSave0_eq (slot : Nat) (h : prog[pc]? = some (.save0 slot)) :
    armSave0 bc bc.text bc.pos pc ix s slot = stepB bc prog pc ix s := by
  simp only [armSave0, stepB, h]
  cases s.save slot 0 <;> rfl

theorem armRestore_eq (slot : Nat) (h : prog[pc]? = some (.restore slot)) :
    armRestore bc bc.text bc.pos pc ix s slot = stepB bc prog pc ix s := by
  simp only [armRestore, stepB, h]
  cases s.get slot <;> rfl

theorem armBackrefExistsCondition_eq (g : Nat) (h : prog[pc]? = some (.backrefExists g)) :
    armBackrefExistsCondition bc bc.text bc.pos pc ix s g = stepB bc prog pc ix s := by
  simp only [armBackrefExistsCondition, stepB, h]
  cases s.get (g * 2) <;> rfl

theorem armBeginAtomic_eq (h : prog[pc]? = some .beginAtomic) :
    armBeginAtomic bc bc.text bc.pos pc ix s = stepB bc prog pc ix s := by
  simp only [armBeginAtomic, stepB, h]
  cases s.stackPush s.backtrackCount <;> rfl

theorem armEndAtomic_eq (h : prog[pc]? = some .endAtomic) :
    armEndAtomic bc bc.text bc.pos pc ix s = stepB bc prog pc ix s := by
  simp only [armEndAtomic, stepB, h]
  cases s.stackPop with
  | none => rfl
  | some r =>
    obtain ⟨s', count⟩ := r
    simp only
    cases s'.backtrackCut count <;> rfl

theorem armContinueFromPreviousMatchEnd_eq (h : prog[pc]? = some .contPrev) :
    armContinueFromPreviousMatchEnd bc bc.text bc.pos pc ix s = stepB bc prog pc ix s := by
  simp [armContinueFromPreviousMatchEnd, stepB, h, optionSkippedEmptyMatch]

/-! ## the loops -/

theorem loopGoBack_eq (n i : Nat) :
    loopGoBack bc bc.text bc.pos n i pc ix s =
      match goBackBytes bc.text n ix with
      | none => .done (.panic "goBack index")
      | some none => .fail s
      | some (some ix') => .cont pc ix' s := by
  induction n generalizing i ix with
  | zero => simp [loopGoBack, goBackBytes]
  | succ n ih =>
    simp only [loopGoBack, goBackBytes, prev_codepoint_ix]
    by_cases h0 : ix = 0
    · simp [h0]
    · simp only [h0, beq_iff_eq, if_false]
      cases prevCodepointIx bc.text ix with
      | none => rfl
      | some t => simp only; exact ih t (i + 1)

theorem armGoBack_eq (n : Nat) (h : prog[pc]? = some (.goBack n)) :
    armGoBack bc bc.text bc.pos pc ix s n = stepB bc prog pc ix s := by
  simp only [armGoBack, stepB, h, Nat.sub_zero, loopGoBack_eq]
  rcases goBackBytes bc.text n ix with _ | _ | _ <;> rfl

theorem pop_stack_length {s s' : State} {p i : Nat} (h : s.pop = some (s', p, i)) :
    s.stack.length = s'.stack.length + 1 := by
  unfold State.pop at h
  split at h
  · cases h
  · split at h
    · cases h
    · rename_i hst
      injection h with h
      injection h with h1 _
      subst h1
      simp [hst]

/-- the generated `loop` of `FailNegativeLookAround`, given at least `stack.length + 1` fuel, is `popUntil`
    (it never runs out of fuel: every iteration pops a branch, and popping the empty stack is a panic) -/
theorem loopFailNegativeLookAround_eq (fuel : Nat) (hf : s.stack.length + 1 ≤ fuel) :
    loopFailNegativeLookAround bc bc.text bc.pos fuel pc ix s =
      match popUntil (pc + 1) fuel s with
      | some s' => .cont pc ix s'
      | none => .done (.panic "failNegLook pop") := by
  induction fuel generalizing s with
  | zero => omega
  | succ fuel ih =>
    simp only [loopFailNegativeLookAround, popUntil]
    cases hp : s.pop with
    | none => rfl
    | some r =>
      obtain ⟨s', p, i⟩ := r
      have hl := pop_stack_length hp
      simp only
      by_cases hpc : p = pc + 1
      · simp [hpc]
      · simp only [beq_iff_eq, hpc, if_false]
        exact ih s' (by omega)

/-- `C05_vm_loop_fuel`: with the fuel the translator hands it, the generated `loop` never reports `outOfFuel` -/
theorem C05_vm_loop_fuel :
    loopFailNegativeLookAround bc bc.text bc.pos (s.stack.length + 1) pc ix s ≠ .done .outOfFuel := by
  rw [loopFailNegativeLookAround_eq bc pc ix s _ (Nat.le_refl _)]
  cases popUntil (pc + 1) (s.stack.length + 1) s <;> simp

theorem armFailNegativeLookAround_eq (h : prog[pc]? = some .failNegLook) :
    armFailNegativeLookAround bc bc.text bc.pos pc ix s = stepB bc prog pc ix s := by
  simp only [armFailNegativeLookAround, stepB, h, loopFailNegativeLookAround_eq bc pc ix s _ (Nat.le_refl _)]
  cases popUntil (pc + 1) (s.stack.length + 1) s <;> rfl

/-! ## `stepB'`: `stepB` with the corners corrected where vm.rs does something else -/

/-- the common tail of the two `RepeatEpsilon*` arms -/
def epsRest (s : State) (lo rep check cnt ix pushPc contPc fallPc : Nat) : StepResult :=
  match s.save rep (cnt + 1) with
  | none => .done (.panic "repeat save")
  | some s' =>
    if cnt ≥ lo then
      match s'.save check ix with
      | none => .done (.panic "repeat save")
      | some s'' => pushOr s'' pushPc ix fun s3 => .cont contPc ix s3
    else .cont fallPc ix s'

/-- `stepB`, except (as vm.rs does):
* `RepeatGr` / `RepeatNg`: the upper bound is the `usize` `hi` (`usize::MAX` = unbounded), compared with `==`: a
  counter that holds `usize::MAX` leaves an unbounded loop;
* `RepeatEpsilonGr` / `Ng`: `state.get(check)` is evaluated only if `repcount > lo` (`&&` short-circuits);
* `Backref`: `lo` is read and tested before `hi` is read;
* `Delegate`: `end_group - start_group` underflows (a panic) if `start_group > end_group`. -/
def stepB' (bc : BCtx) (prog : List Insn) (pc ix : Nat) (s : State) : StepResult :=
  match prog[pc]? with
  | none => .done (.panic "prog index")
  | some insn =>
  match insn with
  | .repeatGr lo hi next rep =>
    match s.get rep with
    | none => .done (.panic "repeat get")
    | some cnt =>
      if cnt == hiVal hi then .cont next ix s else
      match s.save rep (cnt + 1) with
      | none => .done (.panic "repeat save")
      | some s' =>
        if cnt ≥ lo then pushOr s' next ix fun s'' => .cont (pc + 1) ix s''
        else .cont (pc + 1) ix s'
  | .repeatNg lo hi next rep =>
    match s.get rep with
    | none => .done (.panic "repeat get")
    | some cnt =>
      if cnt == hiVal hi then .cont next ix s else
      match s.save rep (cnt + 1) with
      | none => .done (.panic "repeat save")
      | some s' =>
        if cnt ≥ lo then pushOr s' (pc + 1) ix fun s'' => .cont next ix s''
        else .cont (pc + 1) ix s'
  | .repeatEpsGr lo next rep check =>
    match s.get rep with
    | none => .done (.panic "repeat get")
    | some cnt =>
      if cnt > lo then
        match s.get check with
        | none => .done (.panic "repeat get")
        | some chk => if chk == ix then .fail s else epsRest s lo rep check cnt ix next (pc + 1) (pc + 1)
      else epsRest s lo rep check cnt ix next (pc + 1) (pc + 1)
  | .repeatEpsNg lo next rep check =>
    match s.get rep with
    | none => .done (.panic "repeat get")
    | some cnt =>
      if cnt > lo then
        match s.get check with
        | none => .done (.panic "repeat get")
        | some chk => if chk == ix then .fail s else epsRest s lo rep check cnt ix (pc + 1) next (pc + 1)
      else epsRest s lo rep check cnt ix (pc + 1) next (pc + 1)
  | .backref slot =>
    match s.get slot with
    | none => .done (.panic "backref get")
    | some lo =>
      if lo == UNSET then .fail s else
      match s.get (slot + 1) with
      | none => .done (.panic "backref get")
      | some hi =>
        if hi == UNSET then .fail s
        else if lo > hi then .fail s
        else
          match slice bc.text lo hi with
          | none => .done (.panic "backref slice")
          | some refText =>
            let ixEnd := ix + refText.length
            if matchesLiteral bc.text ix ixEnd refText then .cont (pc + 1) ixEnd s else .fail s
  | .delegate _ sg eg =>
    if eg < sg then .done (.panic "Delegate: sub") else stepB bc prog pc ix s
  | _ => stepB bc prog pc ix s

theorem armRepeatGr_eq (lo : Nat) (hi : Option Nat) (nx rep : Nat) (h : prog[pc]? = some (.repeatGr lo hi nx rep)) :
    armRepeatGr bc bc.text bc.pos pc ix s lo hi nx rep = stepB' bc prog pc ix s := by
  simp only [armRepeatGr, stepB', h, pushOr]
  cases s.get rep with
  | none => rfl
  | some cnt =>
    simp only
    split
    · rfl
    · cases s.save rep (cnt + 1) with
      | none => rfl
      | some s1 =>
        simp only
        by_cases hge : cnt ≥ lo
        · simp only [hge, decide_true, if_true]
          cases s1.push nx ix <;> rfl
        · simp [hge]

theorem armRepeatNg_eq (lo : Nat) (hi : Option Nat) (nx rep : Nat) (h : prog[pc]? = some (.repeatNg lo hi nx rep)) :
    armRepeatNg bc bc.text bc.pos pc ix s lo hi nx rep = stepB' bc prog pc ix s := by
  simp only [armRepeatNg, stepB', h, pushOr]
  cases s.get rep with
  | none => rfl
  | some cnt =>
    simp only
    split
    · rfl
    · cases s.save rep (cnt + 1) with
      | none => rfl
      | some s1 =>
        simp only
        by_cases hge : cnt ≥ lo
        · simp only [hge, decide_true, if_true]
          cases s1.push (pc + 1) ix <;> rfl
        · simp [hge]

theorem armRepeatEpsilonGr_eq (lo nx rep check : Nat) (h : prog[pc]? = some (.repeatEpsGr lo nx rep check)) :
    armRepeatEpsilonGr bc bc.text bc.pos pc ix s lo nx rep check = stepB' bc prog pc ix s := by
  simp only [armRepeatEpsilonGr, stepB', h, epsRest, pushOr]
  cases s.get rep with
  | none => rfl
  | some cnt =>
    simp only
    by_cases hgt : cnt > lo <;> by_cases hge : cnt ≥ lo <;>
      simp only [hgt, hge, decide_true, decide_false, if_true, if_false] <;>
      (repeat' split) <;> simp_all

theorem armRepeatEpsilonNg_eq (lo nx rep check : Nat) (h : prog[pc]? = some (.repeatEpsNg lo nx rep check)) :
    armRepeatEpsilonNg bc bc.text bc.pos pc ix s lo nx rep check = stepB' bc prog pc ix s := by
  simp only [armRepeatEpsilonNg, stepB', h, epsRest, pushOr]
  cases s.get rep with
  | none => rfl
  | some cnt =>
    simp only
    by_cases hgt : cnt > lo <;> by_cases hge : cnt ≥ lo <;>
      simp only [hgt, hge, decide_true, decide_false, if_true, if_false] <;>
      (repeat' split) <;> simp_all

theorem armBackref_eq (slot : Nat) (h : prog[pc]? = some (.backref slot)) :
    armBackref bc bc.text bc.pos pc ix s slot = stepB' bc prog pc ix s := by
  simp only [armBackref, stepB', h, matches_literal]
  cases s.get slot with
  | none => rfl
  | some lo =>
    simp only
    by_cases hlo : lo = UNSET
    · simp [hlo]
    · simp only [beq_iff_eq, hlo, if_false]
      cases s.get (slot + 1) with
      | none => rfl
      | some hi =>
        simp only
        by_cases hhi : hi = UNSET
        · simp [hhi]
        · simp only [hhi, if_false]
          by_cases hgt : lo > hi
          · simp [hgt]
          · simp only [hgt, decide_false, if_false]
            cases slice bc.text lo hi with
            | none => rfl
            | some r => rfl

/-! ## `Delegate`: the group-copy loop is `copyGroups` -/

/-- what `copyGroups` does for group `sg + i` -/
def copyOne (r : St) (sg i : Nat) (s : State) : Option State :=
  match r.slot ((sg + i) * 2), r.slot ((sg + i) * 2 + 1) with
  | some a, some b => (s.save ((sg + i) * 2) a).bind fun s => s.save ((sg + i) * 2 + 1) b
  | some _, none => none
  | none, _ => some s

/-- `copyGroups`, front to back (the order of the Rust loop) -/
def copyFwd (r : St) (sg : Nat) : Nat → Nat → State → Option State
  | 0, _, s => some s
  | n + 1, i, s => (copyOne r sg i s).bind (copyFwd r sg n (i + 1))

theorem copyGroups_succ (r : St) (sg n : Nat) (s : State) :
    copyGroups r sg (n + 1) s = (copyGroups r sg n s).bind (copyOne r sg n) := by
  simp only [copyGroups, copyOne]
  cases copyGroups r sg n s with
  | none => rfl
  | some s1 => rfl

theorem copyFwd_snoc (r : St) (sg n i : Nat) (s : State) :
    copyFwd r sg (n + 1) i s = (copyFwd r sg n i s).bind (copyOne r sg (i + n)) := by
  induction n generalizing i s with
  | zero => simp [copyFwd]
  | succ n ih =>
    rw [copyFwd]
    cases h1 : copyOne r sg i s with
    | none => simp [copyFwd, h1]
    | some s1 =>
      simp only [Option.bind]
      rw [ih (i + 1) s1]
      conv => rhs; rw [copyFwd, h1]
      simp only [Option.bind]
      have : i + 1 + n = i + (n + 1) := by omega
      rw [this]

theorem copyGroups_eq_fwd (r : St) (sg n : Nat) (s : State) : copyGroups r sg n s = copyFwd r sg n 0 s := by
  induction n with
  | zero => simp [copyGroups, copyFwd]
  | succ n ih => rw [copyGroups_succ, copyFwd_snoc, ih, Nat.zero_add]

theorem loopDelegate_eq (rB : St) (sg : Nat) (L : List (Option Nat)) (n i : Nat)
    (hL : ∀ j, j < i + n → L[(j + 1) * 2]? = some (rB.slot ((sg + j) * 2)) ∧
                            L[(j + 1) * 2 + 1]? = some (rB.slot ((sg + j) * 2 + 1))) :
    loopDelegate bc bc.text bc.pos L sg n i pc ix s =
      match copyFwd rB sg n i s with
      | some s' => .cont pc ix s'
      | none => .done (.panic "delegate copy") := by
  induction n generalizing i s with
  | zero => simp [loopDelegate, copyFwd]
  | succ n ih =>
    obtain ⟨h1, h2⟩ := hL i (by omega)
    have ih' := fun s' => ih s' (i + 1) (fun j hj => hL j (by omega))
    simp only [loopDelegate, copyFwd, copyOne, h1, h2]
    cases rB.slot ((sg + i) * 2) with
    | none => simp only [Option.bind]; exact ih' s
    | some a =>
      simp only
      cases rB.slot ((sg + i) * 2 + 1) with
      | none => rfl
      | some b =>
        simp only
        cases s.save ((sg + i) * 2) a with
        | none => rfl
        | some s1 =>
          simp only [Option.bind]
          cases s1.save ((sg + i) * 2 + 1) b with
          | none => rfl
          | some s2 => simp only; exact ih' s2

theorem vecResize_length {α : Type} (v : List α) (n : Nat) (x : α) : (vecResize v n x).length = n := by
  simp [vecResize]; omega

theorem raSlots_getElem? (re : RaRegex) (st : Nat) (r : St) (N k : Nat) (hk : k < N) :
    ((List.range N).map (raSlot re st r))[k]? = some (raSlot re st r k) := by
  simp [hk]

theorem armDelegate_eq (slots0 : List (Option Nat)) (es : List Expr) (sg eg : Nat)
    (h : prog[pc]? = some (.delegate es sg eg)) :
    armDelegate bc bc.text bc.pos pc ix s slots0 es sg eg = stepB' bc prog pc ix s := by
  simp only [armDelegate, stepB', stepB, h, search_half, search_slots, raSearch, RaInput.setAnchored, RaInput.span,
    RaInput.new, beq_self_eq_true, Bool.and_self, if_true]
  by_cases hse : sg = eg
  · subst hse
    simp only [beq_self_eq_true, if_true, Nat.lt_irrefl, if_false]
    cases charIx bc.text ix with
    | none => rfl
    | some k =>
      simp only [Option.map]
      cases delegateOracle bc.chars es sg sg k (List.map (unmapV bc.text) (List.take (2 * sg) s.saves)) <;> rfl
  · have hbeq : (sg == eg) = false := by simpa using hse
    simp only [hbeq, Bool.false_eq_true, if_false, checkedSub]
    by_cases hlt : eg < sg
    · have : ¬ sg ≤ eg := by omega
      simp [hlt, this]
    · have hle : sg ≤ eg := by omega
      simp only [hle, hlt, if_true, if_false]
      cases charIx bc.text ix with
      | none => rfl
      | some k =>
        simp only [Option.map]
        cases delegateOracle bc.chars es sg eg k (List.map (unmapV bc.text) (List.take (2 * eg) s.saves)) with
        | none => simp
        | some r =>
          simp only [Option.isSome, if_true, Nat.sub_zero, vecResize_length]
          have hL : ∀ j, j < 0 + (eg - sg) →
              ((List.range ((eg - sg + 1) * 2)).map (raSlot ⟨es, sg, eg⟩ ix (r.toBytes bc.chars.text)))[(j + 1) * 2]? =
                some ((r.toBytes bc.chars.text).slot ((sg + j) * 2)) ∧
              ((List.range ((eg - sg + 1) * 2)).map (raSlot ⟨es, sg, eg⟩ ix (r.toBytes bc.chars.text)))[(j + 1) * 2 + 1]? =
                some ((r.toBytes bc.chars.text).slot ((sg + j) * 2 + 1)) := by
            intro j hj
            rw [raSlots_getElem? _ _ _ _ _ (by omega), raSlots_getElem? _ _ _ _ _ (by omega)]
            have e1 : (j + 1) * 2 / 2 - 1 = j := by omega
            have e2 : ((j + 1) * 2 + 1) / 2 - 1 = j := by omega
            have e3 : (j + 1) * 2 % 2 = 0 := by omega
            have e4 : ((j + 1) * 2 + 1) % 2 = 1 := by omega
            have hj' : j < eg - sg := by omega
            have n0 : ((j + 1) * 2 == 0) = false := by simp
            have n1 : ((j + 1) * 2 == 1) = false := by simp; omega
            have n2 : ((j + 1) * 2 + 1 == 0) = false := by simp
            have n3 : ((j + 1) * 2 + 1 == 1) = false := by simp
            simp [raSlot, e1, e2, e3, e4, hj', n0, n1, n2, n3]
          rw [loopDelegate_eq bc pc ix s (r.toBytes bc.chars.text) sg _ (eg - sg) 0 hL, ← copyGroups_eq_fwd]
          have h1 : ((List.range ((eg - sg + 1) * 2)).map (raSlot ⟨es, sg, eg⟩ ix (r.toBytes bc.chars.text)))[1]? =
              some (some (r.toBytes bc.chars.text).ix) := by
            rw [raSlots_getElem? _ _ _ _ _ (by omega)]; simp [raSlot]
          cases copyGroups (r.toBytes bc.chars.text) sg (eg - sg) s with
          | none => rfl
          | some s' => simp only [h1]

/-! ## the step -/

/-- **The translated interpreter step is the (corrected) hand-written byte-level step**, for every program, program
    counter, position and state. -/
theorem C05_vm_translated_eq : genStep bc prog pc ix s = stepB' bc prog pc ix s := by
  cases h : prog[pc]? with
  | none => simp only [genStep, stepB', h]
  | some insn =>
    cases insn with
    | end_ =>
      rw [show genStep bc prog pc ix s = armEnd bc bc.text bc.pos pc ix s by simp only [genStep, h],
        show stepB' bc prog pc ix s = stepB bc prog pc ix s by simp only [stepB', h]]
      exact armEnd_eq bc prog pc ix s h
    | any =>
      rw [show genStep bc prog pc ix s = armAny bc bc.text bc.pos pc ix s by simp only [genStep, h],
        show stepB' bc prog pc ix s = stepB bc prog pc ix s by simp only [stepB', h]]
      exact armAny_eq bc prog pc ix s h
    | anyNoNL =>
      rw [show genStep bc prog pc ix s = armAnyNoNL bc bc.text bc.pos pc ix s by simp only [genStep, h],
        show stepB' bc prog pc ix s = stepB bc prog pc ix s by simp only [stepB', h]]
      exact armAnyNoNL_eq bc prog pc ix s h
    | assertion a =>
      rw [show genStep bc prog pc ix s = armAssertion bc bc.text bc.pos pc ix s a by simp only [genStep, h],
        show stepB' bc prog pc ix s = stepB bc prog pc ix s by simp only [stepB', h]]
      exact armAssertion_eq bc prog pc ix s a h
    | lit v =>
      rw [show genStep bc prog pc ix s = armLit bc bc.text bc.pos pc ix s v by simp only [genStep, h],
        show stepB' bc prog pc ix s = stepB bc prog pc ix s by simp only [stepB', h]]
      exact armLit_eq bc prog pc ix s v h
    | split x y =>
      rw [show genStep bc prog pc ix s = armSplit bc bc.text bc.pos pc ix s x y by simp only [genStep, h],
        show stepB' bc prog pc ix s = stepB bc prog pc ix s by simp only [stepB', h]]
      exact armSplit_eq bc prog pc ix s x y h
    | jmp t =>
      rw [show genStep bc prog pc ix s = armJmp bc bc.text bc.pos pc ix s t by simp only [genStep, h],
        show stepB' bc prog pc ix s = stepB bc prog pc ix s by simp only [stepB', h]]
      exact armJmp_eq bc prog pc ix s t h
    | save slot =>
      rw [show genStep bc prog pc ix s = armSave bc bc.text bc.pos pc ix s slot by simp only [genStep, h],
        show stepB' bc prog pc ix s = stepB bc prog pc ix s by simp only [stepB', h]]
      exact armSave_eq bc prog pc ix s slot h
    | save0 slot =>
      rw [show genStep bc prog pc ix s = armSave0 bc bc.text bc.pos pc ix s slot by simp only [genStep, h],
        show stepB' bc prog pc ix s = stepB bc prog pc ix s by simp only [stepB', h]]
      exact armSave0_eq bc prog pc ix s slot h
    | restore slot =>
      rw [show genStep bc prog pc ix s = armRestore bc bc.text bc.pos pc ix s slot by simp only [genStep, h],
        show stepB' bc prog pc ix s = stepB bc prog pc ix s by simp only [stepB', h]]
      exact armRestore_eq bc prog pc ix s slot h
    | repeatGr lo hi nx rep =>
      rw [show genStep bc prog pc ix s = armRepeatGr bc bc.text bc.pos pc ix s lo hi nx rep by simp only [genStep, h]]
      exact armRepeatGr_eq bc prog pc ix s lo hi nx rep h
    | repeatNg lo hi nx rep =>
      rw [show genStep bc prog pc ix s = armRepeatNg bc bc.text bc.pos pc ix s lo hi nx rep by simp only [genStep, h]]
      exact armRepeatNg_eq bc prog pc ix s lo hi nx rep h
    | repeatEpsGr lo nx rep check =>
      rw [show genStep bc prog pc ix s = armRepeatEpsilonGr bc bc.text bc.pos pc ix s lo nx rep check by
        simp only [genStep, h]]
      exact armRepeatEpsilonGr_eq bc prog pc ix s lo nx rep check h
    | repeatEpsNg lo nx rep check =>
      rw [show genStep bc prog pc ix s = armRepeatEpsilonNg bc bc.text bc.pos pc ix s lo nx rep check by
        simp only [genStep, h]]
      exact armRepeatEpsilonNg_eq bc prog pc ix s lo nx rep check h
    | failNegLook =>
      rw [show genStep bc prog pc ix s = armFailNegativeLookAround bc bc.text bc.pos pc ix s by simp only [genStep, h],
        show stepB' bc prog pc ix s = stepB bc prog pc ix s by simp only [stepB', h]]
      exact armFailNegativeLookAround_eq bc prog pc ix s h
    | goBack n =>
      rw [show genStep bc prog pc ix s = armGoBack bc bc.text bc.pos pc ix s n by simp only [genStep, h],
        show stepB' bc prog pc ix s = stepB bc prog pc ix s by simp only [stepB', h]]
      exact armGoBack_eq bc prog pc ix s n h
    | backref slot =>
      rw [show genStep bc prog pc ix s = armBackref bc bc.text bc.pos pc ix s slot by simp only [genStep, h]]
      exact armBackref_eq bc prog pc ix s slot h
    | beginAtomic =>
      rw [show genStep bc prog pc ix s = armBeginAtomic bc bc.text bc.pos pc ix s by simp only [genStep, h],
        show stepB' bc prog pc ix s = stepB bc prog pc ix s by simp only [stepB', h]]
      exact armBeginAtomic_eq bc prog pc ix s h
    | endAtomic =>
      rw [show genStep bc prog pc ix s = armEndAtomic bc bc.text bc.pos pc ix s by simp only [genStep, h],
        show stepB' bc prog pc ix s = stepB bc prog pc ix s by simp only [stepB', h]]
      exact armEndAtomic_eq bc prog pc ix s h
    | delegate es sg eg =>
      rw [show genStep bc prog pc ix s = armDelegate bc bc.text bc.pos pc ix s [] es sg eg by simp only [genStep, h]]
      exact armDelegate_eq bc prog pc ix s [] es sg eg h
    | contPrev =>
      rw [show genStep bc prog pc ix s = armContinueFromPreviousMatchEnd bc bc.text bc.pos pc ix s by
        simp only [genStep, h],
        show stepB' bc prog pc ix s = stepB bc prog pc ix s by simp only [stepB', h]]
      exact armContinueFromPreviousMatchEnd_eq bc prog pc ix s h
    | backrefExists g =>
      rw [show genStep bc prog pc ix s = armBackrefExistsCondition bc bc.text bc.pos pc ix s g by simp only [genStep, h],
        show stepB' bc prog pc ix s = stepB bc prog pc ix s by simp only [stepB', h]]
      exact armBackrefExistsCondition_eq bc prog pc ix s g h

/-- where `stepB'` and `stepB` agree: the side condition, per instruction -/
def StepAgree (prog : List Insn) (pc : Nat) (s : State) : Prop :=
  match prog[pc]? with
  | some (.repeatGr _ none _ rep) => s.get rep ≠ some UNSET
  | some (.repeatNg _ none _ rep) => s.get rep ≠ some UNSET
  | some (.repeatEpsGr _ _ _ check) => check < s.saves.length
  | some (.repeatEpsNg _ _ _ check) => check < s.saves.length
  | some (.backref slot) => slot + 1 < s.saves.length
  | some (.delegate _ sg eg) => sg ≤ eg
  | _ => True

theorem C05_vm_stepB'_eq (hA : StepAgree prog pc s) : stepB' bc prog pc ix s = stepB bc prog pc ix s := by
  unfold StepAgree at hA
  cases h : prog[pc]? with
  | none => simp only [stepB', stepB, h]
  | some insn =>
    rw [h] at hA
    cases insn with
    | repeatGr lo hi nx rep =>
      simp only [stepB', stepB, h]
      cases hg : s.get rep with
      | none => rfl
      | some cnt =>
        cases hi with
        | none =>
          have : cnt ≠ UNSET := by intro e; subst e; exact hA hg
          simp [hiVal, this] <;> rfl
        | some hv =>
          simp only [hiVal]
          by_cases e : cnt = hv
          · subst e; simp
          · have e' : ¬ hv = cnt := fun x => e x.symm
            simp [e, e'] <;> rfl
    | repeatNg lo hi nx rep =>
      simp only [stepB', stepB, h]
      cases hg : s.get rep with
      | none => rfl
      | some cnt =>
        cases hi with
        | none =>
          have : cnt ≠ UNSET := by intro e; subst e; exact hA hg
          simp [hiVal, this] <;> rfl
        | some hv =>
          simp only [hiVal]
          by_cases e : cnt = hv
          · subst e; simp
          · have e' : ¬ hv = cnt := fun x => e x.symm
            simp [e, e'] <;> rfl
    | repeatEpsGr lo nx rep check =>
      simp only at hA
      have hc : s.get check = some s.saves[check] := by simp [State.get, hA]
      simp only [stepB', stepB, h, hc, epsRest]
      cases s.get rep with
      | none => rfl
      | some cnt => by_cases hgt : cnt > lo <;> simp [hgt] <;> rfl
    | repeatEpsNg lo nx rep check =>
      simp only at hA
      have hc : s.get check = some s.saves[check] := by simp [State.get, hA]
      simp only [stepB', stepB, h, hc, epsRest]
      cases s.get rep with
      | none => rfl
      | some cnt => by_cases hgt : cnt > lo <;> simp [hgt] <;> rfl
    | backref slot =>
      simp only at hA
      have hc : s.get (slot + 1) = some s.saves[slot + 1] := by simp [State.get, hA]
      simp only [stepB', stepB, h, hc]
      cases s.get slot with
      | none => rfl
      | some lo => by_cases hlo : lo = UNSET <;> simp [hlo] <;> rfl
    | delegate es sg eg =>
      simp only at hA
      have : ¬ eg < sg := by omega
      simp only [stepB', h, this, if_false]
    | _ => simp only [stepB', h]

/-- the translated step against `stepB` itself, under the side condition -/
theorem C05_vm_translated_eq_stepB (hA : StepAgree prog pc s) : genStep bc prog pc ix s = stepB bc prog pc ix s := by
  rw [C05_vm_translated_eq, C05_vm_stepB'_eq bc prog pc ix s hA]

/-! ## the fail handler and the loop -/

/-- **The translated fail handler is what `runLoopB` does after `.fail`**: no branch left - no match; otherwise
    the backtrack counter is incremented, compared (`>`) with the limit, and the top branch is popped. -/
theorem C05_vm_translated_fail (o : VMOpts) (n : Nat) :
    genOnFail o pc ix s n =
      if s.stack.isEmpty then .done .noMatch n
      else if n + 1 > o.backtrackLimit then .done .errLimit (n + 1)
      else match s.pop with
        | none => .done (.panic "pop") (n + 1)
        | some (s'', pc', ix') => .resume pc' ix' s'' (n + 1) := by
  simp only [genOnFail]
  by_cases he : s.stack.isEmpty
  · simp [he]
  · simp only [he, Bool.false_eq_true, if_false]
    by_cases hl : n + 1 > o.backtrackLimit
    · simp [hl]
    · simp only [hl, decide_false, Bool.false_eq_true, if_false]
      cases s.pop with
      | none => rfl
      | some r => rfl

/-- C07: the limit error is reported exactly when a branch is left and the incremented counter exceeds the limit -/
theorem C07_vm_translated_limit (o : VMOpts) (n : Nat) (out : Outcome) (m : Nat) :
    genOnFail o pc ix s n = .done out m →
      (out = .noMatch ∧ s.stack.isEmpty ∧ m = n) ∨
      (out = .errLimit ∧ ¬ s.stack.isEmpty ∧ o.backtrackLimit < n + 1 ∧ m = n + 1) ∨
      (out = .panic "pop" ∧ ¬ s.stack.isEmpty ∧ n + 1 ≤ o.backtrackLimit ∧ s.pop = none ∧ m = n + 1) := by
  rw [C05_vm_translated_fail]
  by_cases he : s.stack.isEmpty = true
  · rw [if_pos he]
    intro h; injection h with h1 h2
    exact Or.inl ⟨h1.symm, he, h2.symm⟩
  · rw [if_neg he]
    by_cases hl : n + 1 > o.backtrackLimit
    · rw [if_pos hl]
      intro h; injection h with h1 h2
      exact Or.inr (Or.inl ⟨h1.symm, he, hl, h2.symm⟩)
    · rw [if_neg hl]
      cases hp : s.pop with
      | none =>
        intro h; injection h with h1 h2
        exact Or.inr (Or.inr ⟨h1.symm, he, by omega, rfl, h2.symm⟩)
      | some r => intro h; cases h

/-- C07: a resumed run has counted one more backtrack and is still within the limit -/
theorem C07_vm_translated_resume (o : VMOpts) (n : Nat) (pc' ix' : Nat) (s' : State) (m : Nat) :
    genOnFail o pc ix s n = .resume pc' ix' s' m →
      m = n + 1 ∧ m ≤ o.backtrackLimit ∧ s.pop = some (s', pc', ix') := by
  rw [C05_vm_translated_fail]
  by_cases he : s.stack.isEmpty
  · simp [he]
  · simp only [he, Bool.false_eq_true, if_false]
    by_cases hl : n + 1 > o.backtrackLimit
    · simp [hl]
    · simp only [hl, if_false]
      cases hp : s.pop with
      | none => intro h; cases h
      | some r =>
        obtain ⟨s2, p2, i2⟩ := r
        intro h; injection h with h1 h2 h3 h4
        subst h1 h2 h3 h4
        exact ⟨rfl, by omega, rfl⟩

/-- the loop built from the translated step and fail handler is `runLoopB`, along any run on which the side
    condition holds: `I` is any invariant of the machine that implies it -/
theorem C05_vm_translated_loop (o : VMOpts) (I : Nat → Nat → State → Prop)
    (hA : ∀ pc ix s, I pc ix s → StepAgree prog pc s)
    (hcont : ∀ pc ix s pc' ix' s', I pc ix s → stepB bc prog pc ix s = .cont pc' ix' s' → I pc' ix' s')
    (hfail : ∀ pc ix s s' s'' pc' ix', I pc ix s → stepB bc prog pc ix s = .fail s' →
      s'.pop = some (s'', pc', ix') → I pc' ix' s'')
    (fuel : Nat) (st : Stats) (h0 : I pc ix s) :
    driveLoop (genStep bc prog) (genOnFail o) fuel pc ix s st = runLoopB bc prog o fuel pc ix s st := by
  induction fuel generalizing pc ix s st with
  | zero => simp [driveLoop, runLoopB]
  | succ fuel ih =>
    simp only [driveLoop, runLoopB]
    rw [C05_vm_translated_eq_stepB bc prog pc ix s (hA pc ix s h0)]
    cases hs : stepB bc prog pc ix s with
    | done out => rfl
    | cont pc' ix' s' => simp only; exact ih pc' ix' s' _ (hcont pc ix s pc' ix' s' h0 hs)
    | fail s' =>
      simp only [C05_vm_translated_fail]
      by_cases he : s'.stack.isEmpty
      · simp [he]
      · simp only [he, Bool.false_eq_true, if_false]
        by_cases hl : st.backtracks + 1 > o.backtrackLimit
        · simp [hl]
        · simp only [hl, if_false]
          cases hp : s'.pop with
          | none => rfl
          | some r =>
            obtain ⟨s2, p2, i2⟩ := r
            simp only
            exact ih p2 i2 s2 _ (hfail pc ix s s' s2 p2 i2 h0 hs hp)

/-- the configurations the model's machine reaches from `(pc0, ix0, s0)` -/
inductive Reach (bc : BCtx) (prog : List Insn) (pc0 ix0 : Nat) (s0 : State) : Nat → Nat → State → Prop where
  | start : Reach bc prog pc0 ix0 s0 pc0 ix0 s0
  | cont {pc ix s pc' ix' s'} : Reach bc prog pc0 ix0 s0 pc ix s → stepB bc prog pc ix s = .cont pc' ix' s' →
      Reach bc prog pc0 ix0 s0 pc' ix' s'
  | fail {pc ix s s' s'' pc' ix'} : Reach bc prog pc0 ix0 s0 pc ix s → stepB bc prog pc ix s = .fail s' →
      s'.pop = some (s'', pc', ix') → Reach bc prog pc0 ix0 s0 pc' ix' s''

/-- **`run` as translated is `runB`**, provided the side condition holds at every configuration the run reaches
    (for the output of the compiler: every slot operand is below `n_saves`, `start_group ≤ end_group`, and a
    repeat counter is zeroed by `Save0` before its loop and cannot count to `usize::MAX`). -/
theorem C05_vm_translated_run (p : Prog) (o : VMOpts) (fuel : Nat)
    (hA : ∀ pc ix s, Reach bc p.body 0 bc.pos (State.new p.nSaves o.maxStack) pc ix s → StepAgree p.body pc s) :
    genRun bc p o fuel = runB bc p o fuel := by
  simp only [genRun, runB]
  exact C05_vm_translated_loop bc p.body 0 bc.pos _ o (Reach bc p.body 0 bc.pos (State.new p.nSaves o.maxStack)) hA
    (fun _ _ _ _ _ _ hr hs => .cont hr hs) (fun _ _ _ _ _ _ _ hr hs hp => .fail hr hs hp) fuel _ .start

/-- unconditionally: `run` as translated is the same loop over the corrected step -/
theorem C05_vm_translated_run' (p : Prog) (o : VMOpts) (fuel : Nat) :
    genRun bc p o fuel =
      driveLoop (stepB' bc p.body) (genOnFail o) fuel 0 bc.pos (State.new p.nSaves o.maxStack) {} := by
  have : genStep bc p.body = stepB' bc p.body := by
    funext pc ix s; exact C05_vm_translated_eq bc p.body pc ix s
  simp only [genRun, this]

/-! ## the corners are real: `stepB'` and `stepB` differ there -/

private def isFail : StepResult → Bool | .fail _ => true | _ => false
private def isPanic : StepResult → Bool | .done (.panic _) => true | _ => false
private def contStack : StepResult → Option Nat | .cont _ _ s => some s.stack.length | _ => none

/-- `Backref(0)` with one slot, unset: vm.rs fails at `lo == usize::MAX` before it would read slot 1; `stepB` reads both -/
example (bc : BCtx) : isFail (stepB' bc [.backref 0] 0 0 (State.new 1 10)) = true ∧
    isPanic (stepB bc [.backref 0] 0 0 (State.new 1 10)) = true := by
  constructor <;> simp [stepB', stepB, State.new, State.get, isFail, isPanic, UNSET]

/-- `RepeatEpsilonGr` below `lo` with `check` out of range: vm.rs does not read `check`; `stepB` does -/
example (bc : BCtx) : contStack (stepB' bc [.repeatEpsGr 1 7 0 5] 0 0 { State.new 1 10 with saves := [0] }) = some 0 ∧
    isPanic (stepB bc [.repeatEpsGr 1 7 0 5] 0 0 { State.new 1 10 with saves := [0] }) = true := by
  constructor <;> simp [stepB', stepB, epsRest, State.new, State.get, State.save, contStack, isPanic]

/-- an unbounded `RepeatGr` whose counter slot holds `usize::MAX` (e.g. never zeroed): vm.rs leaves the loop
    (`repcount == hi`), `stepB` (`hi = none`) iterates and pushes a branch -/
example (bc : BCtx) : contStack (stepB' bc [.repeatGr 0 none 7 0] 0 0 (State.new 1 10)) = some 0 ∧
    contStack (stepB bc [.repeatGr 0 none 7 0] 0 0 (State.new 1 10)) = some 1 := by
  constructor <;>
    simp [stepB', stepB, hiVal, pushOr, State.new, State.get, State.save, State.push, contStack, UNSET]

end Fancy

