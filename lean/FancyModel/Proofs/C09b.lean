import FancyModel.Proofs.C16c
import FancyModel.Proofs.C03d
import FancyModel.Proofs.C09
/-!
# C09 (second part) — `Regex::new_options`, the builder and the entry points of lib.rs, `no_expansion` of replacer.rs

`GeneratedLib.lean` is the glue of src/lib.rs and src/replacer.rs translated statement by statement by
`tools/rs2lean_lib.py` on every run of the check. This file proves:

* `C09_new_options_translated_eq`: the translated `new_options` (parse result → `wrap_tree` → the TRANSLATED `analyze` →
  `info.children[1].children[0].hard` → either the TRANSLATED `to_str` + `compile_inner`, or the TRANSLATED `compile`) is
  the model's `build`, with the same errors; the `Regex` it returns carries the program and `n_groups = end_group` (VM
  path) or the printed pattern (wrapped path), the options and the name table (`regexOf`);
* `C14_builder_translated`, `C14_builder_translated_last_wins`, `C14_options_stored`: each setter writes exactly its field,
  the last call wins, `build` hands the options to `new_options`, which stores them in the `Regex`;
* `C09_captures_translated_eq`, `C09_find_translated_eq`, `C09_is_match_translated_eq`, `C09_wrappers_translated`,
  `C09_entry_points_translated_eq`: every entry point is the corresponding projection of ONE `Built.captures`, on both
  paths (VM: the model's `run` in the context with `pos` and the flag bit; wrapped: the reference search, A-RA, which
  ignores the flags) - hence `C09_translated_same_outcome`: for every input `is_match` ⇔ `find` is `Some` ⇔ `captures`
  is `Some`, and they fail together;
* `C11_no_expansion_translated_eq`, `C11_replace_append_translated_eq`.
-/
set_option linter.unusedSimpArgs false
namespace Fancy
open Fancy.Parse Fancy.GenLib Fancy.GenAnalyze

/-! ## `Regex::new_options` -/

theorem hiOpt_unset : hiOpt UNSET = none := by simp [hiOpt]

theorem genWrapTree_expr (t : Tree) : (genWrapTree t).expr = wrapTree t.expr := by
  simp [genWrapTree, wrapTree, hiOpt_unset]

theorem genWrapTree_rest (t : Tree) : (genWrapTree t).backrefs = t.backrefs ∧ (genWrapTree t).namedGroups = t.namedGroups := by
  simp [genWrapTree]

/-- `build` only looks at the wrapped, numbered tree -/
theorem build_renumbered (tree : Expr) (backrefs : List Nat) :
    build (renumber tree 1).1 backrefs = build tree backrefs := by
  have hw : (renumber (wrapTree (renumber tree 1).1) 0).1 = (renumber (wrapTree tree) 0).1 := by
    have h1 := congrArg Prod.fst (renumber_idem tree 1)
    simp only [wrapTree, renumber, renumberList] at h1 ⊢
    simp [h1]
  unfold build
  simp only [hw]

/-- what `new_options` returns for what `build` returns: the program and `n_groups` on the VM path, the printed pattern on
    the wrapped path; the options and the name table as given -/
def regexOf (b : Built) (tree : Expr) (names : GenLib.Names) (options : ROptions) : LRes RRegex :=
  match b.kind with
  | .fancy prog => .ok ⟨.fancy prog b.nGroups options, names⟩
  | .wrap =>
    match GenToStr.genToStr tree [] 0 with
    | some cooked => .ok ⟨.wrap cooked options, names⟩
    | none => .panic "new_options: to_str"

/-- **`Regex::new_options` as translated is `build`** (same errors), on what the parser returned: the analysis is the
    translated `analyze`, the program the translated `compile`, the wrapped pattern what the translated `to_str` prints.
    Hypotheses: the domain of the analyzer / compiler ties (`analyzable`: no empty alternation; `hiOK`: no repeat bound
    `some usize::MAX`; the program fits in `usize`). -/
theorem C09_new_options_translated_eq (parse : List Char → Bool → LRes Tree) (options : ROptions) (t : Tree)
    (hp : parse options.pattern options.syntaxc = .ok t)
    (ha : analyzable t.expr = true) (hh : hiOK t.expr = true)
    (hfit : codeBound (renumber (wrapTree t.expr) 0).1 < UNSET) :
    genNewOptions parse options =
      match build t.expr t.backrefs with
      | .error e => .err (.compile e)
      | .ok b => regexOf b t.expr t.namedGroups options := by
  have hbr : (fun g => (genWrapTree t).backrefs.contains g) = (fun g => t.backrefs.contains g) := by
    simp [(genWrapTree_rest t).1]
  have hcanon : canon (genWrapTree t).expr = (renumber (wrapTree t.expr) 0).1 := by simp [canon, genWrapTree_expr]
  -- the analysis, through C13_analyze_eq on the numbered user expression
  have h13 := C13_analyze_eq (renumber t.expr 1).1 t.backrefs (by rw [analyzable_renumber]; exact ha)
  simp only at h13
  have hraw : (renumber (renumber t.expr 1).1 1).1 = (renumber t.expr 1).1 := congrArg Prod.fst (renumber_idem t.expr 1)
  have hwt : wrapTree (renumber t.expr 1).1 = (renumber (wrapTree t.expr) 0).1 := by
    simp [wrapTree, renumber, renumberList]
  have hww : (renumber (wrapTree (renumber t.expr 1).1) 0).1 = (renumber (wrapTree t.expr) 0).1 := by
    rw [hwt]; exact congrArg Prod.fst (renumber_idem (wrapTree t.expr) 0)
  rw [hraw, hww, hwt, build_renumbered] at h13
  obtain ⟨herr, hok⟩ := h13
  unfold genNewOptions
  simp only [hp, analyze, hbr, hcanon]
  cases hck : checkRefs (renumber (wrapTree t.expr) 0).1 0 with
  | error err =>
    obtain ⟨hga, hbuild⟩ := herr err hck
    simp only [hga, hbuild]
  | ok n =>
    obtain ⟨info, pre, grp, inner, hga, hch, hgch, hend, _, hhard, _, _, _, _, _, hbuild⟩ := hok n hck
    simp only [hga, hch, hgch, List.getElem?_cons_succ, List.getElem?_cons_zero]
    rw [hbuild]
    by_cases hih : inner.hard = true
    · -- the VM path: the translated compiler, through C01_analyze_compile_eq
      have h01 := C01_analyze_compile_eq t.expr t.backrefs ha hh hfit
      simp only [hga, hck] at h01
      simp only [hih, Bool.not_true, Bool.false_eq_true, if_false, compile_with_options]
      have hc : GenCompile.compile_with_options info = GenCompile.compile info := rfl
      rw [hc, h01]
      cases Fancy.compile (fun g => t.backrefs.contains g) (renumber (wrapTree t.expr) 0).1 with
      | error e => rfl
      | ok prog => simp [regexOf, hend, (genWrapTree_rest t).2]
    · have hf : inner.hard = false := by simpa using hih
      simp only [hf, Bool.not_false, if_true, genWrapTree_expr, wrapTree, List.getElem?_cons_succ, List.getElem?_cons_zero,
        regexOf, compile_inner, (genWrapTree_rest t).2]
      cases GenToStr.genToStr t.expr [] 0 <;> rfl

/-! ## `RegexBuilder` (C14) -/

/-- each setter writes exactly its field; `new` starts from the defaults with the pattern; `build` hands the options on -/
theorem C14_builder_translated (o : ROptions) (yes : Bool) (n : Nat) (pattern : List Char)
    (parse : List Char → Bool → LRes Tree) :
    genCaseInsensitive o yes = { o with syntaxc := yes } ∧
    genBacktrackLimit o n = { o with backtrackLimit := n } ∧
    genDelegateSizeLimit o n = { o with delegateSizeLimit := some n } ∧
    genDelegateDfaSizeLimit o n = { o with delegateDfaSizeLimit := some n } ∧
    genRegexBuilderNew pattern = ⟨pattern, false, 1000000, none, none⟩ ∧
    genBuild parse o = genNewOptions parse o ∧
    genRegexNew parse pattern = genNewOptions parse ⟨pattern, false, 1000000, none, none⟩ := by
  simp [genCaseInsensitive, genBacktrackLimit, genDelegateSizeLimit, genDelegateDfaSizeLimit, genRegexBuilderNew,
    genRegexOptionsDefault, genBuild, genRegexNew, syntaxcSet, syntaxcDefault]

/-- the last call of a setter wins, and setters of different fields commute -/
theorem C14_builder_translated_last_wins (o : ROptions) (a b : Nat) (x y : Bool) :
    genBacktrackLimit (genBacktrackLimit o a) b = genBacktrackLimit o b ∧
    genCaseInsensitive (genCaseInsensitive o x) y = genCaseInsensitive o y ∧
    genDelegateSizeLimit (genDelegateSizeLimit o a) b = genDelegateSizeLimit o b ∧
    genDelegateDfaSizeLimit (genDelegateDfaSizeLimit o a) b = genDelegateDfaSizeLimit o b ∧
    genBacktrackLimit (genCaseInsensitive o x) a = genCaseInsensitive (genBacktrackLimit o a) x := by
  simp [genCaseInsensitive, genBacktrackLimit, genDelegateSizeLimit, genDelegateDfaSizeLimit, syntaxcSet]

/-- the options a built `Regex` carries are the ones the builder was given: the backtrack limit reaches `vm::run` -/
theorem C14_options_stored (parse : List Char → Bool → LRes Tree) (options : ROptions) (t : Tree) (b : Built)
    (hp : parse options.pattern options.syntaxc = .ok t) (ha : analyzable t.expr = true) (hh : hiOK t.expr = true)
    (hfit : codeBound (renumber (wrapTree t.expr) 0).1 < UNSET) (hb : build t.expr t.backrefs = .ok b) (rx : RRegex)
    (hrx : genBuild parse options = .ok rx) :
    (match rx.inner with | .wrap _ o => o | .fancy _ _ o => o) = options ∧ rx.namedGroups = t.namedGroups := by
  have h := C09_new_options_translated_eq parse options t hp ha hh hfit
  rw [hb] at h
  simp only [genBuild] at hrx
  rw [h] at hrx
  simp only [regexOf] at hrx
  cases hk : b.kind with
  | fancy prog => rw [hk] at hrx; simp at hrx; cases hrx; simp
  | wrap =>
    rw [hk] at hrx
    cases hs : GenToStr.genToStr t.expr [] 0 with
    | none => rw [hs] at hrx; cases hrx
    | some cooked => rw [hs] at hrx; simp at hrx; cases hrx; simp

/-! ## `no_expansion` (C11) -/

/-- the specification: a replacement text is used literally iff it contains no `$`; `NoExpand` always; a closure never -/
def noExpansionSpec (s : List Char) : Option (List Char) := if s.contains '$' then none else some s

theorem C11_no_expansion_translated_eq (s : List Char) :
    genNoExpansionStr s = noExpansionSpec s ∧ genNoExpansionStringRef s = noExpansionSpec s ∧
    genNoExpansionString s = noExpansionSpec s ∧ genNoExpansionCow s = noExpansionSpec s ∧
    genNoExpansionCowRef s = noExpansionSpec s ∧ genNoExpansionNoExpand s = some s ∧
    genNoExpansionDefault = none := by
  simp [genNoExpansionStr, genNoExpansionStringRef, genNoExpansionString, genNoExpansionCow, genNoExpansionCowRef,
    genNoExpansionNoExpand, genNoExpansionDefault, genNoExpansionFn, noExpansionSpec]

/-- `replace_append`: a `&str` delegates to `Captures::expand` with itself as the template; `NoExpand` appends its text -/
theorem C11_replace_append_translated_eq (expand : RCaptures → List Char → List Char → List Char) (s dst : List Char)
    (caps : RCaptures) :
    genReplaceAppendStr expand s caps dst = expand caps s dst ∧ genReplaceAppendNoExpand s dst = dst ++ s := by
  simp [genReplaceAppendStr, genReplaceAppendNoExpand]

/-! ## the entry points -/

/-- the context a search from `pos` with `option_flags` runs in: the wrapped path does not look at the flags -/
def ctxOf (b : Built) (c0 : Ctx) (pos flags : Nat) : Ctx :=
  match b.kind with
  | .wrap => { c0 with pos := pos }
  | .fancy _ => { c0 with pos := pos, skipped := (flags &&& GenApi.OPTION_SKIPPED_EMPTY_MATCH != 0) }

/-- the `Captures` value for the model's slots -/
def capsOf (b : Built) (names : GenLib.Names) (slots : List (Option Nat)) : RCaptures :=
  match b.kind with
  | .wrap => ⟨.wrap (some slots), names⟩
  | .fancy _ => ⟨.fancy (slots.map rawOf), names⟩

/-- what `captures_from_pos_with_option_flags` returns for the model's `SearchResult` -/
def expectCaptures (b : Built) (names : GenLib.Names) : SearchResult → LRes (Option RCaptures)
  | .found slots => .ok (some (capsOf b names slots))
  | .noMatch => .ok none
  | .errLimit => .err .backtrackLimit
  | .errStack => .err .stackOverflow
  | .panic s => .panic s
  | .outOfFuel => .err .outOfFuel

/-- what `find_from_pos_with_option_flags` returns for the model's `SearchResult` (`Match::new(text, saves[0], saves[1])`) -/
def expectFind : SearchResult → LRes (Option (Nat × Nat))
  | .found slots => .ok (some (rawOf (slots[0]?).join, rawOf (slots[1]?).join))
  | .noMatch => .ok none
  | .errLimit => .err .backtrackLimit
  | .errStack => .err .stackOverflow
  | .panic s => .panic s
  | .outOfFuel => .err .outOfFuel

/-- what `is_match` returns -/
def expectIsMatch : SearchResult → LRes Bool
  | .found _ => .ok true
  | .noMatch => .ok false
  | .errLimit => .err .backtrackLimit
  | .errStack => .err .stackOverflow
  | .panic s => .panic s
  | .outOfFuel => .err .outOfFuel

/-- the options the regex carries -/
def optionsOf (rx : RRegex) : ROptions := match rx.inner with | .wrap _ o => o | .fancy _ _ o => o

theorem rawOf_view (l : List Nat) : (viewSlots l).map rawOf = l := by
  induction l with
  | nil => rfl
  | cons v vs ih =>
    simp only [viewSlots, List.map_cons, List.map_map] at ih ⊢
    rw [ih]
    by_cases h : v = UNSET <;> simp [rawOf, h]

theorem raInput_len (c0 : Ctx) (pos : Nat) : raInput c0 pos c0.len = some { c0 with pos := pos } := by
  simp [raInput]

/-- **`captures_from_pos_with_option_flags` as translated is `Built.captures`**, on both paths -/
theorem C09_captures_translated_eq (sem : RaSem) (fuel : Nat) (rx : RRegex) (b : Built) (h : Corr sem rx b) (c0 : Ctx)
    (pos flags : Nat) :
    genCapturesFromPosWithOptionFlags sem fuel rx c0 pos flags =
      expectCaptures b rx.namedGroups (b.captures (ctxOf b c0 pos flags) (optionsOf rx).backtrackLimit fuel).1 := by
  unfold Corr at h
  unfold genCapturesFromPosWithOptionFlags Built.captures ctxOf optionsOf
  cases hi : rx.inner with
  | wrap inner o =>
    rw [hi] at h
    obtain ⟨hk, hs⟩ := h
    simp only [hk, raInput_len, raCaptures, hs]
    cases refSearchK { c0 with pos := pos } b.raw b.nGroups with
    | none => rfl
    | some f => simp [expectCaptures, capsOf, hk]
  | fancy prog n o =>
    rw [hi] at h
    obtain ⟨hk, hn⟩ := h
    simp only [hk, vmRun]
    rcases hr : run { c0 with pos := pos, skipped := (flags &&& GenApi.OPTION_SKIPPED_EMPTY_MATCH != 0) } prog
      ⟨o.backtrackLimit, maxStackDefault⟩ fuel with ⟨out, st⟩
    cases out with
    | matched saves =>
      simp only [expectCaptures, capsOf, hk, hn, List.map_take, rawOf_view]
    | noMatch => rfl
    | errLimit => rfl
    | errStack => rfl
    | panic s => rfl
    | outOfFuel => rfl

/-- the VM never reports a match with fewer than two slots (true of `run` for a program with `n_saves ≥ 2`), and the regex
    has group 0 -/
def TwoSlots (b : Built) (c : Ctx) (limit fuel : Nat) : Prop :=
  1 ≤ b.nGroups ∧ ∀ prog saves, b.kind = .fancy prog → (run c prog ⟨limit, maxStackDefault⟩ fuel).1 = .matched saves → 2 ≤ saves.length

/-- **`find_from_pos_with_option_flags` as translated is `Built.find`**, on both paths (`saves[0]`, `saves[1]` exist) -/
theorem C09_find_translated_eq (sem : RaSem) (fuel : Nat) (rx : RRegex) (b : Built) (h : Corr sem rx b) (c0 : Ctx)
    (pos flags : Nat) (h2 : TwoSlots b (ctxOf b c0 pos flags) (optionsOf rx).backtrackLimit fuel) :
    genFindFromPosWithOptionFlags sem fuel rx c0 pos flags =
      expectFind (b.find (ctxOf b c0 pos flags) (optionsOf rx).backtrackLimit fuel) := by
  unfold Corr at h
  unfold TwoSlots at h2
  unfold genFindFromPosWithOptionFlags Built.find Built.captures ctxOf optionsOf at *
  cases hi : rx.inner with
  | wrap inner o =>
    rw [hi] at h
    obtain ⟨hk, hs⟩ := h
    simp only [hk, raInput_len, raSearch, raCaptures, hs]
    cases refSearchK { c0 with pos := pos } b.raw b.nGroups with
    | none => rfl
    | some f =>
      simp only [Option.map_some, expectFind, genMatchNew]
      have e0 : (f.slots.take 2)[0]? = f.slots[0]? := by simp [List.getElem?_take]
      have e1 : (f.slots.take 2)[1]? = f.slots[1]? := by simp [List.getElem?_take]
      rw [e0, e1]
  | fancy prog n o =>
    rw [hi] at h h2
    obtain ⟨hk, hn⟩ := h
    simp only [hk] at h2 ⊢
    obtain ⟨hg, hsv⟩ := h2
    simp only [vmRun]
    rcases hr : run { c0 with pos := pos, skipped := (flags &&& GenApi.OPTION_SKIPPED_EMPTY_MATCH != 0) } prog
      ⟨o.backtrackLimit, maxStackDefault⟩ fuel with ⟨out, st⟩
    cases out with
    | matched saves =>
      have hlen : 2 ≤ saves.length := hsv prog saves rfl (by rw [hr])
      have hv0 : saves[0]? = some saves[0] := List.getElem?_eq_getElem (by omega)
      have hv1 : saves[1]? = some saves[1] := List.getElem?_eq_getElem (by omega)
      simp only [hv0, hv1, genMatchNew, expectFind]
      have e0 : (((viewSlots saves).take (b.nGroups * 2)).take 2)[0]? = (viewSlots saves)[0]? := by
        simp [List.getElem?_take]; omega
      have e1 : (((viewSlots saves).take (b.nGroups * 2)).take 2)[1]? = (viewSlots saves)[1]? := by
        simp [List.getElem?_take]; omega
      rw [e0, e1, viewSlots_get, viewSlots_get, hv0, hv1]
      simp only [Option.map_some, Option.join_some]
      have hraw : ∀ v, rawOf (if (v == UNSET) = true then none else some v) = v := by
        intro v; by_cases hv : v = UNSET <;> simp [rawOf, hv]
      rw [hraw, hraw]
    | noMatch => rfl
    | errLimit => rfl
    | errStack => rfl
    | panic s => rfl
    | outOfFuel => rfl

/-- **`is_match` as translated**: the outcome class of `Built.captures` at position 0 without flags -/
theorem C09_is_match_translated_eq (sem : RaSem) (fuel : Nat) (rx : RRegex) (b : Built) (h : Corr sem rx b) (c0 : Ctx) :
    genIsMatch sem fuel rx c0 = expectIsMatch (b.captures (ctxOf b c0 0 0) (optionsOf rx).backtrackLimit fuel).1 := by
  unfold Corr at h
  unfold genIsMatch Built.captures ctxOf optionsOf
  cases hi : rx.inner with
  | wrap inner o =>
    rw [hi] at h
    obtain ⟨hk, hs⟩ := h
    simp only [hk, raIsMatch, raCaptures, hs]
    cases refSearchK { c0 with pos := 0 } b.raw b.nGroups <;> rfl
  | fancy prog n o =>
    rw [hi] at h
    obtain ⟨hk, hn⟩ := h
    simp only [hk, vmRun]
    rcases hr : run { c0 with pos := 0, skipped := ((0 : Nat) &&& GenApi.OPTION_SKIPPED_EMPTY_MATCH != 0) } prog
      ⟨o.backtrackLimit, maxStackDefault⟩ fuel with ⟨out, st⟩
    cases out <;> rfl

/-- the public wrappers pass position 0 / flags 0 on -/
theorem C09_wrappers_translated (sem : RaSem) (fuel : Nat) (rx : RRegex) (c0 : Ctx) (pos : Nat) :
    genFindFromPos sem fuel rx c0 pos = genFindFromPosWithOptionFlags sem fuel rx c0 pos 0 ∧
    genFind sem fuel rx c0 = genFindFromPosWithOptionFlags sem fuel rx c0 0 0 ∧
    genCapturesFromPos sem fuel rx c0 pos = genCapturesFromPosWithOptionFlags sem fuel rx c0 pos 0 ∧
    genCaptures sem fuel rx c0 = genCapturesFromPosWithOptionFlags sem fuel rx c0 0 0 := by
  simp [genFindFromPos, genFind, genCapturesFromPos, genCaptures]

/-- **all entry points of the TRANSLATED code are projections of one `Built.captures`**: bundled -/
theorem C09_entry_points_translated_eq (sem : RaSem) (fuel : Nat) (rx : RRegex) (b : Built) (h : Corr sem rx b) (c0 : Ctx)
    (pos flags : Nat) (h2 : TwoSlots b (ctxOf b c0 pos flags) (optionsOf rx).backtrackLimit fuel) :
    let r := (b.captures (ctxOf b c0 pos flags) (optionsOf rx).backtrackLimit fuel).1
    genCapturesFromPosWithOptionFlags sem fuel rx c0 pos flags = expectCaptures b rx.namedGroups r ∧
    genFindFromPosWithOptionFlags sem fuel rx c0 pos flags =
      expectFind (match r with | .found slots => .found (slots.take 2) | r => r) ∧
    genIsMatch sem fuel rx c0 = expectIsMatch (b.captures (ctxOf b c0 0 0) (optionsOf rx).backtrackLimit fuel).1 := by
  refine ⟨C09_captures_translated_eq sem fuel rx b h c0 pos flags, ?_, C09_is_match_translated_eq sem fuel rx b h c0⟩
  rw [C09_find_translated_eq sem fuel rx b h c0 pos flags h2, C09_find_is_captures_span]
  cases (b.captures (ctxOf b c0 pos flags) (optionsOf rx).backtrackLimit fuel).1 <;> rfl

/-- **coherence of the translated entry points**, for every input: `is_match(text)` ⇔ `find(text)` is `Some` ⇔
    `captures(text)` is `Some`; an error / panic of one is the same error / panic of the others -/
theorem C09_translated_same_outcome (sem : RaSem) (fuel : Nat) (rx : RRegex) (b : Built) (h : Corr sem rx b) (c0 : Ctx)
    (h2 : TwoSlots b (ctxOf b c0 0 0) (optionsOf rx).backtrackLimit fuel) :
    (genIsMatch sem fuel rx c0 = .ok true ↔ ∃ m, genFind sem fuel rx c0 = .ok (some m)) ∧
    (genIsMatch sem fuel rx c0 = .ok true ↔ ∃ c, genCaptures sem fuel rx c0 = .ok (some c)) ∧
    (genIsMatch sem fuel rx c0 = .ok false ↔ genFind sem fuel rx c0 = .ok none) ∧
    (genIsMatch sem fuel rx c0 = .ok false ↔ genCaptures sem fuel rx c0 = .ok none) := by
  have hw := C09_wrappers_translated sem fuel rx c0 0
  rw [hw.2.1, hw.2.2.2, C09_is_match_translated_eq sem fuel rx b h c0, C09_captures_translated_eq sem fuel rx b h c0 0 0,
    C09_find_translated_eq sem fuel rx b h c0 0 0 h2, C09_find_is_captures_span]
  cases (b.captures (ctxOf b c0 0 0) (optionsOf rx).backtrackLimit fuel).1 <;>
    simp [expectIsMatch, expectFind, expectCaptures]

end Fancy
