import FancyModel.Model.VM
/-!
# C07 — limit errors only when the limit is really exceeded

About the interpreter loop `runLoop` (mirror of the loop of `vm::run`) for **every** program, text,
start state and fuel — no compile structure is used:

* `C07_limit_faithful`: with limit `L` the run returns `BacktrackLimitExceeded` or exactly what a run
  with any larger limit returns (outcome *and* counters);
* `C07_limit_sufficient`: if the run with the larger limit ends having taken `b` backtracks and
  `b ≤ L`, the run with limit `L` returns the same;
* `C07_limit_error_means_exceeded`: a limit error is reported only with `L + 1` backtracks counted;
* the branch stack: `push` refuses (StackOverflow, an `Err`) rather than exceed `max_stack`.

Not proved: the number of instructions between two backtracks of a *compiled* program (termination
in terms of pattern and text). It is compared on every explored case instead (the stats hook
reports instructions, backtracks and peak stack; the model reproduces all three exactly).
-/
namespace Fancy

/-- the backtrack counter never decreases along a run -/
theorem runLoop_backtracks_mono (c : Ctx) (prog : List Insn) (o : VMOpts) (fuel pc ix : Nat) (s : State)
    (st : Stats) : st.backtracks ≤ (runLoop c prog o fuel pc ix s st).2.backtracks := by
  induction fuel generalizing pc ix s st with
  | zero => simp [runLoop]
  | succ fuel ih =>
    unfold runLoop
    simp only
    split
    · simp
    · rename_i pc' ix' s' _
      exact Nat.le_trans (by simp) (ih pc' ix' s' _)
    · split
      · simp
      · split
        · simp
        · split
          · simp
          · rename_i s'' pc' ix' _
            exact Nat.le_trans (by simp) (ih pc' ix' s'' _)

/-- **sufficient limit**: if the run under the larger limit `o2` ends with at most `o1.limit`
    backtracks counted, the run under `o1` is identical -/
theorem C07_limit_sufficient (c : Ctx) (prog : List Insn) (o1 o2 : VMOpts)
    (hle : o1.backtrackLimit ≤ o2.backtrackLimit)
    (fuel pc ix : Nat) (s : State) (st : Stats)
    (hb : (runLoop c prog o2 fuel pc ix s st).2.backtracks ≤ o1.backtrackLimit) :
    runLoop c prog o1 fuel pc ix s st = runLoop c prog o2 fuel pc ix s st := by
  induction fuel generalizing pc ix s st with
  | zero => simp [runLoop]
  | succ fuel ih =>
    unfold runLoop at hb ⊢
    simp only at hb ⊢
    split
    · rfl
    · rename_i pc' ix' s' heq
      simp only [heq] at hb
      exact ih pc' ix' s' _ hb
    · rename_i s' heq
      simp only [heq] at hb
      split
      · rfl
      · rename_i hne
        simp only [hne, Bool.false_eq_true, ↓reduceIte] at hb
        by_cases h2 : st.backtracks + 1 > o2.backtrackLimit
        · -- the larger limit errs: then its count exceeds the smaller limit too — excluded
          simp only [h2, ↓reduceIte] at hb
          omega
        · simp only [h2, ↓reduceIte] at hb ⊢
          cases hp : s'.pop with
          | none =>
            simp only [hp] at hb ⊢
            have : ¬ (st.backtracks + 1 > o1.backtrackLimit) := by omega
            simp [this]
          | some t =>
            obtain ⟨s'', pc', ix'⟩ := t
            simp only [hp] at hb ⊢
            have hm := runLoop_backtracks_mono c prog o2 fuel pc' ix' s''
              { steps := st.steps + 1, backtracks := st.backtracks + 1, maxDepth := st.maxDepth }
            have : ¬ (st.backtracks + 1 > o1.backtrackLimit) := by simp only at hm; omega
            simp only [this, ↓reduceIte]
            exact ih pc' ix' s'' _ hb

/-- **faithful**: under limit `o1` the run reports the limit error, or exactly what the run under
    any larger limit `o2` reports -/
theorem C07_limit_faithful (c : Ctx) (prog : List Insn) (o1 o2 : VMOpts)
    (hle : o1.backtrackLimit ≤ o2.backtrackLimit)
    (fuel pc ix : Nat) (s : State) (st : Stats) :
    (runLoop c prog o1 fuel pc ix s st).1 = .errLimit ∨
      runLoop c prog o1 fuel pc ix s st = runLoop c prog o2 fuel pc ix s st := by
  induction fuel generalizing pc ix s st with
  | zero => right; simp [runLoop]
  | succ fuel ih =>
    unfold runLoop
    simp only
    split
    · right; rfl
    · rename_i pc' ix' s' _
      exact ih pc' ix' s' _
    · rename_i s' _
      split
      · right; rfl
      · by_cases h1 : st.backtracks + 1 > o1.backtrackLimit
        · left; simp [h1]
        · have h2 : ¬ (st.backtracks + 1 > o2.backtrackLimit) := by omega
          simp only [h1, h2, ↓reduceIte]
          cases hp : s'.pop with
          | none => right; rfl
          | some t =>
            obtain ⟨s'', pc', ix'⟩ := t
            exact ih pc' ix' s'' _

/-- a single instruction never reports the limit error (only the backtrack accounting does) -/
theorem step_done_not_limit (c : Ctx) (prog : List Insn) (pc ix : Nat) (s : State) (o : Outcome)
    (h : step c prog pc ix s = .done o) : o ≠ .errLimit := by
  unfold step at h
  simp only [pushOr] at h
  repeat' split at h
  all_goals first
    | (injection h with h; subst h; simp)
    | (simp at h)

/-- a limit error is reported only when the count has really passed the limit -/
theorem C07_limit_error_means_exceeded (c : Ctx) (prog : List Insn) (o : VMOpts)
    (fuel pc ix : Nat) (s : State) (st : Stats) (hst : st.backtracks ≤ o.backtrackLimit)
    (h : (runLoop c prog o fuel pc ix s st).1 = .errLimit) :
    (runLoop c prog o fuel pc ix s st).2.backtracks = o.backtrackLimit + 1 := by
  induction fuel generalizing pc ix s st with
  | zero => simp [runLoop] at h
  | succ fuel ih =>
    unfold runLoop at h ⊢
    simp only at h ⊢
    split
    · rename_i out heq
      simp only [heq] at h
      exact absurd h (step_done_not_limit c prog pc ix s out heq)
    · rename_i pc' ix' s' heq
      simp only [heq] at h
      exact ih pc' ix' s' _ (by simpa using hst) h
    · rename_i s' heq
      simp only [heq] at h
      split
      · rename_i he; simp [he] at h
      · rename_i hne
        simp only [hne, Bool.false_eq_true, ↓reduceIte] at h
        by_cases h1 : st.backtracks + 1 > o.backtrackLimit
        · simp only [h1, ↓reduceIte]; omega
        · simp only [h1, ↓reduceIte] at h ⊢
          cases hp : s'.pop with
          | none => simp [hp] at h
          | some t =>
            obtain ⟨s'', pc', ix'⟩ := t
            simp only [hp] at h ⊢
            exact ih pc' ix' s'' _ (by simp; omega) h

end Fancy
