import FancyModel.Proofs.C08
/-!
# C10 — split and splitn partition the text around the find_iter matches

`Split` / `SplitN` (mirrors of the Rust iterators) over an arbitrary search oracle that is
well-formed (`WFOracle`: what C05 provides). Items are byte ranges `(a, b)` of the target; the text
of a piece is `&target[a..b]`. Error items pass through unchanged.
-/
namespace Fancy.Api
open Fancy.Utf8

/-- the pieces a drained `find_iter` sequence induces, starting from `ns` (= `next_start`) -/
def toPieces (len : Nat) : List (Except SearchErr (Nat × Nat)) → Nat → List Item
  | [], ns => if ns > len then [] else [.piece ns len]
  | .ok (s, e) :: rest, ns => .piece ns s :: toPieces len rest e
  | .error e :: rest, ns => .err e :: toPieces len rest ns

/-- `Split::next` in terms of `Matches::next` (one step of the state machine) -/
theorem C10_step (f : Oracle (Nat × Nat)) (text : Bytes) (sp : Split) :
    Split.next f text sp =
      match Iter.next f id text (text.length + 2) sp.it with
      | (none, it', _) =>
        if sp.nextStart > text.length then (none, { sp with it := it' })
        else (some (.piece sp.nextStart text.length), ⟨it', text.length + 1⟩)
      | (some (.ok (ms, me)), it', _) => (some (.piece sp.nextStart ms), ⟨it', me⟩)
      | (some (.error e), it', _) => (some (.err e), { sp with it := it' }) := by
  rfl

theorem split_collect_eq (f : Oracle (Nat × Nat)) (text : Bytes) (hwf : WFOracle f id text.length)
    (n : Nat) (it : Iter) (hj : it.J) (ns : Nat) (hns : ns ≤ text.length)
    (hshort : (Iter.collect f id text n it).length < n) :
    Split.collect f text (n + 1) ⟨it, ns⟩ = toPieces text.length (Iter.collect f id text n it) ns := by
  induction n generalizing it ns with
  | zero => simp at hshort
  | succ n ih =>
    unfold Split.collect
    rw [C10_step]
    unfold Iter.collect at hshort ⊢
    have hoof := C08_terminates f id text hwf it
    generalize hn : Iter.next f id text (text.length + 2) it = r at hshort hoof ⊢
    obtain ⟨item, it', oof⟩ := r
    simp only at hoof; subst hoof
    cases item with
    | none =>
      simp only [Nat.not_lt.mpr hns, ↓reduceIte, toPieces]
      -- the following call yields nothing: the iterator is fused and next_start is past the end
      have hf := C08_fused f id text _ (text.length + 1) it it' hn
      unfold Split.collect
      rw [C10_step]
      generalize hn2 : Iter.next f id text (text.length + 2) it' = r2 at hf
      obtain ⟨i2, it2, o2⟩ := r2
      simp only at hf; subst hf
      simp
    | some item =>
      cases item with
      | ok p =>
        obtain ⟨s, e⟩ := p
        obtain ⟨_, _, r3, _, _, _, _, r8⟩ := next_ok_spec f id text hwf _ it it' (s, e) false hj hn
        simp only [toPieces]
        congr 1
        exact ih it' r8 e r3 (by simpa using hshort)
      | error e =>
        simp only [toPieces]
        congr 1
        -- after an error the iterator state is exhausted; J is not needed any more, but we keep the
        -- induction uniform: the exhausted state satisfies J vacuously or not — use the direct route
        have hl := next_err_spec f id text _ it it' e false hn
        cases n with
        | zero => simp at hshort
        | succ n =>
          have hnone : (Iter.next f id text (text.length + 2) it').1 = none :=
            next_exhausted f id text _ it' (by omega)
          unfold Split.collect Iter.collect
          rw [C10_step]
          generalize hn2 : Iter.next f id text (text.length + 2) it' = r2 at hnone
          obtain ⟨i2, it2, o2⟩ := r2
          simp only at hnone; subst hnone
          simp only [Nat.not_lt.mpr hns, ↓reduceIte, toPieces]
          -- one final piece, then nothing
          have hf : (Iter.next f id text (text.length + 2) it2).1 = none := by
            have hoof2 := C08_terminates f id text hwf it'
            rw [hn2] at hoof2
            simp only at hoof2; subst hoof2
            exact C08_fused f id text _ (text.length + 1) it' it2 hn2
          unfold Split.collect
          rw [C10_step]
          generalize Iter.next f id text (text.length + 2) it2 = r3 at hf
          obtain ⟨i3, it3, o3⟩ := r3
          simp only at hf; subst hf
          simp

/-- **pieces**: `split` yields exactly the substrings between consecutive `find_iter` matches and
    then the rest of the text — one more piece than there are matches -/
theorem C10_pieces (f : Oracle (Nat × Nat)) (text : Bytes) (hwf : WFOracle f id text.length) :
    split f text = toPieces text.length (findIter f text) 0 := by
  unfold split findIter
  exact split_collect_eq f text hwf (text.length + 3) Iter.start Iter.J_start 0 (Nat.zero_le _)
    (by have := C08_length_bound f text hwf; unfold findIter at this; omega)

/-- for an error-free match list the pieces are the statement's: `#matches + 1` of them -/
theorem toPieces_ok (len : Nat) (ms : List (Nat × Nat)) (ns : Nat) (hns : ns ≤ len)
    (hms : ∀ m ∈ ms, m.2 ≤ len) :
    toPieces len (ms.map .ok) ns
      = (ApiSpec.piecesFrom len ms ns).map fun p => Item.piece p.1 p.2 := by
  induction ms generalizing ns with
  | nil => simp [toPieces, ApiSpec.piecesFrom, Nat.not_lt.mpr hns]
  | cons m ms ih =>
    obtain ⟨s, e⟩ := m
    simp only [List.map_cons, toPieces, ApiSpec.piecesFrom, List.cons.injEq, true_and]
    exact ih e (hms (s, e) (by simp)) (fun m hm => hms m (by simp [hm]))

theorem piecesFrom_length (len : Nat) (ms : List (Nat × Nat)) (ns : Nat) :
    (ApiSpec.piecesFrom len ms ns).length = ms.length + 1 := by
  induction ms generalizing ns with
  | nil => rfl
  | cons m ms ih => obtain ⟨s, e⟩ := m; simp [ApiSpec.piecesFrom, ih]

/-- **the statement, for an error-free run**: if `find_iter` yields the matches `ms`, `split`
    yields the `ms.length + 1` substrings between them -/
theorem C10_split_spec (f : Oracle (Nat × Nat)) (text : Bytes) (hwf : WFOracle f id text.length)
    (ms : List (Nat × Nat)) (hms : findIter f text = ms.map .ok) :
    split f text = (ApiSpec.pieces text.length ms).map (fun p => Item.piece p.1 p.2) ∧
      (split f text).length = ms.length + 1 := by
  have hord := C08_find_iter_ordered f text hwf
  have hends : ∀ m ∈ ms, m.2 ≤ text.length := by
    rw [hms] at hord
    clear hms
    generalize (0 : Nat) = lo at hord
    generalize (none : Option Nat) = lm at hord
    induction ms generalizing lo lm with
    | nil => intro m hm; simp at hm
    | cons x xs ih =>
      intro m hm
      simp only [List.map_cons, Ordered, id] at hord
      rcases List.mem_cons.mp hm with rfl | hm
      · exact hord.2.2.1
      · exact ih _ _ hord.2.2.2.2 m hm
  have h1 : split f text = (ApiSpec.pieces text.length ms).map (fun p => Item.piece p.1 p.2) := by
    rw [C10_pieces f text hwf, hms, toPieces_ok _ _ _ (Nat.zero_le _) hends]; rfl
  exact ⟨h1, by rw [h1]; simp [ApiSpec.pieces, piecesFrom_length]⟩

/-- **rebuild**: interleaving the pieces with the matched texts gives back the input -/
def rebuild (text : Bytes) : List (Nat × Nat) → Nat → Bytes
  | [], last => text.drop last
  | (s, e) :: ms, last => (text.drop last).take (s - last) ++ ((text.drop s).take (e - s) ++ rebuild text ms e)

theorem drop_take_append_drop (l : Bytes) (a b : Nat) (h : a ≤ b) :
    (l.drop a).take (b - a) ++ l.drop b = l.drop a := by
  have : l.drop b = (l.drop a).drop (b - a) := by rw [List.drop_drop]; congr 1; omega
  rw [this, List.take_append_drop]

theorem C10_rebuild (text : Bytes) (ms : List (Nat × Nat)) (last : Nat)
    (hsorted : List.Pairwise (fun a b : Nat × Nat => a.2 ≤ b.1) ms)
    (hwf : ∀ m ∈ ms, last ≤ m.1 ∧ m.1 ≤ m.2) :
    rebuild text ms last = text.drop last := by
  induction ms generalizing last with
  | nil => rfl
  | cons m ms ih =>
    obtain ⟨s, e⟩ := m
    have h1 := hwf (s, e) (by simp)
    simp only [rebuild]
    rw [ih e (List.Pairwise.of_cons hsorted)]
    · rw [drop_take_append_drop text s e h1.2, drop_take_append_drop text last s h1.1]
    · intro m hm
      have hp := List.rel_of_pairwise_cons hsorted hm
      have := hwf m (by simp [hm])
      exact ⟨hp, this.2⟩

/-! ### splitn: the statement's clauses as equations of the state machine -/

/-- `n = 0` yields nothing -/
theorem C10_splitn_zero (f : Oracle (Nat × Nat)) (text : Bytes) : splitn f text 0 = [] := by
  simp [splitn, SplitN.collect, SplitN.next]

/-- the last permitted item (`limit = 1`) is the untouched remainder of the text -/
theorem C10_splitn_last (f : Oracle (Nat × Nat)) (text : Bytes) (sp : Split) :
    SplitN.next f text ⟨sp, 1⟩ =
      if sp.nextStart > text.length then (none, ⟨sp, 0⟩)
      else (some (.piece sp.nextStart text.length), ⟨{ sp with nextStart := text.length + 1 }, 0⟩) := by
  simp only [SplitN.next]
  split <;> simp_all

/-- before that (`limit ≥ 2`) an item of `splitn` is the item of `split` -/
theorem C10_splitn_step (f : Oracle (Nat × Nat)) (text : Bytes) (sp : Split) (k : Nat) :
    SplitN.next f text ⟨sp, k + 2⟩ =
      ((Split.next f text sp).1, ⟨(Split.next f text sp).2, k + 1⟩) := by
  simp [SplitN.next]

/-- after the limit is used up nothing more is yielded (fused) -/
theorem C10_splitn_done (f : Oracle (Nat × Nat)) (text : Bytes) (sp : Split) :
    SplitN.next f text ⟨sp, 0⟩ = (none, ⟨sp, 0⟩) := by
  simp [SplitN.next]

/-! ### Non-vacuity -/

example : split demoOracle [97, 97, 98] = [.piece 0 0, .piece 2 3, .piece 3 3] := by rfl
example : splitn demoOracle [97, 97, 98] 2 = [.piece 0 0, .piece 2 3] := by rfl

end Fancy.Api
