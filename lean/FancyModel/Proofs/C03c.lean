import FancyModel.Proofs.C03b
import FancyModel.Proofs.C01d
/-!
# C03 — results do not depend on the VM / automata split: the engine statement (stage S3)

`C03_inject_stage`: take a pattern and the same pattern with any number of `(?=)` inserted (`InjStar`,
Proofs/C03b.lean). If each of the two is either handed to the automata engine as a whole or lies in
the proved engine stage (`s3Stage`), then every search gives the same result on both — same match /
no match, same span, same capture groups — unless one of the two runs stops for a resource reason.
This covers exactly the situation the property describes: the insertion turns an ordinary pattern
(hand-off path) into one that is compiled piecewise for the VM, with its easy parts delegated.
-/
namespace Fancy

/-- handed over whole, or inside the proved stage -/
def stageOrWrap (tree : Expr) (backrefs : List Nat) : Bool :=
  s3Stage tree backrefs ||
    (match build tree backrefs with
     | .ok b => (match b.kind with | .wrap => true | .fancy _ => false)
     | .error _ => false)

theorem vmCorrect_of_stageOrWrap (tree : Expr) (backrefs : List Nat) (b : Built) (c : Ctx)
    (hb : build tree backrefs = .ok b) (hs : stageOrWrap tree backrefs = true)
    (hlen : c.len < UNSET) (hpos : c.pos ≤ c.len) : VmCorrectR b c := by
  unfold stageOrWrap at hs
  by_cases h3 : s3Stage tree backrefs = true
  · obtain ⟨b0, prog, hb0, hk, hok, hws, hz, hdok⟩ := s3Stage_spec tree backrefs h3
    rw [hb] at hb0; cases hb0
    exact C01_vm_correct_s3 tree backrefs b prog c hb hk hok hws hz hdok hlen hpos
  · simp only [h3, Bool.false_or, hb] at hs
    cases hk : b.kind with
    | wrap => exact C03_wrap_vmcorrect b c hk
    | fancy p => simp [hk] at hs

theorem C03_inject_stage (tree tree' : Expr) (brs brs' : List Nat) (b b' : Built) (c : Ctx)
    (hb : build tree brs = .ok b) (hb' : build tree' brs' = .ok b') (hinj : InjStar tree tree')
    (hs : stageOrWrap tree brs = true) (hs' : stageOrWrap tree' brs' = true)
    (hlen : c.len < UNSET) (hpos : c.pos ≤ c.len) (limit fuel limit' fuel' : Nat) :
    ResourceStop (b.captures c limit fuel).1 ∨ ResourceStop (b'.captures c limit' fuel').1 ∨
      (b.captures c limit fuel).1 = (b'.captures c limit' fuel').1 :=
  C03_inject_engine tree tree' brs brs' b b' c hb hb' hinj
    (vmCorrect_of_stageOrWrap tree brs b c hb hs hlen hpos)
    (vmCorrect_of_stageOrWrap tree' brs' b' c hb' hs' hlen hpos) limit fuel limit' fuel'

/-! ### Non-vacuity: `ab` (handed over whole) and `a(?=)b` (compiled for the VM, with a `Delegate`) -/

set_option linter.unusedSimpArgs false in
example : stageOrWrap c03_exAB [] = true ∧ stageOrWrap c03_exAB' [] = true := by
  constructor
  · simp [stageOrWrap, s3Stage, build, c03_exAB, wrapTree, renumber, renumberList, checkRefs, checkRefsList, isHard, isHardAny]
  · simp [stageOrWrap, s3Stage, build, c03_exAB', wrapTree, renumber, renumberList, checkRefs, checkRefsList, isHard, isHardAny,
      compile, visit, visitMiddle, visitAlt, concatSplit, groupCount, groupCountList, constSize, constSizeAll, minSize, minSizeMin,
      minSizeSum, allMinSize, compileDelegates, compileDelegate, isLiteral, isLiteralAll, s3ok, s3okAll, s3okAlts, condFree, condFreeAll,
      boundsEq, satMul, satAdd, sureReps, UNSET, Assertion.isHard, wrapPosLook, posLookBodyPc, pushLiteral, wellShaped, wellShapedAll,
      noBareEndZ, noBareEndZAll, progDelegOK, slotsBelow, slotsBelowAll]

end Fancy
