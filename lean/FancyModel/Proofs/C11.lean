import FancyModel.Proofs.C09
import FancyModel.Spec.ApiSpec
/-!
# C11 — replacement rewrites exactly the first n matches and nothing else

`replacen` (mirror of `try_replacen`) over an arbitrary drained iterator and an arbitrary replacer
function. The fast path (`no_expansion`) runs it over `find_iter` items with a constant, the slow
path over `captures_iter` items with the replacer's output.
-/
namespace Fancy.Api
open Fancy.Utf8

variable {α : Type}

/-- **borrowed iff there is no item at all** (no match and no error) -/
theorem C11_borrow (items : List (Except SearchErr α)) (span : α → Nat × Nat) (rep : α → Bytes)
    (text : Bytes) (limit : Nat) : replacen items span rep text limit = .borrowed ↔ items = [] := by
  cases items with
  | nil => simp [replacen]
  | cons x xs =>
    simp only [replacen, reduceCtorEq, iff_false]
    cases x with
    | error e => simp [replaceLoop]
    | ok a =>
      simp only [replaceLoop]
      split
      · split <;> simp
      · generalize span a = se
        obtain ⟨s, e⟩ := se
        simp only
        split
        · simp
        · -- the rest of the loop never produces `borrowed`
          have : ∀ (l : List (Except SearchErr α)) i last acc,
              replaceLoop span rep text limit l i last acc ≠ .borrowed := by
            intro l
            induction l with
            | nil => intro i last acc; simp only [replaceLoop]; split <;> simp
            | cons y ys ih =>
              intro i last acc
              cases y with
              | error e => simp [replaceLoop]
              | ok b =>
                simp only [replaceLoop]
                split
                · split <;> simp
                · generalize span b = se2
                  obtain ⟨s2, e2⟩ := se2
                  simp only
                  split
                  · simp
                  · exact ih _ _ _
          exact this _ _ _ _

/-- **a search error is returned as `Err`**: an error item reached before the limit cuts the loop
    is the result (never a panic) -/
theorem C11_err (span : α → Nat × Nat) (rep : α → Bytes) (text : Bytes) (limit : Nat)
    (e : SearchErr) (rest : List (Except SearchErr α)) (i last : Nat) (acc : Bytes) :
    replaceLoop span rep text limit (.error e :: rest) i last acc = .err e := by
  simp [replaceLoop]

/-- the result depends only on the spans and on the replacer's outputs: running the loop over the
    span items with the outputs supplied per index gives the same result -/
theorem replaceLoop_spans (span : α → Nat × Nat) (text : Bytes) (limit : Nat) (c : Bytes)
    (items : List (Except SearchErr α)) (i last : Nat) (acc : Bytes) :
    replaceLoop span (fun _ => c) text limit items i last acc =
      replaceLoop id (fun _ => c) text limit (items.map (mapItem span)) i last acc := by
  induction items generalizing i last acc with
  | nil => simp [replaceLoop]
  | cons x xs ih =>
    cases x with
    | error e => simp [replaceLoop, mapItem]
    | ok a =>
      simp only [List.map_cons, mapItem, replaceLoop, id]
      split
      · rfl
      · generalize span a = se
        obtain ⟨s, e⟩ := se
        simp only
        split
        · rfl
        · exact ih _ _ _

/-- **the three no-expansion spellings agree**: a template without `$` / `NoExpand` (fast path over
    `find_iter`) and a closure returning the same string (slow path over `captures_iter`) give the
    same result, for every captures oracle -/
theorem C11_paths_agree (f : Oracle α) (span : α → Nat × Nat) (text : Bytes) (limit : Nat) (c : Bytes) :
    replacen (findIter (f.spans span) text) id (fun _ => c) text limit =
      replacen (capturesIter f span text) span (fun _ => c) text limit := by
  rw [C09_iters_equal]
  cases h : capturesIter f span text with
  | nil => simp [replacen]
  | cons x xs =>
    simp only [replacen, List.map_cons]
    rw [replaceLoop_spans span text limit c (x :: xs) 0 0 []]
    simp

/-- well-formed, ordered match list from `last` on: boundaries, in range, non-overlapping -/
def WFMatches (text : Bytes) : List (Nat × Nat) → Nat → Prop
  | [], last => last ≤ text.length ∧ isBoundary text last = true
  | (s, e) :: ms, last =>
    last ≤ s ∧ s ≤ e ∧ e ≤ text.length ∧ isBoundary text last = true ∧ isBoundary text s = true ∧
      WFMatches text ms e

theorem slice_ok (text : Bytes) (a b : Nat) (h1 : a ≤ b) (h2 : b ≤ text.length)
    (ha : isBoundary text a = true) (hb : isBoundary text b = true) :
    slice text a b = some ((text.drop a).take (b - a)) := by
  simp [slice, h1, h2, ha, hb]

theorem isBoundary_len (text : Bytes) : isBoundary text text.length = true := by
  simp [isBoundary]

/-- the statement: the text with the given match ranges replaced by the given outputs, every other
    byte unchanged -/
def rewrite (text : Bytes) : List ((Nat × Nat) × Bytes) → Nat → Bytes
  | [], last => text.drop last
  | ((s, e), out) :: ms, last => (text.drop last).take (s - last) ++ out ++ rewrite text ms e

/-- the matches that get replaced: all of them for `limit = 0`, else the first `limit - i` -/
def chosen (limit i : Nat) (as : List α) : List α := if limit = 0 then as else as.take (limit - i)

theorem replaceLoop_ok (span : α → Nat × Nat) (rep : α → Bytes) (text : Bytes) (limit : Nat)
    (as : List α) (i last : Nat) (acc : Bytes)
    (hwf : WFMatches text (as.map span) last) :
    replaceLoop span rep text limit (as.map .ok) i last acc =
      .owned (acc ++ rewrite text ((chosen limit i as).map fun a => (span a, rep a)) last) := by
  induction as generalizing i last acc with
  | nil =>
    obtain ⟨h1, h2⟩ := hwf
    simp only [List.map_nil, replaceLoop, chosen, List.take_nil, ite_self, rewrite]
    rw [slice_ok text last text.length h1 (Nat.le_refl _) h2 (isBoundary_len text)]
    simp [List.take_of_length_le]
  | cons a as ih =>
    simp only [List.map_cons, WFMatches] at hwf
    generalize hsp : span a = se at hwf
    obtain ⟨s, e⟩ := se
    obtain ⟨h1, h2, h3, h4, h5, h6⟩ := hwf
    simp only [List.map_cons, replaceLoop]
    split
    · rename_i hlim
      have hlim' : limit > 0 ∧ i ≥ limit := by simpa using hlim
      have hl0 : limit ≠ 0 := by omega
      have : limit - i = 0 := by omega
      simp only [chosen, hl0, ↓reduceIte, this, List.take_zero, List.map_nil, rewrite]
      rw [slice_ok text last text.length (by omega) (Nat.le_refl _) h4 (isBoundary_len text)]
      simp [List.take_of_length_le]
    · rename_i hlim
      rw [hsp]
      simp only
      rw [slice_ok text last s h1 (by omega) h4 h5]
      simp only
      rw [ih (i + 1) e _ h6]
      congr 1
      by_cases hl0 : limit = 0
      · simp [chosen, hl0, rewrite, hsp]
      · have hlt : i < limit := by
          rcases Nat.lt_or_ge i limit with h | h
          · exact h
          · exfalso; apply hlim; simp; omega
        have hsub : limit - i = (limit - (i + 1)) + 1 := by omega
        simp only [chosen, hl0, ↓reduceIte, hsub, List.take_succ_cons, List.map_cons, rewrite, hsp]
        simp [List.append_assoc]

/-- **the statement**: for an error-free, well-formed `captures_iter`/`find_iter` sequence the
    result is the text in which the first `limit` matches (all for `limit = 0`) are replaced by the
    replacer's output for the corresponding item, and every other byte is unchanged -/
theorem C11_replacen (span : α → Nat × Nat) (rep : α → Bytes) (text : Bytes) (limit : Nat)
    (a : α) (as : List α) (hwf : WFMatches text ((a :: as).map span) 0) :
    replacen ((a :: as).map .ok) span rep text limit =
      .owned (rewrite text ((chosen limit 0 (a :: as)).map fun x => (span x, rep x)) 0) := by
  have := replaceLoop_ok span rep text limit (a :: as) 0 0 [] hwf
  simpa [replacen] using this

/-! ### Non-vacuity -/

example : replacen (findIter demoOracle [97, 97, 98]) id (fun _ => [120]) [97, 97, 98] 0
    = .owned [120, 98, 120] := by rfl
example : WFMatches [97, 97, 98] [(0, 2), (3, 3)] 0 := by
  simp [WFMatches, isBoundary, isLead]

end Fancy.Api
