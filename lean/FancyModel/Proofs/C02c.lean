import FancyModel.Proofs.C01c
/-!
# C02 — capture groups of compiled programs (engine refinement, stage S2)

`C01_vm_correct_s2` relates the whole slot vector; spelled out per group: atomic groups, look-arounds
(captures set inside a look-around are retained), conditionals, counted repeats (the last iteration
that entered the group wins) are all covered.
-/
namespace Fancy

theorem C02_groups_s2 (tree : Expr) (backrefs : List Nat) (b : Built) (prog : Prog) (c : Ctx)
    (hb : build tree backrefs = .ok b) (hk : b.kind = .fancy prog)
    (hok : s2ok b.raw = true) (hnd : noDeleg prog.body = true)
    (hlen : c.len < UNSET) (hpos : c.pos ≤ c.len) (limit fuel : Nat) (slots : List (Option Nat))
    (hfound : (b.captures c limit fuel).1 = .found slots) :
    ∃ f, refSearch c b.raw b.nGroups = some f ∧ ∀ i : Nat, slots[i]? = f.slots[i]? := by
  have h := C01_vm_correct_s2 tree backrefs b prog c hb hk hok hnd hlen hpos limit fuel
  rw [hfound] at h
  rcases h with h | h | h | h
  · cases h
  · cases h
  · cases h
  · cases href : refSearch c b.raw b.nGroups with
    | none => simp [href] at h
    | some f =>
      simp only [href, SearchResult.found.injEq] at h
      exact ⟨f, rfl, fun i => by rw [h]⟩

end Fancy
