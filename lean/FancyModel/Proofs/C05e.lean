import FancyModel.Lemmas.VMBytesRefine
import FancyModel.Lemmas.VMBytesTyped
import FancyModel.Lemmas.VMBytesInv
import FancyModel.Lemmas.VMBytesTame
import FancyModel.Proofs.C01e
import FancyModel.Proofs.C05d
import FancyModel.Proofs.C11b
/-!
# C05e — the byte-level interpreter: offsets on character boundaries, no slice panic, `GoBack` counts
characters

Corollaries of the refinement `runB_refines` (Lemmas/VMBytesRefine.lean): the byte machine
`runB` (Model/VMBytes.lean, vm.rs at byte level) on the UTF-8 encoding of the text returns the
code-point machine's outcome with position slots mapped to byte offsets.

Three layers of each run-level corollary:
* `*_of_typed`: any program, a slot typing `τ` with `wellTyped τ prog`, the monitor `okLoop`;
* `*_of_tame` (and the un-suffixed `C05_bytes_no_slice_panic`, `C01_bytes_vm_correct`): programs `build`
  returns — the typing is `tauOf`, proved well typed (`build_wellTyped`) — under the monitor `bOK`,
  which follows from the residual monitor `bTame` (`bOK_of_bTame`);
* stage S3 (`runB_refines_built`, `C05_bytes_no_panic_s3`, `C05_bytes_offsets_valid`,
  `C01_bytes_vm_correct_s3`, and `*_pipeline` from the pattern string): NO side condition — `bTame_s3`.

* `C13_goback_counts_characters` — `GoBack(count)` at the byte offset of character `k` lands on the
  byte offset of character `k - count` (a character boundary) if `count ≤ k` and fails otherwise;
  it never indexes before the start and never stops inside a character.
* `C05_bytes_no_slice_panic_of_typed` — `runB` reaches no panic that `run` does not reach (in particular none of
  the byte-only sites: `&s[lo..hi]` off a boundary, `prev_codepoint_ix` out of range);
  `C05_bytes_no_panic_s3_of_typed`: none at all for stage-S3 patterns.
* `C05_bytes_offsets_valid_of_typed` — for a compiled program whose search is the reference search
  (`VmCorrectR`: stages S1–S3, `C01_vm_correct_s3`, `C01_pipeline_s3`) every capture offset `runB`
  reports is `UNSET` or lies on a character boundary inside the text, and group 0 satisfies
  `pos ≤ start ≤ end ≤ byte length`.
* `bytesOfChars_eq_utf8Of`, `offOf_eq_boff`: the text and the offset map are the driver's.
-/
namespace Fancy
open Utf8

/-! ### the text and the offsets are the driver's -/

theorem bytesOfChars_eq_utf8Of (chars : List Char) : bytesOfChars chars = Api.utf8Of chars := rfl

theorem offOf_eq_boff (chars : List Char) (k : Nat) : offOf chars k = Api.boff chars k :=
  Api.off_eq_boff chars k

/-! ### `GoBack` counts characters -/

/-- **C13 at byte level**: from the byte offset of character position `k`, `GoBack(count)` continues at
    the byte offset of character position `k - count` — a character boundary — when `count ≤ k`, and
    fails (no panic: `prev_codepoint_ix` never indexes out of range) when `k < count` -/
theorem C13_goback_counts_characters (c : Ctx) (prog : List Insn) (pc k count : Nat) (s : State)
    (hpc : prog[pc]? = some (.goBack count)) (hk : k ≤ c.text.length) :
    (count ≤ k →
      stepB (BCtx.ofCtx c) prog pc (offOf c.text k) s = .cont (pc + 1) (offOf c.text (k - count)) s ∧
      isBoundary (bytesOfChars c.text) (offOf c.text (k - count)) = true) ∧
    (k < count → stepB (BCtx.ofCtx c) prog pc (offOf c.text k) s = .fail s) := by
  have hgb := goBack_at c.text count k hk
  constructor
  · intro h
    refine ⟨?_, ?_⟩
    · unfold stepB
      simp only [hpc, BCtx.ofCtx_text, hgb, Fancy.goBack, if_pos h, Option.map_some]
    · exact (C05_boundary_iff _ _).mpr ⟨k - count, by simp; omega, rfl⟩
  · intro h
    unfold stepB
    simp only [hpc, BCtx.ofCtx_text, hgb, Fancy.goBack, if_neg (by omega : ¬ count ≤ k), Option.map_none]

/-! ### no panic beyond the code-point machine's -/

section Run
variable (c : Ctx) (τ : Nat → Bool) (nS : Nat)
variable (hceq : ∀ a b, c.ceq false a b = (a == b))
variable (hU : (bytesOfChars c.text).length < UNSET)
variable (hτ : ∀ i, nS ≤ i → τ i = false)

include hceq hU hτ in
/-- **no slice / index panic of its own**: a panic of the byte machine is a panic of the code-point
    machine at the same site -/
theorem C05_bytes_no_slice_panic_of_typed (p : Prog) (op : VMOpts) (fuel : Nat) (hwt : wellTyped τ p.body = true)
    (hok : okLoop c τ nS p.body op fuel 0 c.pos (State.new p.nSaves op.maxStack) 0 = true) (site : String)
    (h : (runB (BCtx.ofCtx c) p op fuel).1 = .panic site) : (run c p op fuel).1 = .panic site := by
  rw [runB_refines c τ nS hceq hU hτ p op fuel hwt hok] at h
  simp only at h
  cases hr : (run c p op fuel).1 with
  | matched saves => rw [hr] at h; cases h
  | panic s => rw [hr] at h; exact h
  | noMatch => rw [hr] at h; cases h
  | errLimit => rw [hr] at h; cases h
  | errStack => rw [hr] at h; cases h
  | outOfFuel => rw [hr] at h; cases h

include hceq hU hτ in
/-- stage S3: the byte machine does not panic at all -/
theorem C05_bytes_no_panic_s3_of_typed (tree : Expr) (backrefs : List Nat) (b : Built) (prog : Prog)
    (hb : build tree backrefs = .ok b) (hk : b.kind = .fancy prog)
    (hs3 : s3ok (fun g => backrefs.contains g) b.raw true = true) (hws : wellShaped b.raw = true)
    (hz : noBareEndZ b.raw = true) (hdok : progDelegOK prog.nSaves prog.body = true)
    (hlen : c.len < UNSET) (hpos : c.pos ≤ c.len) (limit fuel : Nat)
    (hwt : wellTyped τ prog.body = true)
    (hok : okLoop c τ nS prog.body ⟨limit, maxStackDefault⟩ fuel 0 c.pos (State.new prog.nSaves maxStackDefault) 0 = true)
    (site : String) : (runB (BCtx.ofCtx c) prog ⟨limit, maxStackDefault⟩ fuel).1 ≠ .panic site := by
  intro h
  have h1 := C05_bytes_no_slice_panic_of_typed c τ nS hceq hU hτ prog ⟨limit, maxStackDefault⟩ fuel hwt hok site h
  exact C05_no_panic_s3 tree backrefs b prog c hb hk hs3 hws hz hdok hlen hpos limit fuel site
    (captures_panic_of_run b prog c hk limit fuel site h1)

/-! ### every reported offset is a character boundary inside the text -/

theorem viewSlots_take_get (saves : List Nat) (n i v : Nat)
    (h : ((viewSlots saves).take n)[i]? = some (some v)) : saves[i]? = some v ∧ v ≠ UNSET ∧ i < n := by
  simp only [viewSlots, List.getElem?_take, List.getElem?_map] at h
  split at h
  · rename_i hi
    cases hs : saves[i]? with
    | none => rw [hs] at h; cases h
    | some w =>
      rw [hs] at h
      simp only [Option.map_some, Option.some.injEq] at h
      split at h
      · cases h
      · rename_i hne
        simp only [Option.some.injEq] at h
        subst h
        exact ⟨rfl, by simpa using hne, hi⟩
  · cases h

theorem viewSlots_take_of (saves : List Nat) (n i v : Nat) (hi : i < n) (hs : saves[i]? = some v) (hv : v ≠ UNSET) :
    ((viewSlots saves).take n)[i]? = some (some v) := by
  simp [viewSlots, List.getElem?_take, hi, hs, hv]

include hceq hU hτ in
/-- **C05 at byte level**: for a compiled program whose search is the reference search, every capture
    offset the byte machine reports is `UNSET` (group did not take part) or a character boundary inside
    the text, and the overall match satisfies `pos ≤ start ≤ end ≤ byte length` (byte `pos`) -/
theorem C05_bytes_offsets_valid_of_typed (tree : Expr) (backrefs : List Nat) (b : Built) (prog : Prog)
    (hb : build tree backrefs = .ok b) (hk : b.kind = .fancy prog) (hvm : VmCorrectR b c)
    (hτg : ∀ i, i < 2 * b.nGroups → τ i = true) (limit fuel : Nat)
    (hwt : wellTyped τ prog.body = true)
    (hok : okLoop c τ nS prog.body ⟨limit, maxStackDefault⟩ fuel 0 c.pos (State.new prog.nSaves maxStackDefault) 0 = true)
    (savesB : List Nat)
    (hm : (runB (BCtx.ofCtx c) prog ⟨limit, maxStackDefault⟩ fuel).1 = .matched savesB) :
    (∀ i w, i < 2 * b.nGroups → savesB[i]? = some w →
      w = UNSET ∨ (isBoundary (bytesOfChars c.text) w = true ∧ w ≤ (bytesOfChars c.text).length)) ∧
    (1 ≤ b.nGroups → ∃ s e, savesB[0]? = some s ∧ savesB[1]? = some e ∧
      (BCtx.ofCtx c).pos ≤ s ∧ s ≤ e ∧ e ≤ (bytesOfChars c.text).length ∧
      isBoundary (bytesOfChars c.text) s = true ∧ isBoundary (bytesOfChars c.text) e = true) := by
  rw [runB_refines c τ nS hceq hU hτ prog ⟨limit, maxStackDefault⟩ fuel hwt hok] at hm
  simp only at hm
  cases hrun : run c prog ⟨limit, maxStackDefault⟩ fuel with
  | mk out st =>
    rw [hrun] at hm
    simp only at hm
    cases out with
    | matched saves =>
      simp only [mapOut, Outcome.matched.injEq] at hm
      subst hm
      -- what the search reports
      have hcap : (b.captures c limit fuel).1 = .found ((viewSlots saves).take (b.nGroups * 2)) := by
        unfold Built.captures; simp only [hk, hrun]
      have hv := hvm limit fuel
      rw [hcap] at hv
      rcases hv with hv | hv | hv | hv
      · cases hv
      · cases hv
      · cases hv
      · cases href : refSearch c b.raw b.nGroups with
        | none => rw [href] at hv; cases hv
        | some f =>
          rw [href] at hv
          simp only [SearchResult.found.injEq] at hv
          have hval := refSearch_valid c b.raw b.nGroups (build_noSelfNest tree backrefs b hb) f href
          rw [← hv] at hval
          have hbd : ∀ v, v ≤ c.text.length → isBoundary (bytesOfChars c.text) (offOf c.text v) = true ∧
              offOf c.text v ≤ (bytesOfChars c.text).length := fun v hvl =>
            ⟨(C05_boundary_iff _ _).mpr ⟨v, by simpa using hvl, rfl⟩, offOf_le c.text v⟩
          have hget : ∀ i v, i < 2 * b.nGroups → saves[i]? = some v → v ≠ UNSET →
              v ≤ c.text.length ∧ (mapSaves τ (offOf c.text) saves)[i]? = some (offOf c.text v) := by
            intro i v hi hs hne
            have hmem : some v ∈ (viewSlots saves).take (b.nGroups * 2) :=
              List.mem_of_getElem? (viewSlots_take_of saves _ i v (by omega) hs hne)
            have hvl : v ≤ c.text.length := hval.le_len v hmem
            refine ⟨hvl, ?_⟩
            rw [mapSaves_getElem?, hs]
            simp only [Option.map_some, mapAt, hτg i hi, if_true, mapV_of_le c.text hU v hvl]
          constructor
          · intro i w hi hw
            rw [mapSaves_getElem?] at hw
            cases hs : saves[i]? with
            | none => rw [hs] at hw; cases hw
            | some v =>
              by_cases hne : v = UNSET
              · left
                rw [hs] at hw
                simp only [Option.map_some, Option.some.injEq] at hw
                rw [← hw, hne, mapAt_unset]
              · right
                obtain ⟨hvl, hg⟩ := hget i v hi hs hne
                rw [mapSaves_getElem?, hs] at hg
                rw [hs] at hw
                rw [hg] at hw
                simp only [Option.some.injEq] at hw
                subst hw
                exact hbd v hvl
          · intro hg1
            obtain ⟨s, e, h0, h1, hps, hse, hel⟩ := hval.span (by omega)
            obtain ⟨hs0, hn0, _⟩ := viewSlots_take_get saves _ 0 s h0
            obtain ⟨hs1, hn1, _⟩ := viewSlots_take_get saves _ 1 e h1
            have hel' : e ≤ c.text.length := hel
            obtain ⟨_, g0⟩ := hget 0 s (by omega) hs0 hn0
            obtain ⟨_, g1⟩ := hget 1 e (by omega) hs1 hn1
            refine ⟨offOf c.text s, offOf c.text e, g0, g1, ?_, ?_, offOf_le c.text e,
              (hbd s (by omega)).1, (hbd e hel').1⟩
            · exact offOf_le_of_le c.text c.pos s hps (by omega)
            · exact offOf_le_of_le c.text s e hse hel'
    | noMatch => cases hm
    | errLimit => cases hm
    | errStack => cases hm
    | panic s => cases hm
    | outOfFuel => cases hm

/-! ### the byte machine's answer is the reference search's, in byte offsets -/

include hU in
theorem viewSlots_mapSaves_take (saves : List Nat) (n : Nat) (hτn : ∀ i, i < n → τ i = true) :
    (viewSlots (mapSaves τ (offOf c.text) saves)).take n =
      ((viewSlots saves).take n).map (Option.map (offOf c.text)) := by
  apply List.ext_getElem?
  intro i
  simp only [viewSlots, List.getElem?_take, List.getElem?_map, mapSaves_getElem?]
  split
  · rename_i hi
    cases saves[i]? with
    | none => rfl
    | some v =>
      simp only [Option.map_some, mapAt, hτn i hi, if_true]
      by_cases hv : v = UNSET
      · subst hv; simp [mapV_unset]
      · have h1 : mapV (offOf c.text) v ≠ UNSET := fun h => hv ((mapV_eq_unset c.text hU v).mp h)
        have h2 : mapV (offOf c.text) v = offOf c.text v := by unfold mapV; rw [if_neg hv]
        simp [hv, h2, offOf_ne_unset c.text hU v]
  · rfl

include hceq hU hτ in
/-- **C01 at byte level**: where the code-point search is the reference search (`VmCorrectR`), the byte
    machine stops on a resource limit or reports the reference search's capture slots as byte offsets -/
theorem C01_bytes_vm_correct_of_typed (b : Built) (prog : Prog) (hk : b.kind = .fancy prog) (hvm : VmCorrectR b c)
    (hτg : ∀ i, i < b.nGroups * 2 → τ i = true) (limit fuel : Nat)
    (hwt : wellTyped τ prog.body = true)
    (hok : okLoop c τ nS prog.body ⟨limit, maxStackDefault⟩ fuel 0 c.pos (State.new prog.nSaves maxStackDefault) 0 = true) :
    (runB (BCtx.ofCtx c) prog ⟨limit, maxStackDefault⟩ fuel).1 = .outOfFuel ∨
    (runB (BCtx.ofCtx c) prog ⟨limit, maxStackDefault⟩ fuel).1 = .errStack ∨
    (runB (BCtx.ofCtx c) prog ⟨limit, maxStackDefault⟩ fuel).1 = .errLimit ∨
    match refSearch c b.raw b.nGroups with
    | some f => ∃ savesB, (runB (BCtx.ofCtx c) prog ⟨limit, maxStackDefault⟩ fuel).1 = .matched savesB ∧
        (viewSlots savesB).take (b.nGroups * 2) = f.slots.map (Option.map (offOf c.text))
    | none => (runB (BCtx.ofCtx c) prog ⟨limit, maxStackDefault⟩ fuel).1 = .noMatch := by
  rw [runB_refines c τ nS hceq hU hτ prog ⟨limit, maxStackDefault⟩ fuel hwt hok]
  simp only
  have hv := hvm limit fuel
  unfold Built.captures at hv
  simp only [hk] at hv
  cases hrun : run c prog ⟨limit, maxStackDefault⟩ fuel with
  | mk out st =>
    rw [hrun] at hv
    cases out with
    | matched saves =>
      simp only at hv
      right; right; right
      rcases hv with hv | hv | hv | hv
      · cases hv
      · cases hv
      · cases hv
      · cases href : refSearch c b.raw b.nGroups with
        | none => rw [href] at hv; cases hv
        | some f =>
          rw [href] at hv
          simp only [SearchResult.found.injEq] at hv
          refine ⟨_, rfl, ?_⟩
          rw [viewSlots_mapSaves_take c τ hU saves _ hτg, hv]
    | noMatch =>
      simp only at hv
      right; right; right
      rcases hv with hv | hv | hv | hv
      · cases hv
      · cases hv
      · cases hv
      · cases href : refSearch c b.raw b.nGroups with
        | none => rfl
        | some f => rw [href] at hv; cases hv
    | errLimit => right; right; left; rfl
    | errStack => right; left; rfl
    | outOfFuel => left; rfl
    | panic site =>
      simp only at hv
      rcases hv with hv | hv | hv | hv
      · cases hv
      · cases hv
      · cases hv
      · cases href : refSearch c b.raw b.nGroups <;> rw [href] at hv <;> cases hv

include hceq hU hτ in
/-- stage S3 (`C01_vm_correct_s3`) -/
theorem C01_bytes_vm_correct_s3_of_typed (tree : Expr) (backrefs : List Nat) (b : Built) (prog : Prog)
    (hb : build tree backrefs = .ok b) (hk : b.kind = .fancy prog)
    (hs3 : s3ok (fun g => backrefs.contains g) b.raw true = true) (hws : wellShaped b.raw = true)
    (hz : noBareEndZ b.raw = true) (hdok : progDelegOK prog.nSaves prog.body = true)
    (hlen : c.len < UNSET) (hpos : c.pos ≤ c.len)
    (hτg : ∀ i, i < b.nGroups * 2 → τ i = true) (limit fuel : Nat)
    (hwt : wellTyped τ prog.body = true)
    (hok : okLoop c τ nS prog.body ⟨limit, maxStackDefault⟩ fuel 0 c.pos (State.new prog.nSaves maxStackDefault) 0 = true) :
    (runB (BCtx.ofCtx c) prog ⟨limit, maxStackDefault⟩ fuel).1 = .outOfFuel ∨
    (runB (BCtx.ofCtx c) prog ⟨limit, maxStackDefault⟩ fuel).1 = .errStack ∨
    (runB (BCtx.ofCtx c) prog ⟨limit, maxStackDefault⟩ fuel).1 = .errLimit ∨
    match refSearch c b.raw b.nGroups with
    | some f => ∃ savesB, (runB (BCtx.ofCtx c) prog ⟨limit, maxStackDefault⟩ fuel).1 = .matched savesB ∧
        (viewSlots savesB).take (b.nGroups * 2) = f.slots.map (Option.map (offOf c.text))
    | none => (runB (BCtx.ofCtx c) prog ⟨limit, maxStackDefault⟩ fuel).1 = .noMatch :=
  C01_bytes_vm_correct_of_typed c τ nS hceq hU hτ b prog hk
    (C01_vm_correct_s3 tree backrefs b prog c hb hk hs3 hws hz hdok hlen hpos) hτg limit fuel hwt hok

end Run

/-! ### for the programs `build` returns: the typing is `tauOf`, proved well typed (`build_wellTyped`)

The remaining side condition is the run-time monitor `okLoop` (with `tauOf`); `bOK` abbreviates it. -/

section Built
variable (c : Ctx)
variable (hceq : ∀ a b, c.ceq false a b = (a == b))
variable (hU : (bytesOfChars c.text).length < UNSET)

/-- the monitor for a run of a built program -/
abbrev bOK (b : Built) (prog : Prog) (limit fuel : Nat) : Bool :=
  okLoop c (tauOf prog.body b.nGroups) prog.nSaves prog.body ⟨limit, maxStackDefault⟩ fuel 0 c.pos
    (State.new prog.nSaves maxStackDefault) 0

/-- the residual monitor for a run of a built program: no `Restore` of an unset slot, auxiliary-stack
    discipline, `Delegate` group slots present -/
abbrev bTame (b : Built) (prog : Prog) (limit fuel : Nat) : Bool :=
  tameLoop c (tauOf prog.body b.nGroups) prog.nSaves prog.body ⟨limit, maxStackDefault⟩ fuel 0 c.pos
    (State.new prog.nSaves maxStackDefault) 0

/-- for built programs the monitor `bOK` of the corollaries below follows from the residual monitor
    `bTame` (typed-state invariant, `Lemmas/VMBytesInv.lean`) -/
theorem bOK_of_bTame (tree : Expr) (backrefs : List Nat) (b : Built) (prog : Prog)
    (hb : build tree backrefs = .ok b) (hk : b.kind = .fancy prog) (hpos : c.pos ≤ c.len) (limit fuel : Nat)
    (ht : bTame c b prog limit fuel = true) : bOK c b prog limit fuel = true := by
  obtain ⟨hwt, hτ, _, _⟩ := build_wellTyped tree backrefs b prog hb hk
  exact okLoop_of_tame c _ prog.nSaves hτ hpos prog.body _ hwt fuel 0 c.pos _ 0 (typed_new _ _) hpos ht

include hceq hU in
/-- `runB_refines` for built programs -/
theorem runB_refines_built_of_tame (tree : Expr) (backrefs : List Nat) (b : Built) (prog : Prog)
    (hb : build tree backrefs = .ok b) (hk : b.kind = .fancy prog) (limit fuel : Nat)
    (hok : bOK c b prog limit fuel = true) :
    runB (BCtx.ofCtx c) prog ⟨limit, maxStackDefault⟩ fuel =
      (mapOut (tauOf prog.body b.nGroups) (offOf c.text) (run c prog ⟨limit, maxStackDefault⟩ fuel).1,
        (run c prog ⟨limit, maxStackDefault⟩ fuel).2) := by
  obtain ⟨hwt, hτ, _, _⟩ := build_wellTyped tree backrefs b prog hb hk
  exact runB_refines c _ prog.nSaves hceq hU hτ prog ⟨limit, maxStackDefault⟩ fuel hwt hok

include hceq hU in
theorem C05_bytes_no_slice_panic (tree : Expr) (backrefs : List Nat) (b : Built) (prog : Prog)
    (hb : build tree backrefs = .ok b) (hk : b.kind = .fancy prog) (limit fuel : Nat)
    (hok : bOK c b prog limit fuel = true) (site : String)
    (h : (runB (BCtx.ofCtx c) prog ⟨limit, maxStackDefault⟩ fuel).1 = .panic site) :
    (run c prog ⟨limit, maxStackDefault⟩ fuel).1 = .panic site := by
  obtain ⟨hwt, hτ, _, _⟩ := build_wellTyped tree backrefs b prog hb hk
  exact C05_bytes_no_slice_panic_of_typed c _ prog.nSaves hceq hU hτ prog ⟨limit, maxStackDefault⟩ fuel hwt hok site h

include hceq hU in
theorem C05_bytes_no_panic_s3_of_tame (tree : Expr) (backrefs : List Nat) (b : Built) (prog : Prog)
    (hb : build tree backrefs = .ok b) (hk : b.kind = .fancy prog)
    (hs3 : s3ok (fun g => backrefs.contains g) b.raw true = true) (hws : wellShaped b.raw = true)
    (hz : noBareEndZ b.raw = true)
    (hlen : c.len < UNSET) (hpos : c.pos ≤ c.len) (limit fuel : Nat)
    (hok : bOK c b prog limit fuel = true)
    (site : String) : (runB (BCtx.ofCtx c) prog ⟨limit, maxStackDefault⟩ fuel).1 ≠ .panic site := by
  obtain ⟨hwt, hτ, _, _⟩ := build_wellTyped tree backrefs b prog hb hk
  exact C05_bytes_no_panic_s3_of_typed c _ prog.nSaves hceq hU hτ tree backrefs b prog hb hk hs3 hws hz
    (build_progDelegOK tree backrefs b prog hb hk) hlen hpos limit fuel hwt hok site

include hceq hU in
theorem C05_bytes_offsets_valid_of_tame (tree : Expr) (backrefs : List Nat) (b : Built) (prog : Prog)
    (hb : build tree backrefs = .ok b) (hk : b.kind = .fancy prog) (hvm : VmCorrectR b c) (limit fuel : Nat)
    (hok : bOK c b prog limit fuel = true) (savesB : List Nat)
    (hm : (runB (BCtx.ofCtx c) prog ⟨limit, maxStackDefault⟩ fuel).1 = .matched savesB) :
    (∀ i w, i < 2 * b.nGroups → savesB[i]? = some w →
      w = UNSET ∨ (isBoundary (bytesOfChars c.text) w = true ∧ w ≤ (bytesOfChars c.text).length)) ∧
    (∃ s e, savesB[0]? = some s ∧ savesB[1]? = some e ∧
      (BCtx.ofCtx c).pos ≤ s ∧ s ≤ e ∧ e ≤ (bytesOfChars c.text).length ∧
      isBoundary (bytesOfChars c.text) s = true ∧ isBoundary (bytesOfChars c.text) e = true) := by
  obtain ⟨hwt, hτ, hτg, hG1⟩ := build_wellTyped tree backrefs b prog hb hk
  obtain ⟨h1, h2⟩ := C05_bytes_offsets_valid_of_typed c _ prog.nSaves hceq hU hτ tree backrefs b prog hb hk hvm hτg
    limit fuel hwt hok savesB hm
  exact ⟨h1, h2 hG1⟩

include hceq hU in
theorem C01_bytes_vm_correct (tree : Expr) (backrefs : List Nat) (b : Built) (prog : Prog)
    (hb : build tree backrefs = .ok b) (hk : b.kind = .fancy prog) (hvm : VmCorrectR b c) (limit fuel : Nat)
    (hok : bOK c b prog limit fuel = true) :
    (runB (BCtx.ofCtx c) prog ⟨limit, maxStackDefault⟩ fuel).1 = .outOfFuel ∨
    (runB (BCtx.ofCtx c) prog ⟨limit, maxStackDefault⟩ fuel).1 = .errStack ∨
    (runB (BCtx.ofCtx c) prog ⟨limit, maxStackDefault⟩ fuel).1 = .errLimit ∨
    match refSearch c b.raw b.nGroups with
    | some f => ∃ savesB, (runB (BCtx.ofCtx c) prog ⟨limit, maxStackDefault⟩ fuel).1 = .matched savesB ∧
        (viewSlots savesB).take (b.nGroups * 2) = f.slots.map (Option.map (offOf c.text))
    | none => (runB (BCtx.ofCtx c) prog ⟨limit, maxStackDefault⟩ fuel).1 = .noMatch := by
  obtain ⟨hwt, hτ, hτg, _⟩ := build_wellTyped tree backrefs b prog hb hk
  exact C01_bytes_vm_correct_of_typed c _ prog.nSaves hceq hU hτ b prog hk hvm (fun i hi => hτg i (by omega))
    limit fuel hwt hok

include hceq hU in
theorem C01_bytes_vm_correct_s3_of_tame (tree : Expr) (backrefs : List Nat) (b : Built) (prog : Prog)
    (hb : build tree backrefs = .ok b) (hk : b.kind = .fancy prog)
    (hs3 : s3ok (fun g => backrefs.contains g) b.raw true = true) (hws : wellShaped b.raw = true)
    (hz : noBareEndZ b.raw = true) (hlen : c.len < UNSET) (hpos : c.pos ≤ c.len) (limit fuel : Nat)
    (hok : bOK c b prog limit fuel = true) :
    (runB (BCtx.ofCtx c) prog ⟨limit, maxStackDefault⟩ fuel).1 = .outOfFuel ∨
    (runB (BCtx.ofCtx c) prog ⟨limit, maxStackDefault⟩ fuel).1 = .errStack ∨
    (runB (BCtx.ofCtx c) prog ⟨limit, maxStackDefault⟩ fuel).1 = .errLimit ∨
    match refSearch c b.raw b.nGroups with
    | some f => ∃ savesB, (runB (BCtx.ofCtx c) prog ⟨limit, maxStackDefault⟩ fuel).1 = .matched savesB ∧
        (viewSlots savesB).take (b.nGroups * 2) = f.slots.map (Option.map (offOf c.text))
    | none => (runB (BCtx.ofCtx c) prog ⟨limit, maxStackDefault⟩ fuel).1 = .noMatch :=
  C01_bytes_vm_correct c hceq hU tree backrefs b prog hb hk
    (C01_vm_correct_s3 tree backrefs b prog c hb hk hs3 hws hz (build_progDelegOK tree backrefs b prog hb hk) hlen hpos)
    limit fuel hok

end Built

/-! ### stage S3: unconditional

For a stage-S3 pattern the structured machine reaches the reference answer (`big2_s3`), the
interpreter's run follows it, and the structured machine is only defined on tame configurations
(`big2_tame`, Lemmas/VMBytesTame.lean): the residual monitor `bTame`, hence `bOK`, holds for every
text, start position, limit and fuel. The byte-level theorems of stage S3 carry no run-time side
condition. (`*_pipeline`: from the pattern string, hypotheses of `C01_pipeline_s3`.) -/

section S3
variable (c : Ctx)
variable (hceq : ∀ a b, c.ceq false a b = (a == b))
variable (hU : (bytesOfChars c.text).length < UNSET)

/-- **every run of a stage-S3 program is tame** -/
theorem bTame_s3 (tree : Expr) (backrefs : List Nat) (b : Built) (prog : Prog)
    (hb : build tree backrefs = .ok b) (hk : b.kind = .fancy prog)
    (hs3 : s3ok (fun g => backrefs.contains g) b.raw true = true) (hws : wellShaped b.raw = true)
    (hz : noBareEndZ b.raw = true) (hlen : c.len < UNSET) (hpos : c.pos ≤ c.len) (limit fuel : Nat) :
    bTame c b prog limit fuel = true :=
  big2_tame_initial c _ prog ⟨limit, maxStackDefault⟩
    (delegOK_of_prog c prog.body prog.nSaves (build_progDelegOK tree backrefs b prog hb hk)) _
    (big2_s3 tree backrefs b prog c hb hk hs3 hws hz hlen hpos) fuel

/-- … hence the monitor of the refinement holds -/
theorem bOK_s3 (tree : Expr) (backrefs : List Nat) (b : Built) (prog : Prog)
    (hb : build tree backrefs = .ok b) (hk : b.kind = .fancy prog)
    (hs3 : s3ok (fun g => backrefs.contains g) b.raw true = true) (hws : wellShaped b.raw = true)
    (hz : noBareEndZ b.raw = true) (hlen : c.len < UNSET) (hpos : c.pos ≤ c.len) (limit fuel : Nat) :
    bOK c b prog limit fuel = true :=
  bOK_of_bTame c tree backrefs b prog hb hk hpos limit fuel
    (bTame_s3 c tree backrefs b prog hb hk hs3 hws hz hlen hpos limit fuel)

include hceq hU in
/-- **stage S3: `runB` = mapped `run`**, no side condition -/
theorem runB_refines_built (tree : Expr) (backrefs : List Nat) (b : Built) (prog : Prog)
    (hb : build tree backrefs = .ok b) (hk : b.kind = .fancy prog)
    (hs3 : s3ok (fun g => backrefs.contains g) b.raw true = true) (hws : wellShaped b.raw = true)
    (hz : noBareEndZ b.raw = true) (hlen : c.len < UNSET) (hpos : c.pos ≤ c.len) (limit fuel : Nat) :
    runB (BCtx.ofCtx c) prog ⟨limit, maxStackDefault⟩ fuel =
      (mapOut (tauOf prog.body b.nGroups) (offOf c.text) (run c prog ⟨limit, maxStackDefault⟩ fuel).1,
        (run c prog ⟨limit, maxStackDefault⟩ fuel).2) :=
  runB_refines_built_of_tame c hceq hU tree backrefs b prog hb hk limit fuel
    (bOK_s3 c tree backrefs b prog hb hk hs3 hws hz hlen hpos limit fuel)

include hceq hU in
/-- **stage S3: the byte machine never panics** -/
theorem C05_bytes_no_panic_s3 (tree : Expr) (backrefs : List Nat) (b : Built) (prog : Prog)
    (hb : build tree backrefs = .ok b) (hk : b.kind = .fancy prog)
    (hs3 : s3ok (fun g => backrefs.contains g) b.raw true = true) (hws : wellShaped b.raw = true)
    (hz : noBareEndZ b.raw = true) (hlen : c.len < UNSET) (hpos : c.pos ≤ c.len) (limit fuel : Nat)
    (site : String) : (runB (BCtx.ofCtx c) prog ⟨limit, maxStackDefault⟩ fuel).1 ≠ .panic site :=
  C05_bytes_no_panic_s3_of_tame c hceq hU tree backrefs b prog hb hk hs3 hws hz hlen hpos limit fuel
    (bOK_s3 c tree backrefs b prog hb hk hs3 hws hz hlen hpos limit fuel) site

include hceq hU in
/-- **stage S3: every capture offset the byte machine reports is `UNSET` or a character boundary inside
    the text; the overall match satisfies `pos ≤ start ≤ end ≤ byte length`** -/
theorem C05_bytes_offsets_valid (tree : Expr) (backrefs : List Nat) (b : Built) (prog : Prog)
    (hb : build tree backrefs = .ok b) (hk : b.kind = .fancy prog)
    (hs3 : s3ok (fun g => backrefs.contains g) b.raw true = true) (hws : wellShaped b.raw = true)
    (hz : noBareEndZ b.raw = true) (hlen : c.len < UNSET) (hpos : c.pos ≤ c.len) (limit fuel : Nat)
    (savesB : List Nat)
    (hm : (runB (BCtx.ofCtx c) prog ⟨limit, maxStackDefault⟩ fuel).1 = .matched savesB) :
    (∀ i w, i < 2 * b.nGroups → savesB[i]? = some w →
      w = UNSET ∨ (isBoundary (bytesOfChars c.text) w = true ∧ w ≤ (bytesOfChars c.text).length)) ∧
    (∃ s e, savesB[0]? = some s ∧ savesB[1]? = some e ∧
      (BCtx.ofCtx c).pos ≤ s ∧ s ≤ e ∧ e ≤ (bytesOfChars c.text).length ∧
      isBoundary (bytesOfChars c.text) s = true ∧ isBoundary (bytesOfChars c.text) e = true) :=
  C05_bytes_offsets_valid_of_tame c hceq hU tree backrefs b prog hb hk
    (C01_vm_correct_s3 tree backrefs b prog c hb hk hs3 hws hz (build_progDelegOK tree backrefs b prog hb hk) hlen hpos)
    limit fuel (bOK_s3 c tree backrefs b prog hb hk hs3 hws hz hlen hpos limit fuel) savesB hm

include hceq hU in
/-- **stage S3: the byte machine's answer is the reference search's, in byte offsets** -/
theorem C01_bytes_vm_correct_s3 (tree : Expr) (backrefs : List Nat) (b : Built) (prog : Prog)
    (hb : build tree backrefs = .ok b) (hk : b.kind = .fancy prog)
    (hs3 : s3ok (fun g => backrefs.contains g) b.raw true = true) (hws : wellShaped b.raw = true)
    (hz : noBareEndZ b.raw = true) (hlen : c.len < UNSET) (hpos : c.pos ≤ c.len) (limit fuel : Nat) :
    (runB (BCtx.ofCtx c) prog ⟨limit, maxStackDefault⟩ fuel).1 = .outOfFuel ∨
    (runB (BCtx.ofCtx c) prog ⟨limit, maxStackDefault⟩ fuel).1 = .errStack ∨
    (runB (BCtx.ofCtx c) prog ⟨limit, maxStackDefault⟩ fuel).1 = .errLimit ∨
    match refSearch c b.raw b.nGroups with
    | some f => ∃ savesB, (runB (BCtx.ofCtx c) prog ⟨limit, maxStackDefault⟩ fuel).1 = .matched savesB ∧
        (viewSlots savesB).take (b.nGroups * 2) = f.slots.map (Option.map (offOf c.text))
    | none => (runB (BCtx.ofCtx c) prog ⟨limit, maxStackDefault⟩ fuel).1 = .noMatch :=
  C01_bytes_vm_correct_s3_of_tame c hceq hU tree backrefs b prog hb hk hs3 hws hz hlen hpos limit fuel
    (bOK_s3 c tree backrefs b prog hb hk hs3 hws hz hlen hpos limit fuel)

/-! #### from the pattern string -/

theorem bTame_pipeline (isAlnum : Char → Bool) (cs : List Char) (casei : Bool) (t : Parse.Tree) (b : Built)
    (prog : Prog) (hp : Parse.parseStr isAlnum cs casei = .ok t) (hb : build t.expr t.backrefs = .ok b)
    (hk : b.kind = .fancy prog) (hst : s3Pattern t b = true)
    (hlen : c.len < UNSET) (hpos : c.pos ≤ c.len) (limit fuel : Nat) :
    bTame c b prog limit fuel = true := by
  simp only [s3Pattern, Bool.and_eq_true] at hst
  exact bTame_s3 c t.expr t.backrefs b prog hb hk hst.1 (Parse.parse_build_wellShaped isAlnum cs casei t b hp hb).2
    (build_raw_noBareEndZ t.expr t.backrefs b hb hst.2) hlen hpos limit fuel

include hceq hU in
theorem runB_refines_pipeline (isAlnum : Char → Bool) (cs : List Char) (casei : Bool) (t : Parse.Tree) (b : Built)
    (prog : Prog) (hp : Parse.parseStr isAlnum cs casei = .ok t) (hb : build t.expr t.backrefs = .ok b)
    (hk : b.kind = .fancy prog) (hst : s3Pattern t b = true)
    (hlen : c.len < UNSET) (hpos : c.pos ≤ c.len) (limit fuel : Nat) :
    runB (BCtx.ofCtx c) prog ⟨limit, maxStackDefault⟩ fuel =
      (mapOut (tauOf prog.body b.nGroups) (offOf c.text) (run c prog ⟨limit, maxStackDefault⟩ fuel).1,
        (run c prog ⟨limit, maxStackDefault⟩ fuel).2) := by
  simp only [s3Pattern, Bool.and_eq_true] at hst
  exact runB_refines_built c hceq hU t.expr t.backrefs b prog hb hk hst.1
    (Parse.parse_build_wellShaped isAlnum cs casei t b hp hb).2 (build_raw_noBareEndZ t.expr t.backrefs b hb hst.2)
    hlen hpos limit fuel

include hceq hU in
theorem C05_bytes_no_panic_pipeline (isAlnum : Char → Bool) (cs : List Char) (casei : Bool) (t : Parse.Tree)
    (b : Built) (prog : Prog) (hp : Parse.parseStr isAlnum cs casei = .ok t) (hb : build t.expr t.backrefs = .ok b)
    (hk : b.kind = .fancy prog) (hst : s3Pattern t b = true)
    (hlen : c.len < UNSET) (hpos : c.pos ≤ c.len) (limit fuel : Nat) (site : String) :
    (runB (BCtx.ofCtx c) prog ⟨limit, maxStackDefault⟩ fuel).1 ≠ .panic site := by
  simp only [s3Pattern, Bool.and_eq_true] at hst
  exact C05_bytes_no_panic_s3 c hceq hU t.expr t.backrefs b prog hb hk hst.1
    (Parse.parse_build_wellShaped isAlnum cs casei t b hp hb).2 (build_raw_noBareEndZ t.expr t.backrefs b hb hst.2)
    hlen hpos limit fuel site

include hceq hU in
theorem C05_bytes_offsets_valid_pipeline (isAlnum : Char → Bool) (cs : List Char) (casei : Bool) (t : Parse.Tree)
    (b : Built) (prog : Prog) (hp : Parse.parseStr isAlnum cs casei = .ok t) (hb : build t.expr t.backrefs = .ok b)
    (hk : b.kind = .fancy prog) (hst : s3Pattern t b = true)
    (hlen : c.len < UNSET) (hpos : c.pos ≤ c.len) (limit fuel : Nat) (savesB : List Nat)
    (hm : (runB (BCtx.ofCtx c) prog ⟨limit, maxStackDefault⟩ fuel).1 = .matched savesB) :
    (∀ i w, i < 2 * b.nGroups → savesB[i]? = some w →
      w = UNSET ∨ (isBoundary (bytesOfChars c.text) w = true ∧ w ≤ (bytesOfChars c.text).length)) ∧
    (∃ s e, savesB[0]? = some s ∧ savesB[1]? = some e ∧
      (BCtx.ofCtx c).pos ≤ s ∧ s ≤ e ∧ e ≤ (bytesOfChars c.text).length ∧
      isBoundary (bytesOfChars c.text) s = true ∧ isBoundary (bytesOfChars c.text) e = true) := by
  simp only [s3Pattern, Bool.and_eq_true] at hst
  exact C05_bytes_offsets_valid c hceq hU t.expr t.backrefs b prog hb hk hst.1
    (Parse.parse_build_wellShaped isAlnum cs casei t b hp hb).2 (build_raw_noBareEndZ t.expr t.backrefs b hb hst.2)
    hlen hpos limit fuel savesB hm

include hceq hU in
theorem C01_bytes_vm_correct_pipeline (isAlnum : Char → Bool) (cs : List Char) (casei : Bool) (t : Parse.Tree)
    (b : Built) (prog : Prog) (hp : Parse.parseStr isAlnum cs casei = .ok t) (hb : build t.expr t.backrefs = .ok b)
    (hk : b.kind = .fancy prog) (hst : s3Pattern t b = true)
    (hlen : c.len < UNSET) (hpos : c.pos ≤ c.len) (limit fuel : Nat) :
    (runB (BCtx.ofCtx c) prog ⟨limit, maxStackDefault⟩ fuel).1 = .outOfFuel ∨
    (runB (BCtx.ofCtx c) prog ⟨limit, maxStackDefault⟩ fuel).1 = .errStack ∨
    (runB (BCtx.ofCtx c) prog ⟨limit, maxStackDefault⟩ fuel).1 = .errLimit ∨
    match refSearch c b.raw b.nGroups with
    | some f => ∃ savesB, (runB (BCtx.ofCtx c) prog ⟨limit, maxStackDefault⟩ fuel).1 = .matched savesB ∧
        (viewSlots savesB).take (b.nGroups * 2) = f.slots.map (Option.map (offOf c.text))
    | none => (runB (BCtx.ofCtx c) prog ⟨limit, maxStackDefault⟩ fuel).1 = .noMatch := by
  simp only [s3Pattern, Bool.and_eq_true] at hst
  exact C01_bytes_vm_correct_s3 c hceq hU t.expr t.backrefs b prog hb hk hst.1
    (Parse.parse_build_wellShaped isAlnum cs casei t b hp hb).2 (build_raw_noBareEndZ t.expr t.backrefs b hb hst.2)
    hlen hpos limit fuel

end S3

/-! ### Non-vacuity: the text "aé😀b" (1 + 2 + 4 + 1 bytes), a program with `Any`, `Lit`, `GoBack`, `Backref`

`Save 0; Any; Any; Save 2; Any; Save 3; Lit "b"; GoBack 2; Backref 2; Save 1; End`: group 1 captures
"😀" (characters 2..3 = bytes 3..7); after the literal, `GoBack 2` walks back two characters (5 bytes)
and the back-reference compares the 4-byte slice. -/

def exBCtx : Ctx := ⟨['a', 'é', '😀', 'b'], 0, false, fun _ => false, fun _ _ _ => false, fun _ a b => a == b⟩
def exBProg : Prog :=
  ⟨[.save 0, .any, .any, .save 2, .any, .save 3, .lit ['b'], .goBack 2, .backref 2, .save 1, .end_], 4⟩
def exBτ : Nat → Bool := fun i => decide (i < 4)

theorem exB_text : bytesOfChars exBCtx.text = [97, 195, 169, 240, 159, 152, 128, 98] := by decide
theorem exB_wt : wellTyped exBτ exBProg.body = true := by decide
theorem exB_ok : okLoop exBCtx exBτ 4 exBProg.body ⟨100, 100⟩ 20 0 0 (State.new 4 100) 0 = true := by decide
theorem exB_hU : (bytesOfChars exBCtx.text).length < UNSET := by decide
theorem exB_hτ : ∀ i, 4 ≤ i → exBτ i = false := by intro i hi; simp [exBτ]; omega

/-- the byte machine, evaluated -/
theorem exB_runB : runB (BCtx.ofCtx exBCtx) exBProg ⟨100, 100⟩ 20 = (.matched [0, 7, 3, 7], ⟨11, 0, 0⟩) := by decide

/-- the code-point machine, evaluated -/
theorem exB_run : run exBCtx exBProg ⟨100, 100⟩ 20 = (.matched [0, 3, 2, 3], ⟨11, 0, 0⟩) := by decide

/-- `runB_refines` instantiated: the byte answer is the code-point answer through the offset map -/
example : runB (BCtx.ofCtx exBCtx) exBProg ⟨100, 100⟩ 20 =
    (mapOut exBτ (offOf exBCtx.text) (run exBCtx exBProg ⟨100, 100⟩ 20).1, (run exBCtx exBProg ⟨100, 100⟩ 20).2) :=
  runB_refines exBCtx exBτ 4 (fun _ _ => rfl) exB_hU exB_hτ exBProg ⟨100, 100⟩ 20 exB_wt exB_ok

example : mapOut exBτ (offOf exBCtx.text) (.matched [0, 3, 2, 3]) = .matched [0, 7, 3, 7] := by decide

/-- `C05_bytes_no_slice_panic_of_typed` instantiated -/
example (site : String) : (runB (BCtx.ofCtx exBCtx) exBProg ⟨100, 100⟩ 20).1 ≠ .panic site := by
  intro h
  have := C05_bytes_no_slice_panic_of_typed exBCtx exBτ 4 (fun _ _ => rfl) exB_hU exB_hτ exBProg ⟨100, 100⟩ 20 exB_wt exB_ok site h
  rw [exB_run] at this; cases this

/-- `C13_goback_counts_characters` instantiated: from byte 8 (character 4) back 2 characters is byte 3 -/
example (s : State) : stepB (BCtx.ofCtx exBCtx) exBProg.body 7 8 s = .cont 8 3 s :=
  ((C13_goback_counts_characters exBCtx exBProg.body 7 4 2 s rfl (by decide)).1 (by decide)).1

/-- … and from byte 1 (character 1) it fails: there is only one character before -/
example (s : State) : stepB (BCtx.ofCtx exBCtx) exBProg.body 7 1 s = .fail s :=
  (C13_goback_counts_characters exBCtx exBProg.body 7 1 2 s rfl (by decide)).2 (by decide)

end Fancy
