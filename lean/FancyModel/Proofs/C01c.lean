import FancyModel.Lemmas.SimCompile2
import FancyModel.Lemmas.AVM2
import FancyModel.Proofs.C01b
/-!
# C01 / C02 / C15 — compiler correctness for every construct the VM interprets itself (stage S2)

`C01_vm_correct_s2`: for every pattern whose tree satisfies `s2ok` — literals, `.`, assertions, `\K`,
`\G`, back-references, group tests, concatenation, alternation, capture groups, every quantifier
(counted ones included) whose body cannot match empty when unbounded, atomic groups, positive and
negative look-aheads, look-behinds over a non-alternation constant-size body, conditionals — with
conditional-free bodies where the code needs the auxiliary stack balanced (finding F8) — and whose
compiled program contains no `Delegate` instruction, for every text and start offset, the VM run of
the compiled wrapped tree returns exactly the reference search result (match / no match, span, every
capture group), unless it stops for a resource reason (fuel, backtrack limit, branch-stack cap).

    runLoop (undo-log State, auxiliary stack inside the slot vector)
      ──link2──▶ Big2 (structured whole-copy machine, every instruction)
      ──sim2_visit──▶ sem (reference semantics) ──▶ refSearch
-/
namespace Fancy

theorem C01_vm_correct_s2 (tree : Expr) (backrefs : List Nat) (b : Built) (prog : Prog) (c : Ctx)
    (hb : build tree backrefs = .ok b) (hk : b.kind = .fancy prog)
    (hok : s2ok b.raw = true) (hnd : noDeleg prog.body = true)
    (hlen : c.len < UNSET) (hpos : c.pos ≤ c.len) : VmCorrectR b c := by
  obtain ⟨hw, hwr, hchk, hhard, hcomp⟩ := build_fancy tree backrefs b prog hb hk
  intro limit fuel
  generalize (fun g => backrefs.contains g) = br at hhard hcomp
  -- the compiled program
  unfold compile at hcomp
  rw [hw] at hcomp hchk
  have hgc : groupCount (Expr.concat [.repeat (.any true) 0 none false, .group 0 b.raw]) = b.nGroups := by
    have := checkRefs_count _ _ _ hchk; omega
  simp only [hgc] at hcomp
  cases hv : visit br (Expr.concat [.repeat (.any true) 0 none false, .group 0 b.raw]) false 0 (b.nGroups * 2) 0 with
  | error e => simp [hv] at hcomp
  | ok p =>
    obtain ⟨code, nsv⟩ := p
    simp only [hv, Except.ok.injEq] at hcomp
    subst hcomp
    -- open the top-level `visit` (non-hard context, hard expression: the concat case)
    have hgh : isHard br (.group 0 b.raw) = true := by simp [isHard, hhard]
    have hwh : isHard br (Expr.concat [.repeat (.any true) 0 none false, .group 0 b.raw]) = true := by
      simp [isHard, isHardAny, hhard]
    rw [visit] at hv
    simp only [hwh, Bool.not_true, Bool.and_false, Bool.false_eq_true, ↓reduceIte, concatSplit_wrapped br b.raw 0 hgh,
      List.take_zero, compileDelegates, List.isEmpty_nil, List.length_nil, Nat.add_zero, groupCountList,
      List.drop_length, Nat.sub_zero] at hv
    cases hm : visitMiddle br [.repeat (.any true) 0 none false, .group 0 b.raw] 0 2 0 (b.nGroups * 2) 0 with
    | error e => simp [hm] at hv
    | ok pm =>
      obtain ⟨mid, nsv1⟩ := pm
      simp only [hm] at hv
      have hdrop : List.drop 2 [Expr.repeat (.any true) 0 none false, .group 0 b.raw] = [] := rfl
      simp only [hdrop, List.isEmpty_nil, ↓reduceIte, List.append_nil, List.nil_append, Except.ok.injEq,
        Prod.mk.injEq] at hv
      obtain ⟨rfl, rfl⟩ := hv
      -- the simulation for the two children
      have hn0 : 0 < b.nGroups := by
        simp only [groupCount, groupCountList] at hgc; omega
      have hokAll : s2okAll [.repeat (.any true) 0 none false, .group 0 b.raw] = true := by
        simp [s2okAll, s2ok, hok, minSize]
      have hsb : slotsBelowAll (2 * b.nGroups) [.repeat (.any true) 0 none false, .group 0 b.raw] = true := by
        have := slotsBelow_renumber b.nGroups hn0 (wrapTree tree) 0 b.nGroups (by rw [← hwr, hw]; exact hchk)
          (Nat.le_refl _)
        rw [← hwr, hw] at this
        simpa [slotsBelow] using this
      have hndm : noDeleg mid = true := by
        simp only [noDeleg_append, Bool.and_eq_true] at hnd; exact hnd.1
      have hcode : CodeAt (mid ++ [Insn.end_]) 0 mid := ⟨[], [Insn.end_], by simp, rfl⟩
      obtain ⟨hle, hsim⟩ := sim2_visitMiddle c (2 * b.nGroups) nsv1 br hlen _ 0 2 0 (b.nGroups * 2) 0 mid nsv1 (mid ++ [Insn.end_])
        hokAll hsb hm hndm hcode (by omega)
      have hsim := hsim (Nat.le_refl _) true
      simp only [List.drop_zero, List.take, Nat.zero_add] at hsim
      -- run it from the initial configuration
      have hst0 : (⟨c.pos, initSlots b.nGroups⟩ : St).Good c (2 * b.nGroups) :=
        ⟨hpos, by simp [initSlots], by intro v hv; simp [initSlots] at hv⟩
      have hend : (mid ++ [Insn.end_])[mid.length]? = some Insn.end_ := by simp
      have hbig := hsim.apply_all ⟨c.pos, initSlots b.nGroups⟩ (List.replicate (nsv1 - 2 * b.nGroups) UNSET) [] []
        (fun r _ => .matched (capSaves (unview r.slots) c.pos)) .noMatch hst0 (by simp; omega)
        (by simpa [SuccOK] using Commit.const (fun r => Ans.matched (capSaves (unview r.slots) c.pos))) Big2.failEmpty
        (by
          intro r hr aux' junk S acc hag _ _ _
          have hrg := semConcat_good c _ _ _ r hst0 hr
          have hl' : (unview r.slots ++ aux').length = nsv1 := by
            simp only [List.length_append, unview_length, hrg.len, hag.1, List.length_replicate]; omega
          have := Big2.done (c := c) (prog := mid ++ [Insn.end_]) (nS := nsv1) (0 + mid.length) r.ix (unview r.slots ++ aux')
            (junk ++ []) (S ++ []) (2 * b.nGroups) (by simpa using hend) (by omega) (by omega) hl'
          rw [capSaves_take _ _ _ (by omega) (by rw [hl']; omega)] at this
          have htk : (unview r.slots ++ aux').take (2 * b.nGroups) = unview r.slots := by
            rw [List.take_append_of_le_length (by simp [hrg.len])]
            exact List.take_of_length_le (by simp [hrg.len])
          rw [htk] at this
          simpa using this)
      have huv : unview (initSlots b.nGroups) ++ List.replicate (nsv1 - 2 * b.nGroups) UNSET = List.replicate nsv1 UNSET := by
        have : unview (initSlots b.nGroups) = List.replicate (2 * b.nGroups) UNSET := by simp [unview, initSlots]
        rw [this, List.replicate_append_replicate]; congr 1; omega
      simp only [huv, Nat.zero_add] at hbig
      have hdok : DelegOK c (mid ++ [Insn.end_]) nsv1 := by
        intro pc' es' sg' eg' hp
        exfalso
        have hmem : Insn.delegate es' sg' eg' ∈ mid ++ [Insn.end_] := List.mem_of_getElem? hp
        have hall : noDeleg (mid ++ [Insn.end_]) = true := by simpa using hnd
        simp only [noDeleg, List.all_eq_true] at hall
        have := hall _ hmem
        simp [Insn.isDelegate] at this
      have hgood := link2_initial c ⟨mid ++ [Insn.end_], nsv1⟩ ⟨limit, maxStackDefault⟩ hdok _ hbig fuel
      -- the reference side
      have hsemc : semConcat c [.repeat (.any true) 0 none false, .group 0 b.raw] ⟨c.pos, initSlots b.nGroups⟩ =
          sem c (.concat [.repeat (.any true) 0 none false, .group 0 b.raw]) ⟨c.pos, initSlots b.nGroups⟩ := by
        simp only [sem]
      have hhead := sem_wrapped_head c b.raw b.nGroups hpos
      rw [← hsemc] at hhead
      have href : refSearch c b.raw b.nGroups =
          (List.range (c.len - c.pos + 1)).findSome? fun k =>
            ((sem c b.raw ⟨c.pos + k, (initSlots b.nGroups).set 0 (some (c.pos + k))⟩).head?).map (finish c) := by
        unfold refSearch
        simp only [hpos, ↓reduceIte]
        exact scanFrom_findSome c b.raw b.nGroups _ _
      -- fold over the ordered results = look at the first one
      have hfold : ∀ (l : List St), l.foldr (fun r (_ : Ans) => Ans.matched (capSaves (unview r.slots) c.pos)) .noMatch =
          match l.head? with
          | some r => .matched (capSaves (unview r.slots) c.pos)
          | none => .noMatch := by
        intro l; cases l <;> rfl
      rw [hfold, hhead] at hgood
      unfold Built.captures
      simp only [hk]
      unfold Good2 at hgood
      generalize run c ⟨mid ++ [Insn.end_], nsv1⟩ ⟨limit, maxStackDefault⟩ fuel = res at hgood ⊢
      obtain ⟨out, stats⟩ := res
      simp only at hgood
      rcases hgood with h | h | h | h
      · left; subst h; rfl
      · right; left; subst h; rfl
      · right; right; left; subst h; rfl
      · right; right; right
        rw [href]
        -- both sides scan the same start positions
        have hks : ∀ k ∈ List.range (c.len - c.pos + 1), c.pos + k ≤ c.len := by
          intro k hk'; have := List.mem_range.mp hk'; omega
        generalize (List.range (c.len - c.pos + 1)) = ks at hks h
        induction ks with
        | nil => simp only [List.findSome?_nil] at h ⊢; subst h; rfl
        | cons k ks ih =>
          simp only [List.findSome?_cons] at h ⊢
          cases hh : (sem c b.raw ⟨c.pos + k, (initSlots b.nGroups).set 0 (some (c.pos + k))⟩).head? with
          | none =>
            simp only [hh, Option.map_none] at h ⊢
            exact ih (fun k' hk' => hks k' (List.mem_cons_of_mem _ hk')) h
          | some r =>
            simp only [hh, Option.map_some] at h ⊢
            obtain ⟨saves, rfl, hsv⟩ := h
            have hrg : r.Good c (b.nGroups * 2) := by
              have hmem : r ∈ sem c b.raw ⟨c.pos + k, (initSlots b.nGroups).set 0 (some (c.pos + k))⟩ :=
                List.mem_of_mem_head? hh
              have hk' := hks k (by simp)
              refine sem_good c _ b.raw _ r ?_ hmem
              have h0 : (⟨c.pos + k, initSlots b.nGroups⟩ : St).Good c (b.nGroups * 2) :=
                ⟨hk', by simp [initSlots, Nat.mul_comm], by intro v hv; simp [initSlots] at hv⟩
              exact h0.setSlot 0 (c.pos + k) hk'
            have hfin := finish_eq c r (b.nGroups * 2) hrg (by omega) hlen hpos
            have hlen' : (capSaves (unview (r.setSlot 1 (some r.ix)).slots) c.pos).length = b.nGroups * 2 := by
              have : (unview (r.setSlot 1 (some r.ix)).slots).length = b.nGroups * 2 := by
                simp [St.setSlot, hrg.len]
              rw [← this]; unfold capSaves; split <;> simp
            rw [hlen'] at hsv
            simp only
            rw [← hfin, ← hsv]
            simp [viewSlots, List.map_take, List.take_take]

end Fancy

namespace Fancy

/-- no match is reported only if the reference has none (stage S2) -/
theorem C01_no_match_s2 (tree : Expr) (backrefs : List Nat) (b : Built) (prog : Prog) (c : Ctx)
    (hb : build tree backrefs = .ok b) (hk : b.kind = .fancy prog)
    (hok : s2ok b.raw = true) (hnd : noDeleg prog.body = true)
    (hlen : c.len < UNSET) (hpos : c.pos ≤ c.len) (limit fuel : Nat)
    (hnone : (b.captures c limit fuel).1 = .noMatch) :
    refSearch c b.raw b.nGroups = none := by
  have h := C01_vm_correct_s2 tree backrefs b prog c hb hk hok hnd hlen hpos limit fuel
  rw [hnone] at h
  rcases h with h | h | h | h
  · cases h
  · cases h
  · cases h
  · cases href : refSearch c b.raw b.nGroups with
    | none => rfl
    | some f => simp [href] at h

/-- decidable side conditions of the stage-S2 theorem, as the driver evaluates them per pattern -/
def s2AndNoDeleg (tree : Expr) (backrefs : List Nat) : Bool :=
  match build tree backrefs with
  | .ok b => (match b.kind with
    | .fancy prog => s2ok b.raw && noDeleg prog.body
    | .wrap => false)
  | .error _ => false

/-! ### Non-vacuity: `(a)(?>\1|b)(?=c)` — group, atomic group over a hard alternation, look-ahead -/
def exTree2 : Expr :=
  .concat [.group 0 (.literal ['a'] false), .atomic (.alt [.backref 1, .literal ['b'] false]),
    .look (.literal ['c'] false) .ahead]

set_option linter.unusedSimpArgs false in
example : s2AndNoDeleg exTree2 [1] = true := by
  simp [s2AndNoDeleg, build, exTree2, wrapTree, renumber, renumberList, checkRefs, checkRefsList, isHard, isHardAny,
    compile, visit, visitMiddle, visitAlt, concatSplit, groupCount, groupCountList, constSize, constSizeAll, minSize, minSizeMin,
    allMinSize, compileDelegates, compileDelegate, isLiteral, isLiteralAll, s2ok, s2okAll, condFree, condFreeAll, noDeleg,
    Insn.isDelegate, boundsEq, satMul, sureReps, UNSET, Assertion.isHard, wrapPosLook, posLookBodyPc, pushLiteral]

end Fancy
