import FancyModel.Proofs.C13
import FancyModel.Lemmas.SemGood
import FancyModel.Model.Compile
import FancyModel.Model.VM
/-!
# C13b — exactness of the static size facts, and the look-behind "go back" rule

* `C13_const_exact`: an expression judged constant-size matches **exactly** `minSize` characters.
* `C13_lookbehind_exact`: for such a body, the specification's look-behind ("some start `j ≤ ix`
  has a result ending exactly at `ix`") equals what the compiled code does ("go back `minSize`
  characters, run the body, do not check where it ends; fail if that would be before the start").
* `C13_goback`: `goBack` fails rather than reading before the start of the text.
* `C13_accept_*`: which look-behinds the compiler accepts (`C13_accept_iff`, `C13_accept_iff_alt`).

Finding (not a defect of the crate): `constSize`/`minSize` are NOT exact for the bare node
`Delegate{"\n*$", size 0}` (`C13_const_exact_false_for_bare_endZ`), and a look-behind whose body is
that bare node would be decided wrongly by "go back 0" (second `example` of section 2). The parser
only produces the node as `LookAround(Delegate{..}, LookAhead)` (src/parse.rs, escape `\Z`), which
is covered by `noBareEndZ`; the real crate gives the expected answers for `(?<=a\Z)`, `(?<=\Z)`.

Side conditions of exactness (each one is necessary, see the `example`s next to the theorems):
* `wellShaped` (literals are one character: `min_size` counts a literal as 1);
* `noBareEndZ`: no `Delegate{"\n*$", size 0}` (`\Z`) outside a look-around. That node is declared
  size 0 / constant-size by the analyzer but consumes the trailing newlines. The parser only ever
  produces it directly under a look-ahead, which restores the position.
* `r.ix ≤ st.ix + UNSET`: the analyzer's sums saturate at `usize::MAX`, so an expression whose true
  size exceeds `usize::MAX` has `minSize = UNSET`, which is then not its size. The hypothesis says
  the distance actually matched fits `usize`; it is implied by the conclusion whenever
  `minSize e ≤ UNSET` (`C06_sizes_no_overflow`), so it is the weakest possible
  (`C13_const_exact_bound_necessary`).
-/
namespace Fancy

/-! ## the shape side condition -/


/-! ## repetition loops with equal bounds -/

theorem repLoop_mono (body : St → List St) (hbody : ∀ st r, r ∈ body st → st.ix ≤ r.ix)
    (lo : Nat) (hi : Option Nat) (greedy : Bool) (fuel count : Nat) (st r : St)
    (h : r ∈ repLoop body lo hi greedy fuel count st) : st.ix ≤ r.ix := by
  have := repLoop_min body 0 (fun st r hr => by have := hbody st r hr; omega) lo hi greedy fuel count st r h
  simpa using this

/-- `{lo,lo}`: exactly `lo` iterations -/
theorem repLoop_exact_some (body : St → List St) (m B : Nat)
    (hmono : ∀ st r, r ∈ body st → st.ix ≤ r.ix)
    (hbody : ∀ st r, r ∈ body st → r.ix ≤ st.ix + B → r.ix = st.ix + m)
    (lo : Nat) (greedy : Bool) (fuel count : Nat) (st r : St) (hc : count ≤ lo)
    (h : r ∈ repLoop body lo (some lo) greedy fuel count st) (hB : r.ix ≤ st.ix + B) :
    r.ix = st.ix + (lo - count) * m := by
  induction fuel generalizing count st r with
  | zero => simp [repLoop] at h
  | succ fuel ih =>
    unfold repLoop at h
    split at h
    · rename_i hhi
      simp only [List.mem_singleton] at h
      subst h
      have : lo = count := by simpa using hhi
      subst this; simp
    · rename_i hhi
      have hlt : count < lo := by
        have : lo ≠ count := by simpa using hhi
        omega
      simp only [hlt, if_true] at h
      simp only [List.mem_flatMap] at h
      obtain ⟨r', hr', hmem⟩ := h
      simp only [Option.isNone_some, Bool.false_and, Bool.false_eq_true, if_false] at hmem
      have h1 := hmono st r' hr'
      have h2 := repLoop_mono body hmono lo (some lo) greedy fuel (count + 1) r' r hmem
      have h3 := hbody st r' hr' (by omega)
      have h4 := ih (count + 1) r' r (by omega) hmem (by omega)
      have : lo - count = (lo - (count + 1)) + 1 := by omega
      rw [this, Nat.add_mul]; omega

/-- `{lo,}`: at least `lo` iterations -/
theorem repLoop_exact_none (body : St → List St) (m B : Nat)
    (hmono : ∀ st r, r ∈ body st → st.ix ≤ r.ix)
    (hbody : ∀ st r, r ∈ body st → r.ix ≤ st.ix + B → r.ix = st.ix + m)
    (lo : Nat) (greedy : Bool) (fuel count : Nat) (st r : St)
    (h : r ∈ repLoop body lo none greedy fuel count st) (hB : r.ix ≤ st.ix + B) :
    ∃ k, lo ≤ count + k ∧ r.ix = st.ix + k * m := by
  induction fuel generalizing count st r with
  | zero => simp [repLoop] at h
  | succ fuel ih =>
    unfold repLoop at h
    simp only [reduceCtorEq, if_false] at h
    have hiters : ∀ q, q ∈ ((body st).flatMap fun r' =>
          if (none : Option Nat).isNone && decide (lo ≤ count) && r'.ix == st.ix then [r']
          else repLoop body lo none greedy fuel (count + 1) r') → q.ix ≤ st.ix + B →
        ∃ k, lo ≤ count + k ∧ q.ix = st.ix + k * m := by
      intro q hq hqB
      simp only [List.mem_flatMap] at hq
      obtain ⟨r', hr', hmem⟩ := hq
      have h1 := hmono st r' hr'
      split at hmem
      · rename_i hcond
        simp only [List.mem_singleton] at hmem
        subst hmem
        simp only [Bool.and_eq_true, decide_eq_true_eq] at hcond
        have h3 := hbody st q hr' hqB
        exact ⟨1, by omega, by omega⟩
      · have h2 := repLoop_mono body hmono lo none greedy fuel (count + 1) r' q hmem
        have h3 := hbody st r' hr' (by omega)
        obtain ⟨k, hk1, hk2⟩ := ih (count + 1) r' q hmem (by omega)
        refine ⟨k + 1, by omega, ?_⟩
        rw [Nat.add_mul]; omega
    split at h
    · exact hiters r h hB
    · rename_i hcl
      split at h
      · rcases List.mem_append.mp h with h | h
        · exact hiters r h hB
        · simp only [List.mem_singleton] at h; subst h; exact ⟨0, by omega, by simp⟩
      · rcases List.mem_cons.mp h with h | h
        · subst h; exact ⟨0, by omega, by simp⟩
        · exact hiters r h hB

/-- arithmetic of the saturating product, with the bound as a variable (keeps the kernel away
    from the numeral `usize::MAX`) -/
theorem satMul_gen_exact (U lo m : Nat) (h : lo * m ≤ U) : min (m * lo) U = lo * m := by
  rw [Nat.mul_comm m lo]; omega

theorem satMul_gen_many (U k m : Nat) (hkm : k * m ≤ U) (hk : U ≤ k) : min (m * U) U = k * m := by
  rcases Nat.eq_zero_or_pos m with hm | hm
  · subst hm; simp
  · have h1 : U * m ≤ k * m := Nat.mul_le_mul_right _ hk
    have h2 : U ≤ U * m := Nat.le_mul_of_pos_right _ hm
    rw [Nat.mul_comm m U]
    omega

theorem satMul_exact (lo m : Nat) (h : lo * m ≤ UNSET) : satMul m lo = lo * m :=
  satMul_gen_exact UNSET lo m h

theorem satMul_many (k m : Nat) (hkm : k * m ≤ UNSET) (hk : UNSET ≤ k) : satMul m UNSET = k * m :=
  satMul_gen_many UNSET k m hkm hk

theorem allMinSize_minSizeMin (m : Nat) : ∀ (es : List Expr), es ≠ [] → allMinSize m es = true →
    minSizeMin es = m
  | [], h, _ => by simp at h
  | [e], _, h => by
    simp only [allMinSize, Bool.and_true, beq_iff_eq] at h
    simp [minSizeMin, h]
  | e :: y :: ys, _, h => by
    simp only [allMinSize, Bool.and_eq_true, beq_iff_eq] at h
    have := allMinSize_minSizeMin m (y :: ys) (by simp) (by
      simp only [allMinSize, Bool.and_eq_true, beq_iff_eq]; exact h.2)
    simp only [minSizeMin] at this ⊢
    omega

/-! ## 1. constant size is exact -/

mutual
/-- **no sub-expression matches a different number of characters than its computed size when it is
    judged constant-size** -/
theorem C13_const_exact (c : Ctx) : ∀ (e : Expr), wellShaped e = true → constSize e = true →
    noBareEndZ e = true → ∀ (st r : St), r ∈ sem c e st → r.ix ≤ st.ix + UNSET →
    r.ix = st.ix + minSize e
  | .empty, _, _, _, st, r, h, _ => by simp [sem] at h; subst h; simp [minSize]
  | .any nl, _, _, _, st, r, h, _ => by
    simp only [sem] at h
    split at h
    · split at h
      · simp at h; subst h; simp [minSize]
      · simp at h
    · simp at h
  | .assertion a, _, _, _, st, r, h, _ => by
    simp only [sem] at h; split at h
    · simp at h; subst h; simp [minSize]
    · simp at h
  | .literal val casei, hw, _, _, st, r, h, _ => by
    simp only [sem] at h
    split at h
    · simp at h; subst h
      simp only [wellShaped, beq_iff_eq] at hw
      simp [minSize, hw]
    · simp at h
  | .concat es, hw, hc, hz, st, r, h, hB => by
    simp only [sem] at h
    simp only [wellShaped] at hw
    simp only [constSize] at hc
    simp only [noBareEndZ] at hz
    simpa [minSize] using const_exact_concat c es hw hc hz st r h hB
  | .alt es, hw, hc, hz, st, r, h, hB => by
    simp only [sem] at h
    simp only [wellShaped, Bool.and_eq_true] at hw
    simp only [constSize, Bool.and_eq_true] at hc
    simp only [noBareEndZ] at hz
    cases es with
    | nil => simp [semAlt] at h
    | cons e0 es' =>
      simp only at hc
      have := const_exact_alt c (e0 :: es') (minSize e0) hw.2 hc.1 hc.2 hz st r h hB
      rw [this]
      simp only [minSize]
      rw [allMinSize_minSizeMin (minSize e0) (e0 :: es') (by simp) hc.2]
  | .group g e, hw, hc, hz, st, r, h, hB => by
    simp only [sem, List.mem_map] at h
    obtain ⟨r', hr', rfl⟩ := h
    simp only [wellShaped] at hw
    simp only [constSize] at hc
    simp only [noBareEndZ] at hz
    have := C13_const_exact c e hw hc hz _ _ hr' (by simpa [setSlot_ix] using hB)
    simpa [minSize, setSlot_ix] using this
  | .look e .ahead, _, _, _, st, r, h, _ => by
    simp only [sem, List.mem_map] at h
    obtain ⟨r', _, rfl⟩ := h
    simp [minSize]
  | .look e .aheadNeg, _, _, _, st, r, h, _ => by
    simp only [sem] at h; split at h
    · simp at h; subst h; simp [minSize]
    · simp at h
  | .look e .behind, _, _, _, st, r, h, _ => by
    simp only [sem, List.mem_map] at h
    obtain ⟨r', _, rfl⟩ := h
    simp [minSize]
  | .look e .behindNeg, _, _, _, st, r, h, _ => by
    simp only [sem] at h; split at h
    · simp at h; subst h; simp [minSize]
    · simp at h
  | .repeat e lo hi greedy, hw, hc, hz, st, r, h, hB => by
    simp only [sem] at h
    simp only [wellShaped] at hw
    simp only [constSize, Bool.and_eq_true] at hc
    simp only [noBareEndZ] at hz
    have hmono : ∀ st r, r ∈ sem c e st → st.ix ≤ r.ix := fun st r hr => by
      have := C13_min_sound c e hw st r hr; omega
    have hbody : ∀ st r, r ∈ sem c e st → r.ix ≤ st.ix + UNSET → r.ix = st.ix + minSize e :=
      fun st r hr hb => C13_const_exact c e hw hc.1 hz st r hr hb
    simp only [minSize]
    have hbe := hc.2
    simp only [boundsEq, Bool.or_eq_true, Bool.and_eq_true, beq_iff_eq] at hbe
    rcases hbe with hbe | ⟨hnone, hlo⟩
    · subst hbe
      have := repLoop_exact_some (sem c e) (minSize e) UNSET hmono hbody lo greedy _ 0 st r
        (by omega) h hB
      simp only [Nat.sub_zero] at this
      have hs : sureReps lo (some lo) = lo := by simp [sureReps]
      rw [hs, this]
      have : lo * minSize e ≤ UNSET := by omega
      rw [satMul_exact lo (minSize e) this]
    · have hnone' : hi = none := by
        cases hi with
        | none => rfl
        | some _ => simp at hnone
      subst hnone'
      obtain ⟨k, hk1, hk2⟩ := repLoop_exact_none (sem c e) (minSize e) UNSET hmono hbody lo greedy _ 0
        st r h hB
      have hs : sureReps lo none = UNSET := by simp [sureReps, hlo]
      rw [hs, hk2]
      have hkm : k * minSize e ≤ UNSET := by omega
      have hk : UNSET ≤ k := by omega
      rw [satMul_many k (minSize e) hkm hk]
  | .delegate inner size casei, _, _, hz, st, r, h, _ => by
    simp only [sem, delegateSem] at h
    simp only [noBareEndZ] at hz
    split at h
    · rename_i hs
      have hs' : size = 1 := by simpa using hs
      split at h
      · split at h
        · simp at h; subst h; simp [minSize, hs']
        · simp at h
      · simp at h
    · split at h
      · rename_i hs
        simp [hs] at hz
      · simp at h
  | .backref g, _, hc, _, st, r, h, _ => by simp [constSize] at hc
  | .atomic e, hw, hc, hz, st, r, h, hB => by
    simp only [sem] at h
    simp only [wellShaped] at hw
    simp only [constSize] at hc
    simp only [noBareEndZ] at hz
    have := C13_const_exact c e hw hc hz st r (firstOnly_mem _ _ h) hB
    simpa [minSize] using this
  | .keepOut, _, _, _, st, r, h, _ => by simp [sem] at h; subst h; simp [minSize, setSlot_ix]
  | .contPrev, _, _, _, st, r, h, _ => by
    simp only [sem] at h; split at h
    · simp at h; subst h; simp [minSize]
    · simp at h
  | .backrefExists g, _, _, _, st, r, h, _ => by
    simp only [sem] at h; split at h
    · simp at h; subst h; simp [minSize]
    · simp at h
  | .cond cnd y n, hw, hc, hz, st, r, h, hB => by
    simp only [sem] at h
    simp only [wellShaped, Bool.and_eq_true] at hw
    simp only [constSize, Bool.and_eq_true, beq_iff_eq] at hc
    simp only [noBareEndZ, Bool.and_eq_true] at hz
    simp only [minSize]
    split at h
    · rename_i r1 hr1
      have hm1 := List.mem_of_mem_head? hr1
      have m1 := C13_min_sound c cnd hw.1.1 st r1 hm1
      have m2 := C13_min_sound c y hw.1.2 r1 r h
      have h1 := C13_const_exact c cnd hw.1.1 hc.1.1.1 hz.1.1 st r1 hm1 (by omega)
      have h2 := C13_const_exact c y hw.1.2 hc.1.1.2 hz.1.2 r1 r h (by omega)
      have hs := hc.2
      simp only [satAdd] at hs ⊢
      omega
    · have h3 := C13_const_exact c n hw.2 hc.1.2 hz.2 st r h hB
      have hs := hc.2
      omega
  | .subroutine g, _, _, _, st, r, h, _ => by simp [sem] at h
theorem const_exact_concat (c : Ctx) : ∀ (es : List Expr), wellShapedAll es = true →
    constSizeAll es = true → noBareEndZAll es = true → ∀ (st r : St),
    r ∈ semConcat c es st → r.ix ≤ st.ix + UNSET → r.ix = st.ix + minSizeSum es
  | [], _, _, _, st, r, h, _ => by simp [semConcat] at h; subst h; simp [minSizeSum]
  | e :: es, hw, hc, hz, st, r, h, hB => by
    simp only [semConcat, List.mem_flatMap] at h
    obtain ⟨r1, hr1, hr⟩ := h
    simp only [wellShapedAll, Bool.and_eq_true] at hw
    simp only [constSizeAll, Bool.and_eq_true] at hc
    simp only [noBareEndZAll, Bool.and_eq_true] at hz
    have m1 := C13_min_sound c e hw.1 st r1 hr1
    have m2 := min_sound_concat c es hw.2 r1 r hr
    have h1 := C13_const_exact c e hw.1 hc.1 hz.1 st r1 hr1 (by omega)
    have h2 := const_exact_concat c es hw.2 hc.2 hz.2 r1 r hr (by omega)
    simp only [minSizeSum, satAdd]
    omega
theorem const_exact_alt (c : Ctx) : ∀ (es : List Expr) (m : Nat), wellShapedAll es = true →
    constSizeAll es = true → allMinSize m es = true → noBareEndZAll es = true → ∀ (st r : St),
    r ∈ semAlt c es st → r.ix ≤ st.ix + UNSET → r.ix = st.ix + m
  | [], _, _, _, _, _, st, r, h, _ => by simp [semAlt] at h
  | e :: es, m, hw, hc, ha, hz, st, r, h, hB => by
    simp only [semAlt, List.mem_append] at h
    simp only [wellShapedAll, Bool.and_eq_true] at hw
    simp only [constSizeAll, Bool.and_eq_true] at hc
    simp only [allMinSize, Bool.and_eq_true, beq_iff_eq] at ha
    simp only [noBareEndZAll, Bool.and_eq_true] at hz
    rcases h with h | h
    · have := C13_const_exact c e hw.1 hc.1 hz.1 st r h hB
      omega
    · exact const_exact_alt c es m hw.2 hc.2 ha.2 hz.2 st r h hB
end

/-! ### variant: no saturation happened (`minSize e < UNSET`), no bound on the result needed -/

theorem satMul_gen_lt (U m lo : Nat) (h : min (m * lo) U < U) : m * lo < U := by omega

theorem satMul_gen_lt_self (U m : Nat) (h : min (m * U) U < U) : m = 0 := by
  rcases Nat.eq_zero_or_pos m with hm | hm
  · exact hm
  · have : U ≤ m * U := Nat.le_mul_of_pos_left _ hm
    omega

theorem mul_lt_left (U m lo : Nat) (h : m * lo < U) (hlo : 0 < lo) : m < U := by
  have : m ≤ m * lo := Nat.le_mul_of_pos_right _ hlo
  omega

mutual
/-- if the computed size did not saturate, a constant-size expression matches exactly that many
    characters (no hypothesis on the result) -/
theorem C13_const_exact_unsat (c : Ctx) : ∀ (e : Expr), wellShaped e = true → constSize e = true →
    noBareEndZ e = true → minSize e < UNSET → ∀ (st r : St), r ∈ sem c e st →
    r.ix = st.ix + minSize e
  | .concat es, hw, hc, hz, hU, st, r, h => by
    simp only [sem] at h
    simp only [wellShaped] at hw
    simp only [constSize] at hc
    simp only [noBareEndZ] at hz
    simp only [minSize] at hU
    simpa [minSize] using const_exact_unsat_concat c es hw hc hz hU st r h
  | .alt es, hw, hc, hz, hU, st, r, h => by
    simp only [sem] at h
    simp only [wellShaped, Bool.and_eq_true] at hw
    simp only [constSize, Bool.and_eq_true] at hc
    simp only [noBareEndZ] at hz
    cases es with
    | nil => simp [semAlt] at h
    | cons e0 es' =>
      simp only at hc
      have hm := allMinSize_minSizeMin (minSize e0) (e0 :: es') (by simp) hc.2
      simp only [minSize] at hU ⊢
      rw [hm] at hU ⊢
      exact const_exact_unsat_alt c (e0 :: es') (minSize e0) hw.2 hc.1 hc.2 hz hU st r h
  | .group g e, hw, hc, hz, hU, st, r, h => by
    simp only [sem, List.mem_map] at h
    obtain ⟨r', hr', rfl⟩ := h
    simp only [wellShaped] at hw
    simp only [constSize] at hc
    simp only [noBareEndZ] at hz
    simp only [minSize] at hU
    have := C13_const_exact_unsat c e hw hc hz hU _ _ hr'
    simpa [minSize, setSlot_ix] using this
  | .repeat e lo hi greedy, hw, hc, hz, hU, st, r, h => by
    simp only [sem] at h
    simp only [wellShaped] at hw
    simp only [constSize, Bool.and_eq_true] at hc
    simp only [noBareEndZ] at hz
    have hmono : ∀ st r, r ∈ sem c e st → st.ix ≤ r.ix := fun st r hr => by
      have := C13_min_sound c e hw st r hr; omega
    have hbe := hc.2
    simp only [boundsEq, Bool.or_eq_true, Bool.and_eq_true, beq_iff_eq] at hbe
    simp only [minSize] at hU ⊢
    rcases hbe with hbe | ⟨hnone, hlo⟩
    · subst hbe
      have hs : sureReps lo (some lo) = lo := by simp [sureReps]
      rw [hs] at hU ⊢
      have hlt : minSize e * lo < UNSET := satMul_gen_lt UNSET _ _ hU
      rcases Nat.eq_zero_or_pos lo with hz0 | hpos
      · subst hz0
        simp [repLoop, satMul] at h ⊢
        subst h; rfl
      · have hm : minSize e < UNSET := mul_lt_left UNSET _ _ hlt hpos
        have hbody : ∀ st' r', r' ∈ sem c e st' → r'.ix ≤ st'.ix + r.ix → r'.ix = st'.ix + minSize e :=
          fun st' r' hr _ => C13_const_exact_unsat c e hw hc.1 hz hm st' r' hr
        have := repLoop_exact_some (sem c e) (minSize e) r.ix hmono hbody lo greedy _ 0 st r
          (by omega) h (by omega)
        simp only [Nat.sub_zero] at this
        rw [this, satMul_exact lo (minSize e) (by rw [Nat.mul_comm]; omega)]
    · have hnone' : hi = none := by
        cases hi with
        | none => rfl
        | some _ => simp at hnone
      subst hnone'
      have hs : sureReps lo none = UNSET := by simp [sureReps, hlo]
      rw [hs] at hU ⊢
      have hm0 : minSize e = 0 := satMul_gen_lt_self UNSET _ hU
      have hbody : ∀ st' r', r' ∈ sem c e st' → r'.ix ≤ st'.ix + r.ix → r'.ix = st'.ix + minSize e :=
        fun st' r' hr _ => C13_const_exact_unsat c e hw hc.1 hz (by rw [hm0]; simp [UNSET]) st' r' hr
      obtain ⟨k, _, hk2⟩ := repLoop_exact_none (sem c e) (minSize e) r.ix hmono hbody lo greedy _ 0
        st r h (by omega)
      rw [hk2, hm0]
      simp [satMul]
  | .atomic e, hw, hc, hz, hU, st, r, h => by
    simp only [sem] at h
    simp only [wellShaped] at hw
    simp only [constSize] at hc
    simp only [noBareEndZ] at hz
    simp only [minSize] at hU
    have := C13_const_exact_unsat c e hw hc hz hU st r (firstOnly_mem _ _ h)
    simpa [minSize] using this
  | .cond cnd y n, hw, hc, hz, hU, st, r, h => by
    simp only [sem] at h
    simp only [wellShaped, Bool.and_eq_true] at hw
    simp only [constSize, Bool.and_eq_true, beq_iff_eq] at hc
    simp only [noBareEndZ, Bool.and_eq_true] at hz
    simp only [minSize] at hU ⊢
    have hs := hc.2
    simp only [satAdd] at hs hU ⊢
    split at h
    · rename_i r1 hr1
      have hm1 := List.mem_of_mem_head? hr1
      have h1 := C13_const_exact_unsat c cnd hw.1.1 hc.1.1.1 hz.1.1 (by omega) st r1 hm1
      have h2 := C13_const_exact_unsat c y hw.1.2 hc.1.1.2 hz.1.2 (by omega) r1 r h
      omega
    · have h3 := C13_const_exact_unsat c n hw.2 hc.1.2 hz.2 (by omega) st r h
      omega
  | .empty, _, _, _, _, st, r, h => by simp [sem] at h; subst h; simp [minSize]
  | .any nl, _, _, _, _, st, r, h => by
    simp only [sem] at h
    split at h
    · split at h
      · simp at h; subst h; simp [minSize]
      · simp at h
    · simp at h
  | .assertion a, _, _, _, _, st, r, h => by
    simp only [sem] at h; split at h
    · simp at h; subst h; simp [minSize]
    · simp at h
  | .literal val casei, hw, _, _, _, st, r, h => by
    simp only [sem] at h
    split at h
    · simp at h; subst h
      simp only [wellShaped, beq_iff_eq] at hw
      simp [minSize, hw]
    · simp at h
  | .look e .ahead, _, _, _, _, st, r, h => by
    simp only [sem, List.mem_map] at h
    obtain ⟨r', _, rfl⟩ := h
    simp [minSize]
  | .look e .aheadNeg, _, _, _, _, st, r, h => by
    simp only [sem] at h; split at h
    · simp at h; subst h; simp [minSize]
    · simp at h
  | .look e .behind, _, _, _, _, st, r, h => by
    simp only [sem, List.mem_map] at h
    obtain ⟨r', _, rfl⟩ := h
    simp [minSize]
  | .look e .behindNeg, _, _, _, _, st, r, h => by
    simp only [sem] at h; split at h
    · simp at h; subst h; simp [minSize]
    · simp at h
  | .delegate inner size casei, _, _, hz, _, st, r, h => by
    simp only [sem, delegateSem] at h
    simp only [noBareEndZ] at hz
    split at h
    · rename_i hs
      have hs' : size = 1 := by simpa using hs
      split at h
      · split at h
        · simp at h; subst h; simp [minSize, hs']
        · simp at h
      · simp at h
    · split at h
      · rename_i hs
        simp [hs] at hz
      · simp at h
  | .backref g, _, hc, _, _, st, r, h => by simp [constSize] at hc
  | .keepOut, _, _, _, _, st, r, h => by simp [sem] at h; subst h; simp [minSize, setSlot_ix]
  | .contPrev, _, _, _, _, st, r, h => by
    simp only [sem] at h; split at h
    · simp at h; subst h; simp [minSize]
    · simp at h
  | .backrefExists g, _, _, _, _, st, r, h => by
    simp only [sem] at h; split at h
    · simp at h; subst h; simp [minSize]
    · simp at h
  | .subroutine g, _, _, _, _, st, r, h => by simp [sem] at h
theorem const_exact_unsat_concat (c : Ctx) : ∀ (es : List Expr), wellShapedAll es = true →
    constSizeAll es = true → noBareEndZAll es = true → minSizeSum es < UNSET → ∀ (st r : St),
    r ∈ semConcat c es st → r.ix = st.ix + minSizeSum es
  | [], _, _, _, _, st, r, h => by simp [semConcat] at h; subst h; simp [minSizeSum]
  | e :: es, hw, hc, hz, hU, st, r, h => by
    simp only [semConcat, List.mem_flatMap] at h
    obtain ⟨r1, hr1, hr⟩ := h
    simp only [wellShapedAll, Bool.and_eq_true] at hw
    simp only [constSizeAll, Bool.and_eq_true] at hc
    simp only [noBareEndZAll, Bool.and_eq_true] at hz
    simp only [minSizeSum, satAdd] at hU ⊢
    have h1 := C13_const_exact_unsat c e hw.1 hc.1 hz.1 (by omega) st r1 hr1
    have h2 := const_exact_unsat_concat c es hw.2 hc.2 hz.2 (by omega) r1 r hr
    omega
theorem const_exact_unsat_alt (c : Ctx) : ∀ (es : List Expr) (m : Nat), wellShapedAll es = true →
    constSizeAll es = true → allMinSize m es = true → noBareEndZAll es = true → m < UNSET →
    ∀ (st r : St), r ∈ semAlt c es st → r.ix = st.ix + m
  | [], _, _, _, _, _, _, st, r, h => by simp [semAlt] at h
  | e :: es, m, hw, hc, ha, hz, hU, st, r, h => by
    simp only [semAlt, List.mem_append] at h
    simp only [wellShapedAll, Bool.and_eq_true] at hw
    simp only [constSizeAll, Bool.and_eq_true] at hc
    simp only [allMinSize, Bool.and_eq_true, beq_iff_eq] at ha
    simp only [noBareEndZAll, Bool.and_eq_true] at hz
    rcases h with h | h
    · have := C13_const_exact_unsat c e hw.1 hc.1 hz.1 (by omega) st r h
      omega
    · exact const_exact_unsat_alt c es m hw.2 hc.2 ha.2 hz.2 hU st r h
end

/-- the bound hypothesis of `C13_const_exact` is implied by its conclusion as soon as the computed
    size fits `usize` (which `C06_sizes_no_overflow` proves for every tree with `leafSizesOK`):
    it cannot be weakened -/
theorem C13_const_exact_bound_necessary (e : Expr) (st r : St) (hle : minSize e ≤ UNSET)
    (h : r.ix = st.ix + minSize e) : r.ix ≤ st.ix + UNSET := by omega

/-- a context for the examples: exact character comparison, classes accept everything -/
def exCtx (text : List Char) : Ctx :=
  ⟨text, 0, false, fun _ => false, fun _ _ _ => true, fun _ a b => a == b⟩

/-- hypotheses of `C13_const_exact` are satisfiable: `a.{2}` on "abc" -/
example :
    let e : Expr := .concat [.literal ['a'] false, .repeat (.any true) 2 (some 2) true]
    wellShaped e = true ∧ constSize e = true ∧ noBareEndZ e = true ∧
      (⟨3, []⟩ : St) ∈ sem (exCtx ['a', 'b', 'c']) e ⟨0, []⟩ ∧ (3 : Nat) ≤ 0 + UNSET ∧ minSize e = 3 := by
  simp [wellShaped, wellShapedAll, constSize, constSizeAll, boundsEq, noBareEndZ, noBareEndZAll,
    sem, semConcat, repLoop, exCtx, Ctx.litAt, Ctx.at?, Ctx.len, minSize, minSizeSum, satAdd, satMul,
    sureReps, UNSET]

/-- **`noBareEndZ` is necessary**: the bare `\Z` delegate is declared constant-size 0 but consumes
    the trailing newline of "\n" -/
example :
    let e : Expr := .delegate ['\n', '*', '$'] 0 false
    wellShaped e = true ∧ constSize e = true ∧ minSize e = 0 ∧
      sem (exCtx ['\n']) e ⟨0, []⟩ = [⟨1, []⟩] := by
  simp [wellShaped, constSize, minSize, sem, delegateSem, exCtx, Ctx.newlinesFrom, Ctx.len]

theorem C13_const_exact_false_for_bare_endZ :
    ¬ (∀ (c : Ctx) (e : Expr), wellShaped e = true → constSize e = true → ∀ (st r : St),
        r ∈ sem c e st → r.ix ≤ st.ix + UNSET → r.ix = st.ix + minSize e) := by
  intro h
  have := h (exCtx ['\n']) (.delegate ['\n', '*', '$'] 0 false) (by simp [wellShaped])
    (by simp [constSize]) ⟨0, []⟩ ⟨1, []⟩
    (by simp [sem, delegateSem, exCtx, Ctx.newlinesFrom, Ctx.len]) (by simp [UNSET])
  simp [minSize] at this

/-! ## 2. look-behind: "go back `minSize` characters" is exact -/

theorem flatMap_range_single {α : Type} (g : Nat → List α) (m : Nat) : ∀ (n : Nat),
    (∀ k, k < n → k ≠ m → g k = []) → (List.range n).flatMap g = if m < n then g m else []
  | 0, _ => by simp
  | n + 1, h => by
    rw [List.range_succ, List.flatMap_append, flatMap_range_single g m n (fun k hk => h k (by omega))]
    simp only [List.flatMap_cons, List.flatMap_nil, List.append_nil]
    rcases Nat.lt_trichotomy m n with hlt | heq | hgt
    · have : g n = [] := h n (by omega) (by omega)
      simp [hlt, this, show m < n + 1 by omega]
    · subst heq; simp
    · have : g n = [] := h n (by omega) (by omega)
      simp [this, show ¬ m < n by omega, show ¬ m < n + 1 by omega]

/-- over any body that matches exactly `m` characters from every start `≤ ix`, the specification's
    look-behind is "go back `m`, run the body" -/
theorem behindOne_eq_goBack (body : St → List St) (m : Nat) (st : St)
    (hex : ∀ k, k ≤ st.ix → ∀ r, r ∈ body { st with ix := st.ix - k } → r.ix = st.ix - k + m) :
    behindOne body st = if m ≤ st.ix then body { st with ix := st.ix - m } else [] := by
  unfold behindOne
  rw [flatMap_range_single _ m]
  · by_cases hm : m ≤ st.ix
    · simp only [show m < st.ix + 1 by omega, hm, if_true]
      rw [List.filter_eq_self]
      intro r hr
      have := hex m hm r hr
      simp only [beq_iff_eq]; omega
    · simp [hm, show ¬ m < st.ix + 1 by omega]
  · intro k hk hne
    rw [List.filter_eq_nil_iff]
    intro r hr
    have := hex k (by omega) r hr
    simp only [beq_iff_eq]; omega

/-- **An accepted look-behind holds at a position iff its body matches the text ending exactly
    there**: for a constant-size body, "go back `minSize` characters (fail if that is before the
    start), run the body, do not check where it ends" — the compiled code — is the specification's
    "some start `j ≤ ix` has a result ending exactly at `ix`". The text must fit `usize`
    (`c.len ≤ UNSET`; Rust guarantees `len ≤ isize::MAX`). -/
theorem C13_lookbehind_exact (c : Ctx) (n : Nat) (e : Expr) (hw : wellShaped e = true)
    (hc : constSize e = true) (hz : noBareEndZ e = true) (st : St) (hg : st.Good c n)
    (hlen : c.len ≤ UNSET) :
    behindOne (sem c e) st =
      if minSize e ≤ st.ix then sem c e { st with ix := st.ix - minSize e } else [] := by
  apply behindOne_eq_goBack
  intro k hk r hr
  have hg' : ({ st with ix := st.ix - k } : St).Good c n := hg.withIx _ (by have := hg.ix; omega)
  have := (sem_good c n e _ r hg' hr).ix
  exact C13_const_exact c e hw hc hz _ r hr (by simp only; omega)

/-- the same without any hypothesis on the state or the text, when the computed size did not
    saturate (`minSize e < usize::MAX`: always the case for a pattern a machine can hold) -/
theorem C13_lookbehind_exact_unsat (c : Ctx) (e : Expr) (hw : wellShaped e = true)
    (hc : constSize e = true) (hz : noBareEndZ e = true) (hU : minSize e < UNSET) (st : St) :
    behindOne (sem c e) st =
      if minSize e ≤ st.ix then sem c e { st with ix := st.ix - minSize e } else [] := by
  apply behindOne_eq_goBack
  intro k _ r hr
  exact C13_const_exact_unsat c e hw hc hz hU _ r hr

theorem semBehind_not_alt (c : Ctx) (e : Expr) (hna : ∀ es, e ≠ .alt es) (st : St) :
    semBehind c e st = behindOne (sem c e) st := by
  cases e with
  | alt es => exact absurd rfl (hna es)
  | _ => simp only [semBehind]

/-- positive look-behind with a non-alternation body -/
theorem C13_lookbehind_pos (c : Ctx) (n : Nat) (e : Expr) (hna : ∀ es, e ≠ .alt es)
    (hw : wellShaped e = true) (hc : constSize e = true) (hz : noBareEndZ e = true) (st : St)
    (hg : st.Good c n) (hlen : c.len ≤ UNSET) :
    sem c (.look e .behind) st =
      (firstOnly (if minSize e ≤ st.ix then sem c e { st with ix := st.ix - minSize e } else [])).map
        fun r => { r with ix := st.ix } := by
  simp only [sem]
  rw [semBehind_not_alt c e hna, C13_lookbehind_exact c n e hw hc hz st hg hlen]

/-- negative look-behind with a non-alternation body -/
theorem C13_lookbehind_neg (c : Ctx) (n : Nat) (e : Expr) (hna : ∀ es, e ≠ .alt es)
    (hw : wellShaped e = true) (hc : constSize e = true) (hz : noBareEndZ e = true) (st : St)
    (hg : st.Good c n) (hlen : c.len ≤ UNSET) :
    sem c (.look e .behindNeg) st =
      if (if minSize e ≤ st.ix then sem c e { st with ix := st.ix - minSize e } else []).isEmpty
      then [st] else [] := by
  simp only [sem]
  rw [semBehind_not_alt c e hna, C13_lookbehind_exact c n e hw hc hz st hg hlen]

/-- the per-alternative go-backs, in order -/
def goBackAlts (c : Ctx) (es : List Expr) (st : St) : List St :=
  es.flatMap fun e => if minSize e ≤ st.ix then sem c e { st with ix := st.ix - minSize e } else []

/-- alternation body whose alternatives are each constant-size (possibly of different sizes):
    the ordered union of the per-alternative go-backs -/
theorem C13_lookbehind_alts (c : Ctx) (n : Nat) : ∀ (es : List Expr), wellShapedAll es = true →
    constSizeAll es = true → noBareEndZAll es = true → ∀ (st : St), st.Good c n → c.len ≤ UNSET →
    semBehindAlts c es st = goBackAlts c es st
  | [], _, _, _, st, _, _ => by simp [semBehindAlts, goBackAlts]
  | e :: es, hw, hc, hz, st, hg, hlen => by
    simp only [wellShapedAll, Bool.and_eq_true] at hw
    simp only [constSizeAll, Bool.and_eq_true] at hc
    simp only [noBareEndZAll, Bool.and_eq_true] at hz
    simp only [semBehindAlts, goBackAlts, List.flatMap_cons]
    rw [C13_lookbehind_exact c n e hw.1 hc.1 hz.1 st hg hlen,
      C13_lookbehind_alts c n es hw.2 hc.2 hz.2 st hg hlen]
    rfl

theorem C13_lookbehind_pos_alt (c : Ctx) (n : Nat) (es : List Expr) (hw : wellShapedAll es = true)
    (hc : constSizeAll es = true) (hz : noBareEndZAll es = true) (st : St) (hg : st.Good c n)
    (hlen : c.len ≤ UNSET) :
    sem c (.look (.alt es) .behind) st =
      (firstOnly (goBackAlts c es st)).map fun r => { r with ix := st.ix } := by
  simp only [sem, semBehind]
  rw [C13_lookbehind_alts c n es hw hc hz st hg hlen]

theorem C13_lookbehind_neg_alt (c : Ctx) (n : Nat) (es : List Expr) (hw : wellShapedAll es = true)
    (hc : constSizeAll es = true) (hz : noBareEndZAll es = true) (st : St) (hg : st.Good c n)
    (hlen : c.len ≤ UNSET) :
    sem c (.look (.alt es) .behindNeg) st = if (goBackAlts c es st).isEmpty then [st] else [] := by
  simp only [sem, semBehind]
  rw [C13_lookbehind_alts c n es hw hc hz st hg hlen]

/-- hypotheses of `C13_lookbehind_exact` are satisfiable: `(?<=a)` at position 1 of "ab" -/
example :
    let c := exCtx ['a', 'b']
    let e : Expr := .literal ['a'] false
    let st : St := ⟨1, []⟩
    wellShaped e = true ∧ constSize e = true ∧ noBareEndZ e = true ∧ st.Good c 0 ∧ c.len ≤ UNSET ∧
      behindOne (sem c e) st = [⟨1, []⟩] := by
  refine ⟨by simp [wellShaped], by simp [constSize], by simp [noBareEndZ],
    ⟨by simp [exCtx, Ctx.len], rfl, by simp⟩, by simp [exCtx, Ctx.len, UNSET], ?_⟩
  simp [behindOne, List.range_succ, sem, exCtx, Ctx.litAt, Ctx.at?]

/-- **`noBareEndZ` is necessary for the look-behind rule too**: with a bare `\Z` as body, at
    position 0 of "\n" the specification's look-behind fails (no result ends at 0) while "go back 0
    and run the body" succeeds. The parser cannot produce this tree. -/
example :
    let c := exCtx ['\n']
    let e : Expr := .delegate ['\n', '*', '$'] 0 false
    let st : St := ⟨0, []⟩
    behindOne (sem c e) st = [] ∧
      (if minSize e ≤ st.ix then sem c e { st with ix := st.ix - minSize e } else []) = [⟨1, []⟩] := by
  simp [behindOne, List.range_succ, sem, delegateSem, exCtx, Ctx.newlinesFrom, Ctx.len, minSize]

/-! ## 3. `GoBack` fails rather than reading before the start of the text -/

theorem C13_goback (ix n : Nat) :
    (goBack ix n = some (ix - n) ↔ n ≤ ix) ∧ (goBack ix n = none ↔ ix < n) := by
  unfold goBack
  by_cases h : n ≤ ix
  · simp [h]
  · simp [h]; omega

example : goBack 3 2 = some 1 ∧ goBack 1 2 = none := by simp [goBack]

/-! ## 4. which look-behinds the compiler accepts -/

theorem C13_accept_behind_not_const (br : Nat → Bool) (e : Expr) (hna : ∀ es, e ≠ .alt es)
    (hc : constSize e = false) (hard : Bool) (pc nsv gix : Nat) :
    visit br (.look e .behind) hard pc nsv gix = .error .lookBehindNotConst := by
  rw [visit]
  · simp [isHard, hc]
  · intro es h; exact hna es h

theorem C13_accept_behind_const (br : Nat → Bool) (e : Expr) (hna : ∀ es, e ≠ .alt es)
    (hc : constSize e = true) (hard : Bool) (pc nsv gix : Nat) :
    visit br (.look e .behind) hard pc nsv gix =
      match visit br e false (posLookBodyPc (isHard br e) true pc) (nsv + 1) gix with
      | .error err => .error err
      | .ok (code, nsv') => .ok (wrapPosLook (isHard br e) true nsv (minSize e) code, nsv') := by
  rw [visit]
  · simp only [isHard, hc, Bool.not_true, Bool.and_false, Bool.false_eq_true, if_false]
    rfl
  · intro es h; exact hna es h

theorem C13_accept_behindNeg_not_const (br : Nat → Bool) (e : Expr) (hna : ∀ es, e ≠ .alt es)
    (hc : constSize e = false) (hard : Bool) (pc nsv gix : Nat) :
    visit br (.look e .behindNeg) hard pc nsv gix = .error .lookBehindNotConst := by
  rw [visit]
  · simp [isHard, hc]
  · intro es h; exact hna es h

theorem C13_accept_behindNeg_const (br : Nat → Bool) (e : Expr) (hna : ∀ es, e ≠ .alt es)
    (hc : constSize e = true) (hard : Bool) (pc nsv gix : Nat) :
    visit br (.look e .behindNeg) hard pc nsv gix =
      match visit br e false (negLookBodyPc true pc) nsv gix with
      | .error err => .error err
      | .ok (code, nsv') => .ok (wrapNegLook true pc (minSize e) code, nsv') := by
  rw [visit]
  · simp only [isHard, hc, Bool.not_true, Bool.and_false, Bool.false_eq_true, if_false]
    rfl
  · intro es h; exact hna es h

/-- **non-alternation body**: provided the body's own compilation does not report
    `LookBehindNotConst` (a nested bad look-behind), the look-behind is rejected with that error iff
    its body is not constant-size -/
theorem C13_accept_iff (br : Nat → Bool) (e : Expr) (hna : ∀ es, e ≠ .alt es)
    (hsub : ∀ hard pc nsv gix, visit br e hard pc nsv gix ≠ .error .lookBehindNotConst)
    (hard : Bool) (pc nsv gix : Nat) :
    (visit br (.look e .behind) hard pc nsv gix = .error .lookBehindNotConst ↔ constSize e = false) ∧
    (visit br (.look e .behindNeg) hard pc nsv gix = .error .lookBehindNotConst ↔ constSize e = false) := by
  constructor
  · constructor
    · intro h
      cases hc : constSize e with
      | false => rfl
      | true =>
        rw [C13_accept_behind_const br e hna hc] at h
        split at h
        · rename_i heq; cases h; exact absurd heq (hsub _ _ _ _)
        · cases h
    · intro hc; exact C13_accept_behind_not_const br e hna hc hard pc nsv gix
  · constructor
    · intro h
      cases hc : constSize e with
      | false => rfl
      | true =>
        rw [C13_accept_behindNeg_const br e hna hc] at h
        split at h
        · rename_i heq; cases h; exact absurd heq (hsub _ _ _ _)
        · cases h
    · intro hc; exact C13_accept_behindNeg_not_const br e hna hc hard pc nsv gix

/-- some alternative's own compilation fails with `err` (e.g. a nested bad look-behind) -/
def subErr (br : Nat → Bool) (es : List Expr) (err : CompileErr) : Prop :=
  ∃ e, e ∈ es ∧ ∃ hard pc nsv gix, visit br e hard pc nsv gix = .error err

theorem subErr_cons (br : Nat → Bool) (e : Expr) (es : List Expr) (err : CompileErr)
    (h : subErr br es err) : subErr br (e :: es) err := by
  obtain ⟨e', he', h'⟩ := h
  exact ⟨e', by simp [he'], h'⟩

theorem subErr_head (br : Nat → Bool) (e : Expr) (es : List Expr) (err : CompileErr)
    (hard : Bool) (pc nsv gix : Nat) (h : visit br e hard pc nsv gix = .error err) :
    subErr br (e :: es) err := ⟨e, by simp, hard, pc, nsv, gix, h⟩

theorem constSizeAll_false_iff : ∀ (es : List Expr),
    constSizeAll es = false ↔ ∃ e, e ∈ es ∧ constSize e = false
  | [] => by simp [constSizeAll]
  | e :: es => by
    simp only [constSizeAll, Bool.and_eq_false_iff, constSizeAll_false_iff es, List.mem_cons]
    constructor
    · rintro (h | ⟨e', he', h'⟩)
      · exact ⟨e, Or.inl rfl, h⟩
      · exact ⟨e', Or.inr he', h'⟩
    · rintro ⟨e', (rfl | he'), h'⟩
      · exact Or.inl h'
      · exact Or.inr ⟨e', he', h'⟩

theorem lookBehindAlts_ok_const (br : Nat → Bool) : ∀ (es : List Expr) (pc nsv gix : Nat)
    (x : (Nat → Code) × Nat × Nat), lookBehindAlts br es pc nsv gix = .ok x → constSizeAll es = true
  | [], _, _, _, _, _ => by simp [constSizeAll]
  | [e], pc, nsv, gix, x, h => by
    simp only [lookBehindAlts] at h
    split at h
    · cases h
    · simp_all [constSizeAll]
  | e :: e2 :: es, pc, nsv, gix, x, h => by
    simp only [lookBehindAlts] at h
    split at h
    · cases h
    · split at h
      · cases h
      · split at h
        · cases h
        · rename_i heq
          have := lookBehindAlts_ok_const br (e2 :: es) _ _ _ _ heq
          simp_all [constSizeAll]

theorem lookBehindAlts_error (br : Nat → Bool) : ∀ (es : List Expr) (pc nsv gix : Nat)
    (err : CompileErr), lookBehindAlts br es pc nsv gix = .error err →
    (err = .lookBehindNotConst ∧ constSizeAll es = false) ∨ subErr br es err
  | [], _, _, _, _, h => by simp [lookBehindAlts] at h
  | [e], pc, nsv, gix, err, h => by
    simp only [lookBehindAlts] at h
    split at h
    · cases h; left; simp_all [constSizeAll]
    · split at h
      · rename_i heq
        cases h
        exact Or.inr (subErr_head br e [] _ _ _ _ _ heq)
      · cases h
  | e :: e2 :: es, pc, nsv, gix, err, h => by
    simp only [lookBehindAlts] at h
    split at h
    · cases h; left; simp_all [constSizeAll]
    · split at h
      · rename_i heq
        cases h
        exact Or.inr (subErr_head br e _ _ _ _ _ _ heq)
      · split at h
        · rename_i heq
          cases h
          rcases lookBehindAlts_error br (e2 :: es) _ _ _ _ heq with ⟨h1, h2⟩ | h1
          · left; refine ⟨h1, ?_⟩
            simp only [constSizeAll] at h2 ⊢
            simp [h2]
          · exact Or.inr (subErr_cons br e _ _ h1)
        · cases h

theorem lookBehindNegAlts_ok_const (br : Nat → Bool) : ∀ (es : List Expr) (pc nsv gix : Nat)
    (x : Code × Nat), lookBehindNegAlts br es pc nsv gix = .ok x → constSizeAll es = true
  | [], _, _, _, _, _ => by simp [constSizeAll]
  | e :: es, pc, nsv, gix, x, h => by
    simp only [lookBehindNegAlts] at h
    split at h
    · cases h
    · split at h
      · cases h
      · split at h
        · cases h
        · rename_i heq
          have := lookBehindNegAlts_ok_const br es _ _ _ _ heq
          simp_all [constSizeAll]

theorem lookBehindNegAlts_error (br : Nat → Bool) : ∀ (es : List Expr) (pc nsv gix : Nat)
    (err : CompileErr), lookBehindNegAlts br es pc nsv gix = .error err →
    (err = .lookBehindNotConst ∧ constSizeAll es = false) ∨ subErr br es err
  | [], _, _, _, _, h => by simp [lookBehindNegAlts] at h
  | e :: es, pc, nsv, gix, err, h => by
    simp only [lookBehindNegAlts] at h
    split at h
    · cases h; left; simp_all [constSizeAll]
    · split at h
      · rename_i heq
        cases h
        exact Or.inr (subErr_head br e _ _ _ _ _ _ heq)
      · split at h
        · rename_i heq
          cases h
          rcases lookBehindNegAlts_error br es _ _ _ _ heq with ⟨h1, h2⟩ | h1
          · left; refine ⟨h1, ?_⟩
            simp only [constSizeAll]
            simp [h2]
          · exact Or.inr (subErr_cons br e _ _ h1)
        · cases h

theorem visitAlt_error (br : Nat → Bool) : ∀ (es : List Expr) (hard : Bool) (pc nsv gix : Nat)
    (err : CompileErr), visitAlt br es hard pc nsv gix = .error err → subErr br es err
  | [], _, _, _, _, _, h => by simp [visitAlt] at h
  | [e], hard, pc, nsv, gix, err, h => by
    simp only [visitAlt] at h
    split at h
    · rename_i heq
      cases h
      exact subErr_head br e [] _ _ _ _ _ heq
    · cases h
  | e :: e2 :: es, hard, pc, nsv, gix, err, h => by
    simp only [visitAlt] at h
    split at h
    · rename_i heq
      cases h
      exact subErr_head br e _ _ _ _ _ _ heq
    · split at h
      · rename_i heq
        cases h
        exact subErr_cons br e _ _ (visitAlt_error br (e2 :: es) _ _ _ _ _ heq)
      · cases h

theorem visitAltBody_error (br : Nat → Bool) (es : List Expr) (pc nsv gix : Nat)
    (err : CompileErr) (h : visitAltBody br es pc nsv gix = .error err) : subErr br es err := by
  rw [visitAltBody] at h
  split at h
  · cases h
  · split at h
    · rename_i heq
      cases h
      exact visitAlt_error br es _ _ _ _ _ heq
    · cases h

theorem constSize_alt_all (es : List Expr) (h : constSize (.alt es) = true) : constSizeAll es = true := by
  simp only [constSize, Bool.and_eq_true] at h
  exact h.1

/-- an accepted look-behind over an alternation has only constant-size alternatives (they may have
    different sizes) -/
theorem C13_accept_behind_alt_ok (br : Nat → Bool) (es : List Expr) (hard : Bool) (pc nsv gix : Nat)
    (x : Code × Nat) (h : visit br (.look (.alt es) .behind) hard pc nsv gix = .ok x) :
    constSizeAll es = true := by
  rw [visit] at h
  simp only [isHard, Bool.not_true, Bool.and_false, Bool.false_eq_true, if_false] at h
  split at h
  · split at h
    · cases h
    · rename_i heq
      exact lookBehindAlts_ok_const br es _ _ _ _ heq
  · rename_i hc
    exact constSize_alt_all es (by simpa using hc)

/-- a rejected one: either some alternative is not constant-size (`LookBehindNotConst`), or the
    compilation of an alternative itself failed -/
theorem C13_accept_behind_alt_error (br : Nat → Bool) (es : List Expr) (hard : Bool)
    (pc nsv gix : Nat) (err : CompileErr)
    (h : visit br (.look (.alt es) .behind) hard pc nsv gix = .error err) :
    (err = .lookBehindNotConst ∧ constSizeAll es = false) ∨ subErr br es err := by
  rw [visit] at h
  simp only [isHard, Bool.not_true, Bool.and_false, Bool.false_eq_true, if_false] at h
  split at h
  · split at h
    · rename_i heq
      cases h
      exact lookBehindAlts_error br es _ _ _ _ heq
    · cases h
  · split at h
    · rename_i heq
      cases h
      exact Or.inr (visitAltBody_error br es _ _ _ _ heq)
    · cases h

theorem C13_accept_behindNeg_alt_ok (br : Nat → Bool) (es : List Expr) (hard : Bool) (pc nsv gix : Nat)
    (x : Code × Nat) (h : visit br (.look (.alt es) .behindNeg) hard pc nsv gix = .ok x) :
    constSizeAll es = true := by
  rw [visit] at h
  simp only [isHard, Bool.not_true, Bool.and_false, Bool.false_eq_true, if_false] at h
  split at h
  · exact lookBehindNegAlts_ok_const br es _ _ _ _ h
  · rename_i hc
    exact constSize_alt_all es (by simpa using hc)

theorem C13_accept_behindNeg_alt_error (br : Nat → Bool) (es : List Expr) (hard : Bool)
    (pc nsv gix : Nat) (err : CompileErr)
    (h : visit br (.look (.alt es) .behindNeg) hard pc nsv gix = .error err) :
    (err = .lookBehindNotConst ∧ constSizeAll es = false) ∨ subErr br es err := by
  rw [visit] at h
  simp only [isHard, Bool.not_true, Bool.and_false, Bool.false_eq_true, if_false] at h
  split at h
  · exact lookBehindNegAlts_error br es _ _ _ _ h
  · split at h
    · rename_i heq
      cases h
      exact Or.inr (visitAltBody_error br es _ _ _ _ heq)
    · cases h


/-- **alternation body**: provided the alternatives themselves compile, `(?<=a|bb|…)` /
    `(?<!a|bb|…)` is rejected iff some alternative is not constant-size, and then the error is
    `LookBehindNotConst` -/
theorem C13_accept_iff_alt (br : Nat → Bool) (es : List Expr) (hsub : ∀ err, ¬ subErr br es err)
    (la : Look) (hla : la = .behind ∨ la = .behindNeg) (hard : Bool) (pc nsv gix : Nat) :
    ((∃ err, visit br (.look (.alt es) la) hard pc nsv gix = .error err) ↔
        ∃ e, e ∈ es ∧ constSize e = false) ∧
    (∀ err, visit br (.look (.alt es) la) hard pc nsv gix = .error err → err = .lookBehindNotConst) := by
  have hok : ∀ x, visit br (.look (.alt es) la) hard pc nsv gix = .ok x → constSizeAll es = true := by
    intro x h
    rcases hla with rfl | rfl
    · exact C13_accept_behind_alt_ok br es hard pc nsv gix x h
    · exact C13_accept_behindNeg_alt_ok br es hard pc nsv gix x h
  have herr : ∀ err, visit br (.look (.alt es) la) hard pc nsv gix = .error err →
      err = .lookBehindNotConst ∧ constSizeAll es = false := by
    intro err h
    have : (err = .lookBehindNotConst ∧ constSizeAll es = false) ∨ subErr br es err := by
      rcases hla with rfl | rfl
      · exact C13_accept_behind_alt_error br es hard pc nsv gix err h
      · exact C13_accept_behindNeg_alt_error br es hard pc nsv gix err h
    rcases this with h1 | h1
    · exact h1
    · exact absurd h1 (hsub err)
  refine ⟨⟨?_, ?_⟩, fun err h => (herr err h).1⟩
  · rintro ⟨err, h⟩
    exact (constSizeAll_false_iff es).mp (herr err h).2
  · intro h
    have hf := (constSizeAll_false_iff es).mpr h
    cases hv : visit br (.look (.alt es) la) hard pc nsv gix with
    | error err => exact ⟨err, rfl⟩
    | ok x => have := hok x hv; simp [hf] at this

/-- the decision is not vacuous: `(?<=a|bb)` (different sizes, each constant) is accepted,
    `(?<=a|b*)` is rejected -/
example :
    (∃ x, visit (fun _ => false) (.look (.alt [.literal ['a'] false,
        .concat [.literal ['b'] false, .literal ['b'] false]]) .behind) true 0 0 0 = .ok x) ∧
    visit (fun _ => false) (.look (.alt [.literal ['a'] false,
        .repeat (.literal ['b'] false) 0 none true]) .behind) true 0 0 0 = .error .lookBehindNotConst := by
  constructor
  · rw [visit]
    simp [isHard, isHardAny, constSize, constSizeAll, allMinSize, minSize, minSizeSum, satAdd, UNSET,
      lookBehindAlts, visit]
  · rw [visit]
    simp [isHard, constSize, constSizeAll, boundsEq, UNSET, lookBehindAlts, visit]

theorem visit_literal_ok (br : Nat → Bool) (v : List Char) (hard : Bool) (pc nsv gix : Nat)
    (err : CompileErr) : visit br (.literal v false) hard pc nsv gix ≠ .error err := by
  rw [visit]
  split
  · simp
  · simp

/-- the side hypotheses of `C13_accept_iff` / `C13_accept_iff_alt` are satisfiable -/
example : (∀ hard pc nsv gix, visit (fun _ => false) (.literal ['a'] false) hard pc nsv gix ≠
      .error .lookBehindNotConst) ∧
    (∀ err, ¬ subErr (fun _ => false) [.literal ['a'] false, .literal ['b'] false] err) := by
  refine ⟨fun hard pc nsv gix => visit_literal_ok _ _ _ _ _ _ _, ?_⟩
  rintro err ⟨e, he, hard, pc, nsv, gix, h⟩
  simp only [List.mem_cons, List.not_mem_nil, or_false] at he
  rcases he with rfl | rfl <;> exact visit_literal_ok _ _ _ _ _ _ _ h

end Fancy
