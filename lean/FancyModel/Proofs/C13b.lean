import FancyModel.Proofs.C13
import FancyModel.Lemmas.SemGood
import FancyModel.Model.Compile
import FancyModel.Model.VM
/-!
# C13b — exactness of the static size facts, and the look-behind "go back" rule

* `C13_const_exact`: an expression judged constant-size matches **exactly** `minSize` characters.
* `C13_lookbehind_exact`: for such a body, the specification's look-behind ("some start `j ≤ ix`
  has a result ending exactly at `ix`") equals what the compiled code does ("go back `minSize`
  characters, run the body, do not check where it ends; fail if that would be before the start").
* `C13_goback`: `goBack` fails rather than reading before the start of the text.
* `C13_accept_*`: which look-behinds the compiler accepts.

Side conditions of exactness (each one is necessary, see the `example`s next to the theorems):
* `wellShaped` (literals are one character: `min_size` counts a literal as 1);
* `noBareEndZ`: no `Delegate{"\n*$", size 0}` (`\Z`) outside a look-around. That node is declared
  size 0 / constant-size by the analyzer but consumes the trailing newlines. The parser only ever
  produces it directly under a look-ahead, which restores the position.
* `r.ix ≤ st.ix + UNSET`: the analyzer's sums saturate at `usize::MAX`, so an expression whose true
  size exceeds `usize::MAX` has `minSize = UNSET`, which is then not its size. The hypothesis says
  the distance actually matched fits `usize`; it is implied by the conclusion whenever
  `minSize e ≤ UNSET` (`C06_sizes_no_overflow`), so it is the weakest possible
  (`C13_const_exact_bound_necessary`).
-/
namespace Fancy

/-! ## the shape side condition -/

mutual
/-- no `\Z` delegate (`inner = "\n*$"`, `size = 0`) outside a look-around -/
def noBareEndZ : Expr → Bool
  | .delegate inner size _ => !(size == 0 && inner == ['\n', '*', '$'])
  | .concat es => noBareEndZAll es
  | .alt es => noBareEndZAll es
  | .group _ e => noBareEndZ e
  | .look _ _ => true
  | .repeat e _ _ _ => noBareEndZ e
  | .atomic e => noBareEndZ e
  | .cond c y n => noBareEndZ c && noBareEndZ y && noBareEndZ n
  | _ => true
def noBareEndZAll : List Expr → Bool
  | [] => true
  | e :: es => noBareEndZ e && noBareEndZAll es
end

/-! ## repetition loops with equal bounds -/

theorem repLoop_mono (body : St → List St) (hbody : ∀ st r, r ∈ body st → st.ix ≤ r.ix)
    (lo : Nat) (hi : Option Nat) (greedy : Bool) (fuel count : Nat) (st r : St)
    (h : r ∈ repLoop body lo hi greedy fuel count st) : st.ix ≤ r.ix := by
  have := repLoop_min body 0 (fun st r hr => by have := hbody st r hr; omega) lo hi greedy fuel count st r h
  simpa using this

/-- `{lo,lo}`: exactly `lo` iterations -/
theorem repLoop_exact_some (body : St → List St) (m B : Nat)
    (hmono : ∀ st r, r ∈ body st → st.ix ≤ r.ix)
    (hbody : ∀ st r, r ∈ body st → r.ix ≤ st.ix + B → r.ix = st.ix + m)
    (lo : Nat) (greedy : Bool) (fuel count : Nat) (st r : St) (hc : count ≤ lo)
    (h : r ∈ repLoop body lo (some lo) greedy fuel count st) (hB : r.ix ≤ st.ix + B) :
    r.ix = st.ix + (lo - count) * m := by
  induction fuel generalizing count st r with
  | zero => simp [repLoop] at h
  | succ fuel ih =>
    unfold repLoop at h
    split at h
    · rename_i hhi
      simp only [List.mem_singleton] at h
      subst h
      have : lo = count := by simpa using hhi
      subst this; simp
    · rename_i hhi
      have hlt : count < lo := by
        have : lo ≠ count := by simpa using hhi
        omega
      simp only [hlt, if_true] at h
      simp only [List.mem_flatMap] at h
      obtain ⟨r', hr', hmem⟩ := h
      simp only [Option.isNone_some, Bool.false_and, Bool.false_eq_true, if_false] at hmem
      have h1 := hmono st r' hr'
      have h2 := repLoop_mono body hmono lo (some lo) greedy fuel (count + 1) r' r hmem
      have h3 := hbody st r' hr' (by omega)
      have h4 := ih (count + 1) r' r (by omega) hmem (by omega)
      have : lo - count = (lo - (count + 1)) + 1 := by omega
      rw [this, Nat.add_mul]; omega

/-- `{lo,}`: at least `lo` iterations -/
theorem repLoop_exact_none (body : St → List St) (m B : Nat)
    (hmono : ∀ st r, r ∈ body st → st.ix ≤ r.ix)
    (hbody : ∀ st r, r ∈ body st → r.ix ≤ st.ix + B → r.ix = st.ix + m)
    (lo : Nat) (greedy : Bool) (fuel count : Nat) (st r : St)
    (h : r ∈ repLoop body lo none greedy fuel count st) (hB : r.ix ≤ st.ix + B) :
    ∃ k, lo ≤ count + k ∧ r.ix = st.ix + k * m := by
  induction fuel generalizing count st r with
  | zero => simp [repLoop] at h
  | succ fuel ih =>
    unfold repLoop at h
    simp only [reduceCtorEq, if_false] at h
    have hiters : ∀ q, q ∈ ((body st).flatMap fun r' =>
          if (none : Option Nat).isNone && decide (lo ≤ count) && r'.ix == st.ix then [r']
          else repLoop body lo none greedy fuel (count + 1) r') → q.ix ≤ st.ix + B →
        ∃ k, lo ≤ count + k ∧ q.ix = st.ix + k * m := by
      intro q hq hqB
      simp only [List.mem_flatMap] at hq
      obtain ⟨r', hr', hmem⟩ := hq
      have h1 := hmono st r' hr'
      split at hmem
      · rename_i hcond
        simp only [List.mem_singleton] at hmem
        subst hmem
        simp only [Bool.and_eq_true, decide_eq_true_eq] at hcond
        have h3 := hbody st q hr' hqB
        exact ⟨1, by omega, by omega⟩
      · have h2 := repLoop_mono body hmono lo none greedy fuel (count + 1) r' q hmem
        have h3 := hbody st r' hr' (by omega)
        obtain ⟨k, hk1, hk2⟩ := ih (count + 1) r' q hmem (by omega)
        refine ⟨k + 1, by omega, ?_⟩
        rw [Nat.add_mul]; omega
    split at h
    · exact hiters r h hB
    · rename_i hcl
      split at h
      · rcases List.mem_append.mp h with h | h
        · exact hiters r h hB
        · simp only [List.mem_singleton] at h; subst h; exact ⟨0, by omega, by simp⟩
      · rcases List.mem_cons.mp h with h | h
        · subst h; exact ⟨0, by omega, by simp⟩
        · exact hiters r h hB

theorem allMinSize_minSizeMin (m : Nat) : ∀ (es : List Expr), es ≠ [] → allMinSize m es = true →
    minSizeMin es = m
  | [], h, _ => by simp at h
  | [e], _, h => by
    simp only [allMinSize, Bool.and_true, beq_iff_eq] at h
    simp [minSizeMin, h]
  | e :: y :: ys, _, h => by
    simp only [allMinSize, Bool.and_eq_true, beq_iff_eq] at h
    have := allMinSize_minSizeMin m (y :: ys) (by simp) (by
      simp only [allMinSize, Bool.and_eq_true, beq_iff_eq]; exact h.2)
    simp only [minSizeMin] at this ⊢
    omega

/-! ## 1. constant size is exact -/

mutual
/-- **no sub-expression matches a different number of characters than its computed size when it is
    judged constant-size** -/
theorem C13_const_exact (c : Ctx) : ∀ (e : Expr), wellShaped e = true → constSize e = true →
    noBareEndZ e = true → ∀ (st r : St), r ∈ sem c e st → r.ix ≤ st.ix + UNSET →
    r.ix = st.ix + minSize e
  | .empty, _, _, _, st, r, h, _ => by simp [sem] at h; subst h; simp [minSize]
  | .any nl, _, _, _, st, r, h, _ => by
    simp only [sem] at h
    split at h
    · split at h
      · simp at h; subst h; simp [minSize]
      · simp at h
    · simp at h
  | .assertion a, _, _, _, st, r, h, _ => by
    simp only [sem] at h; split at h
    · simp at h; subst h; simp [minSize]
    · simp at h
  | .literal val casei, hw, _, _, st, r, h, _ => by
    simp only [sem] at h
    split at h
    · simp at h; subst h
      simp only [wellShaped, beq_iff_eq] at hw
      simp [minSize, hw]
    · simp at h
  | .concat es, hw, hc, hz, st, r, h, hB => by
    simp only [sem] at h
    simp only [wellShaped] at hw
    simp only [constSize] at hc
    simp only [noBareEndZ] at hz
    simpa [minSize] using const_exact_concat c es hw hc hz st r h hB
  | .alt es, hw, hc, hz, st, r, h, hB => by
    simp only [sem] at h
    simp only [wellShaped, Bool.and_eq_true] at hw
    simp only [constSize, Bool.and_eq_true] at hc
    simp only [noBareEndZ] at hz
    cases es with
    | nil => simp [semAlt] at h
    | cons e0 es' =>
      simp only at hc
      have := const_exact_alt c (e0 :: es') (minSize e0) hw.2 hc.1 hc.2 hz st r h hB
      rw [this]
      simp only [minSize]
      rw [allMinSize_minSizeMin (minSize e0) (e0 :: es') (by simp) hc.2]
  | .group g e, hw, hc, hz, st, r, h, hB => by
    simp only [sem, List.mem_map] at h
    obtain ⟨r', hr', rfl⟩ := h
    simp only [wellShaped] at hw
    simp only [constSize] at hc
    simp only [noBareEndZ] at hz
    have := C13_const_exact c e hw hc hz _ _ hr' (by simpa [setSlot_ix] using hB)
    simpa [minSize, setSlot_ix] using this
  | .look e .ahead, _, _, _, st, r, h, _ => by
    simp only [sem, List.mem_map] at h
    obtain ⟨r', _, rfl⟩ := h
    simp [minSize]
  | .look e .aheadNeg, _, _, _, st, r, h, _ => by
    simp only [sem] at h; split at h
    · simp at h; subst h; simp [minSize]
    · simp at h
  | .look e .behind, _, _, _, st, r, h, _ => by
    simp only [sem, List.mem_map] at h
    obtain ⟨r', _, rfl⟩ := h
    simp [minSize]
  | .look e .behindNeg, _, _, _, st, r, h, _ => by
    simp only [sem] at h; split at h
    · simp at h; subst h; simp [minSize]
    · simp at h
  | .repeat e lo hi greedy, hw, hc, hz, st, r, h, hB => by
    simp only [sem] at h
    simp only [wellShaped] at hw
    simp only [constSize, Bool.and_eq_true] at hc
    simp only [noBareEndZ] at hz
    have hmono : ∀ st r, r ∈ sem c e st → st.ix ≤ r.ix := fun st r hr => by
      have := C13_min_sound c e hw st r hr; omega
    have hbody : ∀ st r, r ∈ sem c e st → r.ix ≤ st.ix + UNSET → r.ix = st.ix + minSize e :=
      fun st r hr hb => C13_const_exact c e hw hc.1 hz st r hr hb
    simp only [minSize]
    have hbe := hc.2
    simp only [boundsEq, Bool.or_eq_true, Bool.and_eq_true, beq_iff_eq] at hbe
    rcases hbe with hbe | ⟨hnone, hlo⟩
    · subst hbe
      have := repLoop_exact_some (sem c e) (minSize e) UNSET hmono hbody lo greedy _ 0 st r
        (by omega) h hB
      simp only [Nat.sub_zero] at this
      have hs : sureReps lo (some lo) = lo := by simp [sureReps]
      rw [hs, this]
      have : lo * minSize e ≤ UNSET := by omega
      simp only [satMul]
      rw [Nat.mul_comm (minSize e) lo]
      omega
    · have hnone' : hi = none := by
        cases hi with
        | none => rfl
        | some _ => simp at hnone
      subst hnone'
      obtain ⟨k, hk1, hk2⟩ := repLoop_exact_none (sem c e) (minSize e) UNSET hmono hbody lo greedy _ 0
        st r h hB
      have hs : sureReps lo none = UNSET := by simp [sureReps, hlo]
      rw [hs, hk2]
      have hkm : k * minSize e ≤ UNSET := by omega
      have hk : UNSET ≤ k := by omega
      simp only [satMul]
      rcases Nat.eq_zero_or_pos (minSize e) with hm | hm
      · simp [hm]
      · have h1 : UNSET * minSize e ≤ k * minSize e := Nat.mul_le_mul_right _ hk
        have h2 : UNSET ≤ UNSET * minSize e := Nat.le_mul_of_pos_right _ hm
        have h3 : UNSET ≤ minSize e * UNSET := by rw [Nat.mul_comm]; exact h2
        omega
  | .delegate inner size casei, _, _, hz, st, r, h, _ => by
    simp only [sem, delegateSem] at h
    simp only [noBareEndZ] at hz
    split at h
    · rename_i hs
      have hs' : size = 1 := by simpa using hs
      split at h
      · split at h
        · simp at h; subst h; simp [minSize, hs']
        · simp at h
      · simp at h
    · split at h
      · rename_i hs
        simp [hs] at hz
      · simp at h
  | .backref g, _, hc, _, st, r, h, _ => by simp [constSize] at hc
  | .atomic e, hw, hc, hz, st, r, h, hB => by
    simp only [sem] at h
    simp only [wellShaped] at hw
    simp only [constSize] at hc
    simp only [noBareEndZ] at hz
    have := C13_const_exact c e hw hc hz st r (firstOnly_mem _ _ h) hB
    simpa [minSize] using this
  | .keepOut, _, _, _, st, r, h, _ => by simp [sem] at h; subst h; simp [minSize, setSlot_ix]
  | .contPrev, _, _, _, st, r, h, _ => by
    simp only [sem] at h; split at h
    · simp at h; subst h; simp [minSize]
    · simp at h
  | .backrefExists g, _, _, _, st, r, h, _ => by
    simp only [sem] at h; split at h
    · simp at h; subst h; simp [minSize]
    · simp at h
  | .cond cnd y n, hw, hc, hz, st, r, h, hB => by
    simp only [sem] at h
    simp only [wellShaped, Bool.and_eq_true] at hw
    simp only [constSize, Bool.and_eq_true, beq_iff_eq] at hc
    simp only [noBareEndZ, Bool.and_eq_true] at hz
    simp only [minSize]
    split at h
    · rename_i r1 hr1
      have hm1 := List.mem_of_mem_head? hr1
      have m1 := C13_min_sound c cnd hw.1.1 st r1 hm1
      have m2 := C13_min_sound c y hw.1.2 r1 r h
      have h1 := C13_const_exact c cnd hw.1.1 hc.1.1.1 hz.1.1 st r1 hm1 (by omega)
      have h2 := C13_const_exact c y hw.1.2 hc.1.1.2 hz.1.2 r1 r h (by omega)
      have hs := hc.2
      simp only [satAdd] at hs ⊢
      omega
    · have h3 := C13_const_exact c n hw.2 hc.1.2 hz.2 st r h hB
      have hs := hc.2
      omega
  | .subroutine g, _, _, _, st, r, h, _ => by simp [sem] at h
theorem const_exact_concat (c : Ctx) : ∀ (es : List Expr), wellShapedAll es = true →
    constSizeAll es = true → noBareEndZAll es = true → ∀ (st r : St),
    r ∈ semConcat c es st → r.ix ≤ st.ix + UNSET → r.ix = st.ix + minSizeSum es
  | [], _, _, _, st, r, h, _ => by simp [semConcat] at h; subst h; simp [minSizeSum]
  | e :: es, hw, hc, hz, st, r, h, hB => by
    simp only [semConcat, List.mem_flatMap] at h
    obtain ⟨r1, hr1, hr⟩ := h
    simp only [wellShapedAll, Bool.and_eq_true] at hw
    simp only [constSizeAll, Bool.and_eq_true] at hc
    simp only [noBareEndZAll, Bool.and_eq_true] at hz
    have m1 := C13_min_sound c e hw.1 st r1 hr1
    have m2 := min_sound_concat c es hw.2 r1 r hr
    have h1 := C13_const_exact c e hw.1 hc.1 hz.1 st r1 hr1 (by omega)
    have h2 := const_exact_concat c es hw.2 hc.2 hz.2 r1 r hr (by omega)
    simp only [minSizeSum, satAdd]
    omega
theorem const_exact_alt (c : Ctx) : ∀ (es : List Expr) (m : Nat), wellShapedAll es = true →
    constSizeAll es = true → allMinSize m es = true → noBareEndZAll es = true → ∀ (st r : St),
    r ∈ semAlt c es st → r.ix ≤ st.ix + UNSET → r.ix = st.ix + m
  | [], _, _, _, _, _, st, r, h, _ => by simp [semAlt] at h
  | e :: es, m, hw, hc, ha, hz, st, r, h, hB => by
    simp only [semAlt, List.mem_append] at h
    simp only [wellShapedAll, Bool.and_eq_true] at hw
    simp only [constSizeAll, Bool.and_eq_true] at hc
    simp only [allMinSize, Bool.and_eq_true, beq_iff_eq] at ha
    simp only [noBareEndZAll, Bool.and_eq_true] at hz
    rcases h with h | h
    · have := C13_const_exact c e hw.1 hc.1 hz.1 st r h hB
      omega
    · exact const_exact_alt c es m hw.2 hc.2 ha.2 hz.2 st r h hB
end

end Fancy
