import FancyModel.Proofs.C19b
/-!
# C14 (parser part) — `RegexBuilder::case_insensitive(true)` on `P` versus `(?i)P`

The builder option seeds the parser's `i` flag (`parse_with_case_insensitive(re, true)`, F9 repair);
Proofs/C14.lean left "equals `(?i)P`" to the metamorphic comparison because the parser was not
modelled.  With the parser model:

**The statement "`parseStr P true` and `parseStr ("(?i)" ++ P) false` succeed/fail together with
the same tree" is FALSE** — `C14_parse_flag_false_brace` (`P = {2}`: the builder form is three
literals, `(?i){2}` is `TargetNotRepeatable`; reproduced on the real crate),
`C14_parse_flag_false_backref` (`P = \\1`: the `group < re.len() / 2` bound moves with the four
prefix bytes), `C14_parse_flag_not_together`.

What holds, for every pattern that begins with `(?i)`:
* `parseAtom_i` / `parsePiece_i`: the flag group is an `Empty` atom of four bytes that sets the `i`
  flag and nothing else, and what follows it is read as *its quantifier* if it looks like one;
* `C14_flag_group_seeds`: otherwise the loop of `parse_branch` continues after the group in the
  state `{ flags := { casei := true } }`, which is literally the initial state of
  `parse_with_case_insensitive(re, true)`, and the group contributes no child (so the tree is the
  tree of `P`, not `Concat [Empty, …]`: `branchLoop` drops `Empty` pieces).
-/
namespace Fancy.Parse
open Fancy.Utf8 (codepointLen isLead)
open Fancy

/-! ## the statement as given is false: two witnesses -/

/-- **C14_parse_flag is FALSE as stated** (witness 1, also a divergence of the real crate):
    `P = {2}`.  With the builder option the parser reads `{`, `2`, `}` as three literals
    (`parse_atom` has no case for `{`), so the pattern builds and matches the text `{2}`.  In
    `(?i){2}` the flag group is an (empty) atom and `{2}` **is read as its quantifier**:
    `TargetNotRepeatable` at 6.  The two do not succeed/fail together. -/
theorem C14_parse_flag_false_brace :
    parseStr (fun c => c.isAlphanum) "{2}".toList true =
      .ok ⟨.concat [.literal ['{'] true, .literal ['2'] true, .literal ['}'] true], [], []⟩ ∧
    parseStr (fun c => c.isAlphanum) "(?i){2}".toList false = .err .targetNotRepeatable 6 :=
  ⟨isTree_sound (by decide +kernel), isErr_sound (by decide +kernel)⟩

/-- **witness 2**: `P = \\1`.  The parser rejects a back-reference `group ≥ re.len() / 2` ("protect
    BitSet against unreasonably large value"); the four bytes of `(?i)` raise that bound by 2, so
    `\\1` alone is `ParseError(1, InvalidBackref)` while `(?i)\\1` parses (and fails only later, in
    the analysis, with a different error: `CompileError(InvalidBackref)`) -/
theorem C14_parse_flag_false_backref :
    parseStr (fun c => c.isAlphanum) "\\1".toList true = .err .invalidBackref 1 ∧
    parseStr (fun c => c.isAlphanum) "(?i)\\1".toList false = .ok ⟨.backref 1, [1], []⟩ :=
  ⟨isErr_sound (by decide +kernel), isTree_sound (by decide +kernel)⟩

/-- hence no statement of the form "both succeed with related trees, or both fail" holds for all
    patterns -/
theorem C14_parse_flag_not_together :
    ¬ ∀ p : List Char,
      ((∃ t, parseStr (fun c => c.isAlphanum) p true = .ok t) ↔
       (∃ t, parseStr (fun c => c.isAlphanum) ("(?i)".toList ++ p) false = .ok t)) := by
  intro h
  have h1 := (h "{2}".toList).mp ⟨_, C14_parse_flag_false_brace.1⟩
  obtain ⟨t, ht⟩ := h1
  have : "(?i)".toList ++ "{2}".toList = "(?i){2}".toList := by decide
  rw [this, C14_parse_flag_false_brace.2] at ht
  cases ht

/-! ## what does hold: the flag group `(?i)` seeds exactly the builder's initial state -/

/-- `optional_whitespace` stops at a byte that is neither `#`, white space nor `(` — whatever the
    flags -/
theorem optWs_plain {re : Bytes} (fl : Flags) {ix b : Nat} (hg : re[ix]? = some b)
    (h1 : b ≠ ch '#') (h2 : b ≠ ch ' ') (h3 : b ≠ ch '\r') (h4 : b ≠ ch '\n') (h5 : b ≠ ch '\t')
    (h6 : b ≠ ch '(') : optWs re fl ix = .ok ix := by
  rw [optWs_step hg]
  have e1 : (b == ch '#') = false := by simpa using h1
  have e2 : (b == ch ' ') = false := by simpa using h2
  have e3 : (b == ch '\r') = false := by simpa using h3
  have e4 : (b == ch '\n') = false := by simpa using h4
  have e5 : (b == ch '\t') = false := by simpa using h5
  have e6 : (b == ch '(') = false := by simpa using h6
  simp only [e1, e2, e3, e4, e5, e6, Bool.false_and, Bool.or_self, Bool.false_eq_true, ↓reduceIte]

/-- the state after `(?i)` -/
def withI (st : PState) : PState := { st with flags := { st.flags with casei := true } }

/-- `parse_flags` on `?i)`: an `Empty` piece, three bytes, the `i` flag set, nothing else changed -/
theorem parseFlags_i (isAlnum : Char → Bool) {re : Bytes} (f : Nat) (st : PState) {ix : Nat} (d : Nat)
    (h1 : re[ix + 1]? = some (ch 'i')) (h2 : re[ix + 2]? = some (ch ')')) :
    parseFlags isAlnum (f + 1) re st ix d = .ok (ix + 3, .empty, withI st) := by
  have hlt := lt_size_of_get h2
  have w1 : ∀ fl, optWs re fl (ix + 1) = .ok (ix + 1) := fun fl =>
    optWs_plain fl h1 (by decide) (by decide) (by decide) (by decide) (by decide) (by decide)
  have w2 : ∀ fl, optWs re fl (ix + 1 + 1) = .ok (ix + 1 + 1) := fun fl =>
    optWs_plain fl h2 (by decide) (by decide) (by decide) (by decide) (by decide) (by decide)
  have n1 : (ix + 1 == re.size) = false := by simpa using (by omega : ix + 1 ≠ re.size)
  have n2 : (ix + 1 + 1 == re.size) = false := by simpa using (by omega : ix + 1 + 1 ≠ re.size)
  have hloop : flagsLoop (re.size + 2) re st.flags (ix + 1) (ix + 1) false =
      .ok (.close (ix + 2), { st.flags with casei := true }) := by
    rw [show re.size + 2 = (re.size) + 1 + 1 by omega, flagsLoop]
    simp only [w1, n1, Bool.false_eq_true, ↓reduceIte, h1]
    have c1 : (ch 'i' == ch 'i' || ch 'i' == ch 'm' || ch 'i' == ch 's' || ch 'i' == ch 'U' ||
      ch 'i' == ch 'x') = true := by decide
    simp only [c1, ↓reduceIte]
    rw [flagsLoop]
    simp only [w2, n2, Bool.false_eq_true, ↓reduceIte, h2]
    have c2 : (ch ')' == ch 'i' || ch ')' == ch 'm' || ch ')' == ch 's' || ch ')' == ch 'U' ||
      ch ')' == ch 'x') = false := by decide
    have c3 : (ch ')' == ch 'u') = false := by decide
    have c4 : (ch ')' == ch '-') = false := by decide
    have c5 : (ix + 1 + 1 == ix + 1) = false := by simp
    simp only [c2, c3, c4, c5, Bool.false_eq_true, ↓reduceIte, beq_self_eq_true, Bool.false_and,
      Bool.or_self]
    simp [updateFlag, ch]
  rw [parseFlags]
  simp only [hloop, Res.ok_bind, withI]

/-- `parse_group` on `(?i)` -/
theorem parseGroup_i (isAlnum : Char → Bool) {re : Bytes} (f : Nat) (st : PState) {ix : Nat} (d : Nat)
    (hd : d + 1 < Generated.maxRecursion)
    (h1 : re[ix + 1]? = some (ch '?')) (h2 : re[ix + 2]? = some (ch 'i'))
    (h3 : re[ix + 3]? = some (ch ')')) :
    parseGroup isAlnum (f + 2) re st ix d = .ok (ix + 4, .empty, withI st) := by
  have hws : optWs re st.flags (ix + 1) = .ok (ix + 1) :=
    optWs_plain _ h1 (by decide) (by decide) (by decide) (by decide) (by decide) (by decide)
  have hb : isBoundary re (ix + 1) = true := isBoundary_of_ascii h1 (by decide)
  have hfl := parseFlags_i isAlnum f st (ix := ix + 1) (d + 1) h2 h3
  have hd' : ¬ (d + 1 ≥ Generated.maxRecursion) := by omega
  have e1 : ch 'i' ≠ ch '=' := by decide
  have e2 : ch 'i' ≠ ch '!' := by decide
  have e3 : ch 'i' ≠ ch '<' := by decide
  have e4 : ch 'i' ≠ ch 'P' := by decide
  have e5 : ch 'i' ≠ ch '>' := by decide
  have e6 : ch 'i' ≠ ch '(' := by decide
  rw [parseGroup]
  simp [hd', hws, sliceFrom, sliceFromOk, hb, lookOf, startsWithAt, h1, h2, e1, e2, e3, e4, e5, e6, hfl]

/-- `parse_atom` at the `(` of `(?i)`: four bytes, an `Empty` atom, the `i` flag set -/
theorem parseAtom_i (isAlnum : Char → Bool) {re : Bytes} (f : Nat) (st : PState) {ix : Nat} (d : Nat)
    (hd : d + 1 < Generated.maxRecursion) (h0 : re[ix]? = some (ch '('))
    (h1 : re[ix + 1]? = some (ch '?')) (h2 : re[ix + 2]? = some (ch 'i'))
    (h3 : re[ix + 3]? = some (ch ')')) :
    parseAtom isAlnum (f + 3) re st ix d = .ok (ix + 4, .empty, withI st) := by
  have hlt := lt_size_of_get h0
  have hws : optWs re st.flags ix = .ok ix := by
    rw [optWs_step h0]
    have e1 : (ch '(' == ch '#') = false := by decide
    have e2 : (ch '(' == ch ' ' || ch '(' == ch '\r' || ch '(' == ch '\n' || ch '(' == ch '\t') = false := by
      decide
    have e3 : startsWithAt re ix [ch '(', ch '?', ch '#'] = false := by
      have : ch 'i' ≠ ch '#' := by decide
      simp [startsWithAt, h0, h1, h2, this]
    simp only [e1, e2, e3, Bool.false_and, Bool.and_false, Bool.false_eq_true, ↓reduceIte]
  have hne : (ix == re.size) = false := by simpa using (by omega : ix ≠ re.size)
  have c1 : (ch '(' == ch '.') = false := by decide
  have c2 : (ch '(' == ch '^') = false := by decide
  have c3 : (ch '(' == ch '$') = false := by decide
  rw [parseAtom]
  simp only [hws, Res.ok_bind, hne, Bool.false_eq_true, ↓reduceIte, byteAt, h0, c1, c2, c3,
    beq_self_eq_true]
  exact parseGroup_i isAlnum f st d hd h1 h2 h3

/-- `parse_piece` at `(?i)`: the flag group is an `Empty` atom that made progress, so whatever
    follows (after comments / free-spacing white space) **is read as its quantifier if it looks
    like one** — `TargetNotRepeatable`, the source of `C14_parse_flag_false_brace` — and otherwise
    the piece is `Empty` -/
theorem parsePiece_i (isAlnum : Char → Bool) {re : Bytes} (f : Nat) (st : PState) {ix ix' : Nat} (d : Nat)
    (hd : d + 1 < Generated.maxRecursion) (h0 : re[ix]? = some (ch '('))
    (h1 : re[ix + 1]? = some (ch '?')) (h2 : re[ix + 2]? = some (ch 'i'))
    (h3 : re[ix + 3]? = some (ch ')'))
    (hw : optWs re (withI st).flags (ix + 4) = .ok ix') :
    parsePiece isAlnum (f + 4) re st ix d =
      match re[ix']? with
      | none => .ok (ix', .empty, withI st)
      | some b =>
        quantAt re (withI st).flags ix' b >>= fun q =>
          match q with
          | none => .ok (ix', .empty, withI st)
          | some (_, _, qe) => .err .targetNotRepeatable qe := by
  rw [parsePiece_eq, parseAtom_i isAlnum f st d hd h0 h1 h2 h3]
  simp only [Res.ok_bind, hw]
  cases hg : re[ix']? with
  | none =>
    have : ¬ (ix' < re.size) := by
      intro h; rw [Array.getElem?_eq_none_iff] at hg; omega
    simp only [this, ↓reduceIte]
  | some b =>
    have hlt := lt_size_of_get hg
    simp only [hlt, ↓reduceIte, byteAt, hg, Res.ok_bind]
    congr 1

/-- **C14_flag_group_seeds**: in any pattern that begins with `(?i)` — in particular
    `"(?i)" ++ P` — the loop of `parse_branch` started at 0 in the parser's initial state (`{}`:
    what `Regex::new` starts with) continues, after the flag group, at the first byte `ix'` that
    `optional_whitespace` does not skip, in the state `{ flags := { casei := true } }` — which is
    **literally the initial state `parse_with_case_insensitive(re, true)` starts with** (what
    `RegexBuilder::case_insensitive(true)` seeds) — and the flag group contributes no child.
    Hypothesis `hq`: the byte at `ix'` does not read as a quantifier (`?`, `*`, `+`, or a `{n,m}`
    that `parse_repeat` accepts); without it the result is `TargetNotRepeatable` (`parsePiece_i`),
    which is how the full statement fails. -/
theorem C14_flag_group_seeds (isAlnum : Char → Bool) {re : Bytes} (f : Nat) {ix' : Nat}
    (h0 : re[0]? = some (ch '(')) (h1 : re[1]? = some (ch '?')) (h2 : re[2]? = some (ch 'i'))
    (h3 : re[3]? = some (ch ')'))
    (hw : optWs re { casei := true } 4 = .ok ix')
    (hq : ∀ b, re[ix']? = some b → quantAt re { casei := true } ix' b = .ok none) :
    branchLoop isAlnum (f + 5) re {} 0 0 =
      branchLoop isAlnum (f + 4) re { flags := { casei := true } } ix' 0 := by
  have hlt := lt_size_of_get h0
  have hge : 4 ≤ ix' := by
    have := (C06_optionalWhitespace_bounds re { casei := true } 4 (by have := lt_size_of_get h3; omega)).1
      ix' hw
    exact this.1
  have hp := parsePiece_i isAlnum f {} (ix := 0) (ix' := ix') 0 (by decide) h0 h1 h2 h3 hw
  have hp' : parsePiece isAlnum (f + 4) re {} 0 0 = .ok (ix', .empty, { flags := { casei := true } }) := by
    rw [hp]
    have e : (withI ({} : PState)).flags = { casei := true } := rfl
    rw [e]
    cases hg : re[ix']? with
    | none => rfl
    | some b => simp only [hq b hg, Res.ok_bind]; rfl
  have hne : (ix' == 0) = false := by simpa using (by omega : ix' ≠ 0)
  rw [branchLoop]
  simp only [hlt, ↓reduceIte, hp', Res.ok_bind, hne, Bool.false_eq_true, Expr.isEmpty]
  cases branchLoop isAlnum (f + 4) re { flags := { casei := true } } ix' 0 <;> rfl
end Fancy.Parse
