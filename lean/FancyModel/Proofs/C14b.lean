import FancyModel.Proofs.C15c
/-!
# C14 (parser part) — `RegexBuilder::case_insensitive(true)` on `P` versus `(?i)P`

The builder option seeds the parser's `i` flag (`parse_with_case_insensitive(re, true)`, F9 repair);
Proofs/C14.lean left "equals `(?i)P`" to the metamorphic comparison because the parser was not
modelled.  With the parser model:

**The statement "`parseStr P true` and `parseStr ("(?i)" ++ P) false` succeed/fail together with
the same tree" is FALSE** — `C14_parse_flag_false_brace` (`P = {2}`: the builder form is three
literals, `(?i){2}` is `TargetNotRepeatable`; reproduced on the real crate),
`C14_parse_flag_false_backref` (`P = \\1`: the `group < re.len() / 2` bound moves with the four
prefix bytes), `C14_parse_flag_not_together`.

**The corrected statement is proved**: `C14_parse_flag_partial` (readable forms
`C14_parse_flag_ok`, `C14_parse_flag_err`, `C14_parse_flag_conv`): if `P` does not begin with a
`(?#…)` comment nor with something `parse_piece` reads as a quantifier, the run on `P` with the
flag seeded and the run on `"(?i)" ++ P` give the same `ExprTree` / the same error four bytes
later / `NamedBackrefOnly` in both — up to the two length-dependent back-reference errors.  It rests
on the **shift invariance of the whole parser model** (`descSim`: all nine functions of the descent
and every leaf scanner, run on `re1` from `ix` against `pre ++ re1` from `ix + |pre|`, any fuels
`f` / `f + c`), which is the invariant "a run at offset `ix` of `P` against a run at offset
`ix + 4` of `(?i)P`".

What holds for every pattern that begins with `(?i)` (no side condition):
* `parseAtom_i` / `parsePiece_i`: the flag group is an `Empty` atom of four bytes that sets the `i`
  flag and nothing else, and what follows it is read as *its quantifier* if it looks like one;
* `C14_flag_group_seeds`: otherwise the loop of `parse_branch` continues after the group in the
  state `{ flags := { casei := true } }`, which is literally the initial state of
  `parse_with_case_insensitive(re, true)`, and the group contributes no child (so the tree is the
  tree of `P`, not `Concat [Empty, …]`: `branchLoop` drops `Empty` pieces).
-/
namespace Fancy.Parse
open Fancy.Utf8 (codepointLen isLead)
open Fancy

/-! ## the statement as given is false: two witnesses -/

/-- **C14_parse_flag is FALSE as stated** (witness 1, also a divergence of the real crate):
    `P = {2}`.  With the builder option the parser reads `{`, `2`, `}` as three literals
    (`parse_atom` has no case for `{`), so the pattern builds and matches the text `{2}`.  In
    `(?i){2}` the flag group is an (empty) atom and `{2}` **is read as its quantifier**:
    `TargetNotRepeatable` at 6.  The two do not succeed/fail together. -/
theorem C14_parse_flag_false_brace :
    parseStr (fun c => c.isAlphanum) "{2}".toList true =
      .ok ⟨.concat [.literal ['{'] true, .literal ['2'] true, .literal ['}'] true], [], []⟩ ∧
    parseStr (fun c => c.isAlphanum) "(?i){2}".toList false = .err .targetNotRepeatable 6 :=
  ⟨isTree_sound (by decide +kernel), isErr_sound (by decide +kernel)⟩

/-- **witness 2**: `P = \\1`.  The parser rejects a back-reference `group ≥ re.len() / 2` ("protect
    BitSet against unreasonably large value"); the four bytes of `(?i)` raise that bound by 2, so
    `\\1` alone is `ParseError(1, InvalidBackref)` while `(?i)\\1` parses (and fails only later, in
    the analysis, with a different error: `CompileError(InvalidBackref)`) -/
theorem C14_parse_flag_false_backref :
    parseStr (fun c => c.isAlphanum) "\\1".toList true = .err .invalidBackref 1 ∧
    parseStr (fun c => c.isAlphanum) "(?i)\\1".toList false = .ok ⟨.backref 1, [1], []⟩ :=
  ⟨isErr_sound (by decide +kernel), isTree_sound (by decide +kernel)⟩

/-- hence no statement of the form "both succeed with related trees, or both fail" holds for all
    patterns -/
theorem C14_parse_flag_not_together :
    ¬ ∀ p : List Char,
      ((∃ t, parseStr (fun c => c.isAlphanum) p true = .ok t) ↔
       (∃ t, parseStr (fun c => c.isAlphanum) ("(?i)".toList ++ p) false = .ok t)) := by
  intro h
  have h1 := (h "{2}".toList).mp ⟨_, C14_parse_flag_false_brace.1⟩
  obtain ⟨t, ht⟩ := h1
  have : "(?i)".toList ++ "{2}".toList = "(?i){2}".toList := by decide
  rw [this, C14_parse_flag_false_brace.2] at ht
  cases ht

/-! ## what does hold: the flag group `(?i)` seeds exactly the builder's initial state -/

/-- `optional_whitespace` stops at a byte that is neither `#`, white space nor `(` — whatever the
    flags -/
theorem optWs_plain {re : Bytes} (fl : Flags) {ix b : Nat} (hg : re[ix]? = some b)
    (h1 : b ≠ ch '#') (h2 : b ≠ ch ' ') (h3 : b ≠ ch '\r') (h4 : b ≠ ch '\n') (h5 : b ≠ ch '\t')
    (h6 : b ≠ ch '(') : optWs re fl ix = .ok ix := by
  rw [optWs_step hg]
  have e1 : (b == ch '#') = false := by simpa using h1
  have e2 : (b == ch ' ') = false := by simpa using h2
  have e3 : (b == ch '\r') = false := by simpa using h3
  have e4 : (b == ch '\n') = false := by simpa using h4
  have e5 : (b == ch '\t') = false := by simpa using h5
  have e6 : (b == ch '(') = false := by simpa using h6
  simp only [e1, e2, e3, e4, e5, e6, Bool.false_and, Bool.or_self, Bool.false_eq_true, ↓reduceIte]

/-- the state after `(?i)` -/
def withI (st : PState) : PState := { st with flags := { st.flags with casei := true } }

/-- `parse_flags` on `?i)`: an `Empty` piece, three bytes, the `i` flag set, nothing else changed -/
theorem parseFlags_i (isAlnum : Char → Bool) {re : Bytes} (f : Nat) (st : PState) {ix : Nat} (d : Nat)
    (h1 : re[ix + 1]? = some (ch 'i')) (h2 : re[ix + 2]? = some (ch ')')) :
    parseFlags isAlnum (f + 1) re st ix d = .ok (ix + 3, .empty, withI st) := by
  have hlt := lt_size_of_get h2
  have w1 : ∀ fl, optWs re fl (ix + 1) = .ok (ix + 1) := fun fl =>
    optWs_plain fl h1 (by decide) (by decide) (by decide) (by decide) (by decide) (by decide)
  have w2 : ∀ fl, optWs re fl (ix + 1 + 1) = .ok (ix + 1 + 1) := fun fl =>
    optWs_plain fl h2 (by decide) (by decide) (by decide) (by decide) (by decide) (by decide)
  have n1 : (ix + 1 == re.size) = false := by simpa using (by omega : ix + 1 ≠ re.size)
  have n2 : (ix + 1 + 1 == re.size) = false := by simpa using (by omega : ix + 1 + 1 ≠ re.size)
  have hloop : flagsLoop (re.size + 2) re st.flags (ix + 1) (ix + 1) false =
      .ok (.close (ix + 2), { st.flags with casei := true }) := by
    rw [show re.size + 2 = (re.size) + 1 + 1 by omega, flagsLoop]
    simp only [w1, n1, Bool.false_eq_true, ↓reduceIte, h1]
    have c1 : (ch 'i' == ch 'i' || ch 'i' == ch 'm' || ch 'i' == ch 's' || ch 'i' == ch 'U' ||
      ch 'i' == ch 'x') = true := by decide
    simp only [c1, ↓reduceIte]
    rw [flagsLoop]
    simp only [w2, n2, Bool.false_eq_true, ↓reduceIte, h2]
    have c2 : (ch ')' == ch 'i' || ch ')' == ch 'm' || ch ')' == ch 's' || ch ')' == ch 'U' ||
      ch ')' == ch 'x') = false := by decide
    have c3 : (ch ')' == ch 'u') = false := by decide
    have c4 : (ch ')' == ch '-') = false := by decide
    have c5 : (ix + 1 + 1 == ix + 1) = false := by simp
    simp only [c2, c3, c4, c5, Bool.false_eq_true, ↓reduceIte, beq_self_eq_true, Bool.false_and,
      Bool.or_self]
    simp [updateFlag, ch]
  rw [parseFlags]
  simp only [hloop, Res.ok_bind, withI]

/-- `parse_group` on `(?i)` -/
theorem parseGroup_i (isAlnum : Char → Bool) {re : Bytes} (f : Nat) (st : PState) {ix : Nat} (d : Nat)
    (hd : d + 1 < Generated.maxRecursion)
    (h1 : re[ix + 1]? = some (ch '?')) (h2 : re[ix + 2]? = some (ch 'i'))
    (h3 : re[ix + 3]? = some (ch ')')) :
    parseGroup isAlnum (f + 2) re st ix d = .ok (ix + 4, .empty, withI st) := by
  have hws : optWs re st.flags (ix + 1) = .ok (ix + 1) :=
    optWs_plain _ h1 (by decide) (by decide) (by decide) (by decide) (by decide) (by decide)
  have hb : isBoundary re (ix + 1) = true := isBoundary_of_ascii h1 (by decide)
  have hfl := parseFlags_i isAlnum f st (ix := ix + 1) (d + 1) h2 h3
  have hd' : ¬ (d + 1 ≥ Generated.maxRecursion) := by omega
  have e1 : ch 'i' ≠ ch '=' := by decide
  have e2 : ch 'i' ≠ ch '!' := by decide
  have e3 : ch 'i' ≠ ch '<' := by decide
  have e4 : ch 'i' ≠ ch 'P' := by decide
  have e5 : ch 'i' ≠ ch '>' := by decide
  have e6 : ch 'i' ≠ ch '(' := by decide
  rw [parseGroup]
  simp [hd', hws, sliceFrom, sliceFromOk, hb, lookOf, startsWithAt, h1, h2, e1, e2, e3, e4, e5, e6, hfl]

/-- `parse_atom` at the `(` of `(?i)`: four bytes, an `Empty` atom, the `i` flag set -/
theorem parseAtom_i (isAlnum : Char → Bool) {re : Bytes} (f : Nat) (st : PState) {ix : Nat} (d : Nat)
    (hd : d + 1 < Generated.maxRecursion) (h0 : re[ix]? = some (ch '('))
    (h1 : re[ix + 1]? = some (ch '?')) (h2 : re[ix + 2]? = some (ch 'i'))
    (h3 : re[ix + 3]? = some (ch ')')) :
    parseAtom isAlnum (f + 3) re st ix d = .ok (ix + 4, .empty, withI st) := by
  have hlt := lt_size_of_get h0
  have hws : optWs re st.flags ix = .ok ix := by
    rw [optWs_step h0]
    have e1 : (ch '(' == ch '#') = false := by decide
    have e2 : (ch '(' == ch ' ' || ch '(' == ch '\r' || ch '(' == ch '\n' || ch '(' == ch '\t') = false := by
      decide
    have e3 : startsWithAt re ix [ch '(', ch '?', ch '#'] = false := by
      have : ch 'i' ≠ ch '#' := by decide
      simp [startsWithAt, h0, h1, h2, this]
    simp only [e1, e2, e3, Bool.false_and, Bool.and_false, Bool.false_eq_true, ↓reduceIte]
  have hne : (ix == re.size) = false := by simpa using (by omega : ix ≠ re.size)
  have c1 : (ch '(' == ch '.') = false := by decide
  have c2 : (ch '(' == ch '^') = false := by decide
  have c3 : (ch '(' == ch '$') = false := by decide
  rw [parseAtom]
  simp only [hws, Res.ok_bind, hne, Bool.false_eq_true, ↓reduceIte, byteAt, h0, c1, c2, c3,
    beq_self_eq_true]
  exact parseGroup_i isAlnum f st d hd h1 h2 h3

/-- `parse_piece` at `(?i)`: the flag group is an `Empty` atom that made progress, so whatever
    follows (after comments / free-spacing white space) **is read as its quantifier if it looks
    like one** — `TargetNotRepeatable`, the source of `C14_parse_flag_false_brace` — and otherwise
    the piece is `Empty` -/
theorem parsePiece_i (isAlnum : Char → Bool) {re : Bytes} (f : Nat) (st : PState) {ix ix' : Nat} (d : Nat)
    (hd : d + 1 < Generated.maxRecursion) (h0 : re[ix]? = some (ch '('))
    (h1 : re[ix + 1]? = some (ch '?')) (h2 : re[ix + 2]? = some (ch 'i'))
    (h3 : re[ix + 3]? = some (ch ')'))
    (hw : optWs re (withI st).flags (ix + 4) = .ok ix') :
    parsePiece isAlnum (f + 4) re st ix d =
      match re[ix']? with
      | none => .ok (ix', .empty, withI st)
      | some b =>
        quantAt re (withI st).flags ix' b >>= fun q =>
          match q with
          | none => .ok (ix', .empty, withI st)
          | some (_, _, qe) => .err .targetNotRepeatable qe := by
  rw [parsePiece_eq, parseAtom_i isAlnum f st d hd h0 h1 h2 h3]
  simp only [Res.ok_bind, hw]
  cases hg : re[ix']? with
  | none =>
    have : ¬ (ix' < re.size) := by
      intro h; rw [Array.getElem?_eq_none_iff] at hg; omega
    simp only [this, ↓reduceIte]
  | some b =>
    have hlt := lt_size_of_get hg
    simp only [hlt, ↓reduceIte, byteAt, hg, Res.ok_bind]
    congr 1

/-- **C14_flag_group_seeds**: in any pattern that begins with `(?i)` — in particular
    `"(?i)" ++ P` — the loop of `parse_branch` started at 0 in the parser's initial state (`{}`:
    what `Regex::new` starts with) continues, after the flag group, at the first byte `ix'` that
    `optional_whitespace` does not skip, in the state `{ flags := { casei := true } }` — which is
    **literally the initial state `parse_with_case_insensitive(re, true)` starts with** (what
    `RegexBuilder::case_insensitive(true)` seeds) — and the flag group contributes no child.
    Hypothesis `hq`: the byte at `ix'` does not read as a quantifier (`?`, `*`, `+`, or a `{n,m}`
    that `parse_repeat` accepts); without it the result is `TargetNotRepeatable` (`parsePiece_i`),
    which is how the full statement fails. -/
theorem C14_flag_group_seeds (isAlnum : Char → Bool) {re : Bytes} (f : Nat) {ix' : Nat}
    (h0 : re[0]? = some (ch '(')) (h1 : re[1]? = some (ch '?')) (h2 : re[2]? = some (ch 'i'))
    (h3 : re[3]? = some (ch ')'))
    (hw : optWs re { casei := true } 4 = .ok ix')
    (hq : ∀ b, re[ix']? = some b → quantAt re { casei := true } ix' b = .ok none) :
    branchLoop isAlnum (f + 5) re {} 0 0 =
      branchLoop isAlnum (f + 4) re { flags := { casei := true } } ix' 0 := by
  have hlt := lt_size_of_get h0
  have hge : 4 ≤ ix' := by
    have := (C06_optionalWhitespace_bounds re { casei := true } 4 (by have := lt_size_of_get h3; omega)).1
      ix' hw
    exact this.1
  have hp := parsePiece_i isAlnum f {} (ix := 0) (ix' := ix') 0 (by decide) h0 h1 h2 h3 hw
  have hp' : parsePiece isAlnum (f + 4) re {} 0 0 = .ok (ix', .empty, { flags := { casei := true } }) := by
    rw [hp]
    have e : (withI ({} : PState)).flags = { casei := true } := rfl
    rw [e]
    cases hg : re[ix']? with
    | none => rfl
    | some b => simp only [hq b hg, Res.ok_bind]; rfl
  have hne : (ix' == 0) = false := by simpa using (by omega : ix' ≠ 0)
  rw [branchLoop]
  simp only [hlt, ↓reduceIte, hp', Res.ok_bind, hne, Bool.false_eq_true, Expr.isEmpty]
  cases branchLoop isAlnum (f + 4) re { flags := { casei := true } } ix' 0 <;> rfl
/-! ## shift invariance of the parser: a run on `re1` from `ix` against a run on
`re2 = pre ++ re1` from `ix + |pre|` -/

/-- `re2` is `re1` with `k` bytes in front, and `k` is a character boundary of `re2` -/
structure Shift (re1 re2 : Bytes) (k : Nat) : Prop where
  list : ∃ pre : List Nat, pre.length = k ∧ re2.toList = pre ++ re1.toList
  bnd0 : isBoundary re2 k = true

namespace Shift
variable {re1 re2 : Bytes} {k : Nat}

theorem size (S : Shift re1 re2 k) : re2.size = re1.size + k := by
  obtain ⟨pre, hk, h⟩ := S.list
  have := size_of_split h
  simp only [Array.length_toList] at this
  omega

theorem get (S : Shift re1 re2 k) (i : Nat) : re2[i + k]? = re1[i]? := by
  obtain ⟨pre, hk, h⟩ := S.list
  rw [← Array.getElem?_toList, h, ← hk, List.getElem?_append_right (by omega)]
  simp

theorem drop (S : Shift re1 re2 k) (i : Nat) : re2.toList.drop (i + k) = re1.toList.drop i := by
  obtain ⟨pre, hk, h⟩ := S.list
  rw [h, ← hk, Nat.add_comm, ← List.drop_drop]
  simp

theorem extract (S : Shift re1 re2 k) (a b : Nat) :
    (re2.extract (a + k) (b + k)).toList = (re1.extract a b).toList := by
  rw [Array.toList_extract, Array.toList_extract, List.extract_eq_take_drop, List.extract_eq_take_drop,
    S.drop, show b + k - (a + k) = b - a by omega]

theorem isBoundary (S : Shift re1 re2 k) (i : Nat) : isBoundary re2 (i + k) = isBoundary re1 i := by
  by_cases h0 : i = 0
  · subst h0
    rw [Nat.zero_add, S.bnd0, isBoundary_zero]
  · unfold Parse.isBoundary
    rw [S.get, S.size]
    have e1 : (i + k == 0) = false := by simpa using (by omega : i + k ≠ 0)
    have e2 : (i == 0) = false := by simpa using h0
    have e3 : (i + k == re1.size + k) = (i == re1.size) := by
      by_cases h : i = re1.size
      · subst h; simp
      · have h' : i + k ≠ re1.size + k := by omega
        rw [beq_false_of_ne h, beq_false_of_ne h']
    rw [e1, e2, e3]

theorem startsWithAt (S : Shift re1 re2 k) : ∀ (l : List Nat) (i : Nat),
    startsWithAt re2 (i + k) l = startsWithAt re1 i l := by
  intro l
  induction l with
  | nil => intro i; rfl
  | cons c cs ih =>
    intro i
    simp only [Parse.startsWithAt, S.get]
    rw [show i + k + 1 = i + 1 + k by omega, ih]

theorem lt_size (S : Shift re1 re2 k) (i : Nat) : (i + k < re2.size) = (i < re1.size) := by
  rw [S.size]; simp

theorem eq_size (S : Shift re1 re2 k) (i : Nat) : (i + k == re2.size) = (i == re1.size) := by
  rw [S.size]
  by_cases h : i = re1.size
  · subst h; simp
  · have h' : i + k ≠ re1.size + k := by omega
    rw [beq_false_of_ne h, beq_false_of_ne h']

end Shift

/-! ### the simulation relation -/

/-- the two errors whose occurrence depends on the length of the pattern (`group < re.len() / 2`) -/
def BadErr : PErr → Prop
  | .invalidBackref => True
  | .invalidGroupNameBackref _ => True
  | _ => False

/-- run 2 does what run 1 does, `k` bytes to the right: same value (shifted by `sh`), same error
    `k` bytes later — unless run 1 stops at a length-dependent back-reference error; nothing is
    claimed if run 1 panics or runs out of fuel (it never does, C06) -/
def SimB {α β : Type} (bad : PErr → Prop) (k : Nat) (sh : α → β) (r1 : Res α) (r2 : Res β) : Prop :=
  match r1 with
  | .ok a => r2 = .ok (sh a)
  | .err e p => bad e ∨ r2 = .err e (p + k)
  | .cerr => r2 = .cerr
  | .panic _ => True
  | .outOfFuel => True

/-- the simulation up to the length-dependent back-reference errors -/
abbrev Sim {α β : Type} (k : Nat) (sh : α → β) (r1 : Res α) (r2 : Res β) : Prop := SimB BadErr k sh r1 r2

theorem SimB.bind {α β α' β' : Type} {bad : PErr → Prop} {k : Nat} {sh : α → α'} {sh' : β → β'} {x1 : Res α} {x2 : Res α'}
    {f1 : α → Res β} {f2 : α' → Res β'} (hx : SimB bad k sh x1 x2)
    (hf : ∀ a, SimB bad k sh' (f1 a) (f2 (sh a))) : SimB bad k sh' (x1 >>= f1) (x2 >>= f2) := by
  cases x1 with
  | ok a => simp only [SimB] at hx; subst hx; exact hf a
  | err e p =>
    simp only [SimB] at hx
    rcases hx with h | h
    · exact Or.inl h
    · subst h; exact Or.inr rfl
  | cerr => simp only [SimB] at hx; subst hx; rfl
  | panic s => trivial
  | outOfFuel => trivial

theorem SimB.ite {α β : Type} {bad : PErr → Prop} {k : Nat} {sh : α → β} {c1 c2 : Prop} [Decidable c1] [Decidable c2]
    {t1 e1 : Res α} {t2 e2 : Res β} (hc : c2 ↔ c1) (ht : c1 → SimB bad k sh t1 t2)
    (he : ¬ c1 → SimB bad k sh e1 e2) : SimB bad k sh (if c1 then t1 else e1) (if c2 then t2 else e2) := by
  by_cases h : c1
  · rw [if_pos h, if_pos (hc.mpr h)]; exact ht h
  · rw [if_neg h, if_neg (fun h2 => h (hc.mp h2))]; exact he h

theorem SimB.ok {α β : Type} {bad : PErr → Prop} {k : Nat} {sh : α → β} (a : α) : SimB bad k sh (.ok a) (.ok (sh a)) := rfl
theorem SimB.ok' {α β : Type} {bad : PErr → Prop} {k : Nat} {sh : α → β} {a : α} {b : β} (h : b = sh a) :
    SimB bad k sh (.ok a) (.ok b) := by subst h; rfl
theorem SimB.err' {α β : Type} {bad : PErr → Prop} {k : Nat} {sh : α → β} {e : PErr} {p q : Nat} (h : q = p + k) :
    SimB bad k sh (.err e p : Res α) (.err e q : Res β) := by subst h; exact Or.inr rfl
theorem SimB.pure {α β : Type} {bad : PErr → Prop} {k : Nat} {sh : α → β} (a : α) :
    SimB bad k sh (pure a : Res α) (pure (sh a) : Res β) := rfl
theorem SimB.err {α β : Type} {bad : PErr → Prop} {k : Nat} {sh : α → β} (e : PErr) (p : Nat) :
    SimB bad k sh (.err e p : Res α) (.err e (p + k) : Res β) := Or.inr rfl
theorem SimB.panic {α β : Type} {bad : PErr → Prop} {k : Nat} {sh : α → β} (s : String) (r2 : Res β) :
    SimB bad k sh (.panic s : Res α) r2 := trivial

theorem SimB.mono {α β : Type} {bad : PErr → Prop} {k : Nat} {sh sh' : α → β} {r1 : Res α} {r2 : Res β}
    (h : SimB bad k sh r1 r2) (hs : ∀ a, sh a = sh' a) : SimB bad k sh' r1 r2 := by
  have : sh = sh' := funext hs
  subst this; exact h

/-! ### leaves -/
section leaves
variable {re1 re2 : Bytes} {k : Nat} {bad : PErr → Prop}

theorem sliceOk_shift (S : Shift re1 re2 k) (a b : Nat) : sliceOk re2 (a + k) (b + k) = sliceOk re1 a b := by
  unfold sliceOk
  rw [S.isBoundary, S.isBoundary, S.size]
  have e1 : decide (a + k ≤ b + k) = decide (a ≤ b) := by simp
  have e2 : decide (b + k ≤ re1.size + k) = decide (b ≤ re1.size) := by simp
  rw [e1, e2]

theorem slice_shift (S : Shift re1 re2 k) (a b : Nat) (site : String) :
    slice re2 (a + k) (b + k) site = slice re1 a b site := by
  unfold slice
  rw [sliceOk_shift S, S.extract]

theorem sliceFrom_shift (S : Shift re1 re2 k) (a : Nat) (site : String) :
    sliceFrom re2 (a + k) site = sliceFrom re1 a site := by
  unfold sliceFrom sliceFromOk
  rw [S.isBoundary]

theorem byteAt_shift (S : Shift re1 re2 k) (i : Nat) (site : String) :
    byteAt re2 (i + k) site = byteAt re1 i site := by
  unfold byteAt
  rw [S.get]

/-- index shift on an optional `(index, value)` -/
def shOpt2 (k : Nat) : Option (Nat × Nat) → Option (Nat × Nat) := Option.map fun p => (p.1 + k, p.2)

theorem sim_parseDecimal (S : Shift re1 re2 k) (ix : Nat) :
    SimB bad k (shOpt2 k) (parseDecimal re1 ix) (parseDecimal re2 (ix + k)) := by
  unfold parseDecimal
  simp only [S.drop]
  generalize (re1.toList.drop ix).takeWhile isDigit = ds
  rw [show ix + k + ds.length = ix + ds.length + k by omega, sliceOk_shift S]
  split
  · exact SimB.panic _ _
  · split
    · exact SimB.ok _
    · split
      · exact SimB.ok _
      · exact SimB.ok _

/-- the comment loop: same steps; run 2 may have more fuel -/
theorem sim_skipComment (S : Shift re1 re2 k) : ∀ (f c ix : Nat),
    SimB bad k (· + k) (skipComment f re1 ix) (skipComment (f + c) re2 (ix + k)) := by
  intro f
  induction f with
  | zero => intro c ix; trivial
  | succ f ih =>
    intro c ix
    rw [show f + 1 + c = (f + c) + 1 by omega, skipComment, skipComment]
    refine SimB.ite (by rw [S.size]; omega) (fun _ => ?_) (fun _ => ?_)
    · rw [S.size]; exact SimB.err _ _
    · rw [S.get]
      cases re1[ix]? with
      | none => exact SimB.panic _ _
      | some b =>
        simp only
        refine SimB.ite Iff.rfl (fun _ => SimB.ok' (by omega)) (fun _ => ?_)
        refine SimB.ite Iff.rfl (fun _ => ?_) (fun _ => ?_)
        · rw [show ix + k + 2 = ix + 2 + k by omega]; exact ih c (ix + 2)
        · rw [show ix + k + 1 = ix + 1 + k by omega]; exact ih c (ix + 1)

/-- `optional_whitespace`: same steps; run 2 may have more fuel -/
theorem sim_optionalWhitespace (S : Shift re1 re2 k) (fl : Flags) : ∀ (f c ix : Nat),
    SimB bad k (· + k) (optionalWhitespace f re1 fl ix) (optionalWhitespace (f + c) re2 fl (ix + k)) := by
  intro f
  induction f with
  | zero => intro c ix; trivial
  | succ f ih =>
    intro c ix
    rw [show f + 1 + c = (f + c) + 1 by omega, optionalWhitespace, optionalWhitespace]
    rw [S.eq_size, S.get, S.drop, S.size]
    split
    · exact SimB.ok _
    · cases re1[ix]? with
      | none => exact SimB.panic _ _
      | some b =>
        simp only
        refine SimB.ite Iff.rfl (fun _ => ?_) (fun _ => ?_)
        · cases (re1.toList.drop ix).findIdx? (· == 10) with
          | none => exact SimB.ok _
          | some x =>
            simp only
            rw [show ix + k + x + 1 = ix + x + 1 + k by omega]; exact ih c _
        refine SimB.ite Iff.rfl (fun _ => ?_) (fun _ => ?_)
        · rw [show ix + k + 1 = ix + 1 + k by omega]; exact ih c _
        rw [show Parse.startsWithAt re2 (ix + k) [ch '(', ch '?', ch '#'] =
          Parse.startsWithAt re1 ix [ch '(', ch '?', ch '#'] from S.startsWithAt _ _]
        refine SimB.ite Iff.rfl (fun _ => ?_) (fun _ => SimB.ok _)
        have hsc := sim_skipComment (bad := bad) S (re1.size + 1) k (ix + 3)
        rw [show ix + 3 + k = ix + k + 3 by omega, show re1.size + 1 + k = re1.size + k + 1 by omega] at hsc
        generalize skipComment (re1.size + 1) re1 (ix + 3) = x1 at hsc ⊢
        generalize skipComment (re1.size + k + 1) re2 (ix + k + 3) = x2 at hsc ⊢
        cases x1 with
        | ok a => simp only [SimB] at hsc; subst hsc; exact ih c a
        | err e p =>
          rcases hsc with h | h
          · exact Or.inl h
          · subst h; exact Or.inr rfl
        | cerr => simp only [SimB] at hsc; subst hsc; rfl
        | panic s => trivial
        | outOfFuel => trivial

theorem sim_optWs (S : Shift re1 re2 k) (fl : Flags) (ix : Nat) :
    SimB bad k (· + k) (optWs re1 fl ix) (optWs re2 fl (ix + k)) := by
  unfold optWs
  rw [S.size, show re1.size + k + 2 = re1.size + 2 + k by omega]
  exact sim_optionalWhitespace S fl _ _ _

theorem Shift.beq_size (S : Shift re1 re2 k) (i : Nat) : (i + k == re2.size) = true ↔ (i == re1.size) = true := by
  rw [S.eq_size]

theorem sim_byteAt (re : Bytes) (k i : Nat) (site : String) :
    SimB bad k id (byteAt re i site) (byteAt re i site) := by
  unfold byteAt
  cases re[i]? with
  | none => trivial
  | some b => rfl

theorem sim_parseRepeat (S : Shift re1 re2 k) (fl : Flags) (ix : Nat) :
    SimB bad k (fun r => (r.1 + k, r.2)) (parseRepeat re1 fl ix) (parseRepeat re2 fl (ix + k)) := by
  unfold parseRepeat
  rw [show ix + k + 1 = ix + 1 + k by omega]
  refine SimB.bind (sim_optWs S fl _) (fun ix1 => ?_)
  try dsimp only
  refine SimB.ite (S.beq_size ix1) (fun _ => SimB.err _ _) (fun _ => ?_)
  rw [byteAt_shift S]
  refine SimB.bind (sim_byteAt re1 k ix1 _) (fun b => ?_)
  try dsimp only [id]
  refine SimB.bind (sh := fun p : Nat × Nat => (p.1, p.2 + k)) ?_ (fun lo_end => ?_)
  · refine SimB.ite Iff.rfl (fun _ => SimB.pure _) (fun _ => ?_)
    refine SimB.bind (sim_parseDecimal S ix1) (fun r => ?_)
    cases r with
    | none => exact SimB.err _ _
    | some p => exact SimB.pure _
  refine SimB.bind (sim_optWs S fl _) (fun ix2 => ?_)
  try dsimp only
  refine SimB.ite (S.beq_size ix2) (fun _ => SimB.err _ _) (fun _ => ?_)
  rw [byteAt_shift S]
  refine SimB.bind (sim_byteAt re1 k ix2 _) (fun b2 => ?_)
  try dsimp only [id]
  refine SimB.bind (sh := fun p : Nat × Nat => (p.1, p.2 + k)) ?_ (fun hi_end => ?_)
  · refine SimB.ite Iff.rfl (fun _ => SimB.pure _) (fun _ => ?_)
    refine SimB.ite Iff.rfl (fun _ => ?_) (fun _ => SimB.err _ _)
    rw [show ix2 + k + 1 = ix2 + 1 + k by omega]
    refine SimB.bind (sim_optWs S fl _) (fun e => ?_)
    try dsimp only
    refine SimB.bind (sim_parseDecimal S e) (fun r => ?_)
    cases r with
    | none => exact SimB.pure _
    | some p => exact SimB.pure _
  try dsimp only
  refine SimB.bind (sim_optWs S fl _) (fun ix3 => ?_)
  try dsimp only
  refine SimB.ite (S.beq_size ix3) (fun _ => SimB.err _ _) (fun _ => ?_)
  rw [byteAt_shift S]
  refine SimB.bind (sim_byteAt re1 k ix3 _) (fun b3 => ?_)
  try dsimp only [id]
  refine SimB.ite Iff.rfl (fun _ => SimB.err _ _) (fun _ => SimB.ok' (by rw [show ix3 + k + 1 = ix3 + 1 + k by omega]))

theorem decodeAt_shift (S : Shift re1 re2 k) (ix b : Nat) : decodeAt re2 (ix + k) b = decodeAt re1 ix b := by
  unfold decodeAt
  dsimp only
  rw [show ix + k + codepointLen b = ix + codepointLen b + k by omega, S.extract]

theorem sim_findNot (S : Shift re1 re2 k) (pred : Char → Bool) : ∀ (f c ix : Nat),
    Sim k (Option.map (· + k)) (findNot pred f re1 ix) (findNot pred (f + c) re2 (ix + k)) := by
  intro f
  induction f with
  | zero => intro c ix; trivial
  | succ f ih =>
    intro c ix
    rw [show f + 1 + c = (f + c) + 1 by omega, findNot, findNot, S.get]
    cases re1[ix]? with
    | none => exact SimB.ok _
    | some b =>
      simp only [decodeAt_shift S]
      split
      · rw [show ix + k + (decodeAt re1 ix b).2 = ix + (decodeAt re1 ix b).2 + k by omega]
        exact ih c _
      · exact SimB.ok _

/-- shift of the result of `parse_id` -/
def shId (k : Nat) : Option (Nat × Nat × Nat) → Option (Nat × Nat × Nat) :=
  Option.map fun t => (t.1 + k, t.2.1 + k, t.2.2)

theorem sim_sliceFrom (re : Bytes) (k a : Nat) (site : String) :
    Sim k id (sliceFrom re a site) (sliceFrom re a site) := by
  unfold sliceFrom
  split
  · rfl
  · trivial

theorem sim_parseId (S : Shift re1 re2 k) (isAlnum : Char → Bool) (base : Nat) (open_ close : List Nat)
    (allowRel : Bool) :
    Sim k (shId k) (parseId isAlnum re1 base open_ close allowRel)
      (parseId isAlnum re2 (base + k) open_ close allowRel) := by
  unfold parseId
  dsimp only
  refine SimB.ite Iff.rfl (fun _ => trivial) (fun _ => ?_)
  · rw [S.startsWithAt]
    refine SimB.ite Iff.rfl (fun _ => SimB.ok _) (fun _ => ?_)
    · rw [show base + k + open_.length = base + open_.length + k by omega, sliceFrom_shift S]
      refine SimB.bind (sim_sliceFrom _ _ _ _) (fun _ => ?_)
      rw [S.get, S.size]
      refine SimB.bind (sh := Option.map (· + k)) ?_ (fun afterId => ?_)
      · split
        · rw [show base + open_.length + k + 1 = base + open_.length + 1 + k by omega,
            show re1.size + k + 1 = re1.size + 1 + k by omega]
          exact sim_findNot S _ _ _ _
        · rw [show re1.size + k + 1 = re1.size + 1 + k by omega]
          exact sim_findNot S _ _ _ _
      refine SimB.bind (sh := id) ?_ (fun idLen => ?_)
      · cases afterId with
        | none =>
          simp only [Option.map_none]
          split
          · rw [show re1.size + k - (base + k) = re1.size - base by omega]; rfl
          · rfl
        | some p =>
          simp only [Option.map_some]
          rw [sliceFrom_shift S]
          refine SimB.bind (sim_sliceFrom _ _ _ _) (fun _ => ?_)
          rw [S.startsWithAt]
          split
          · rw [show p + k - (base + open_.length + k) = p - (base + open_.length) by omega]; rfl
          · rfl
      try dsimp only [id]
      cases idLen with
      | none => exact SimB.ok _
      | some l =>
        cases l with
        | zero => exact SimB.ok _
        | succ l =>
          simp only
          rw [show base + open_.length + k + (l + 1) = base + open_.length + (l + 1) + k by omega,
            sliceOk_shift S]
          split
          · trivial
          · refine SimB.ok' ?_
            simp only [shId, Option.map_some]
            rw [show base + open_.length + (l + 1) + k - (base + k) =
              base + open_.length + (l + 1) - base by omega]

/-- shift of the result of a descent function -/
def sh3 (k : Nat) : Nat × Expr × PState → Nat × Expr × PState := fun r => (r.1 + k, r.2.1, r.2.2)

theorem half_le (S : Shift re1 re2 k) : re1.size / 2 ≤ re2.size / 2 := by
  rw [S.size]; omega

theorem sim_parseNumberedBackref (S : Shift re1 re2 k) (st : PState) (ix : Nat) (kind : RefKind) :
    Sim k (sh3 k) (parseNumberedBackref re1 st ix kind) (parseNumberedBackref re2 st (ix + k) kind) := by
  unfold parseNumberedBackref
  refine SimB.bind (sim_parseDecimal S ix) (fun r => ?_)
  cases r with
  | none => exact Or.inl trivial
  | some p =>
    obtain ⟨e, g⟩ := p
    simp only [shOpt2, Option.map_some]
    have := half_le S
    by_cases hg : g < re1.size / 2
    · rw [if_pos hg, if_pos (by omega)]; rfl
    · rw [if_neg hg]; exact Or.inl trivial

theorem sim_parseNamedBackref (S : Shift re1 re2 k) (isAlnum : Char → Bool) (st : PState) (ix : Nat)
    (open_ close : List Nat) (allowRel : Bool) (kind : RefKind) :
    Sim k (sh3 k) (parseNamedBackref isAlnum re1 st ix open_ close allowRel kind)
      (parseNamedBackref isAlnum re2 st (ix + k) open_ close allowRel kind) := by
  unfold parseNamedBackref
  rw [sliceFrom_shift S]
  refine SimB.bind (sim_sliceFrom _ _ _ _) (fun _ => ?_)
  refine SimB.bind (sim_parseId S isAlnum ix open_ close allowRel) (fun r => ?_)
  cases r with
  | none => exact SimB.err _ _
  | some t =>
    obtain ⟨a, b, skip⟩ := t
    simp only [shId, Option.map_some, S.extract]
    have key : ∀ group : Option Nat, Sim k (sh3 k)
        (match group.filter (fun g => decide (g < re1.size / 2)) with
          | some g => Res.ok (ix + skip, kind.mk g, { st with backrefs := bitsetInsert st.backrefs g })
          | none => Res.err (.invalidGroupNameBackref (re1.extract a b).toList) ix)
        (match group.filter (fun g => decide (g < re2.size / 2)) with
          | some g => Res.ok (ix + k + skip, kind.mk g, { st with backrefs := bitsetInsert st.backrefs g })
          | none => Res.err (.invalidGroupNameBackref (re1.extract a b).toList) (ix + k)) := by
      intro group
      have := half_le S
      cases group with
      | none => exact Or.inl trivial
      | some g =>
        by_cases hg : g < re1.size / 2
        · have h1 : (some g).filter (fun g => decide (g < re1.size / 2)) = some g := by simp [hg]
          have h2 : (some g).filter (fun g => decide (g < re2.size / 2)) = some g := by
            simp; omega
          rw [h1, h2]
          exact SimB.ok' (by simp only [sh3]; rw [show ix + k + skip = ix + skip + k by omega])
        · have h1 : (some g).filter (fun g => decide (g < re1.size / 2)) = none := by simp; omega
          rw [h1]; exact Or.inl trivial
    exact key _

theorem sim_hexBraceLoop (S : Shift re1 re2 k) (ix s : Nat) : ∀ (f e : Nat),
    Sim k (· + k) (hexBraceLoop f re1 ix s e) (hexBraceLoop f re2 (ix + k) (s + k) (e + k)) := by
  intro f
  induction f with
  | zero => intro e; trivial
  | succ f ih =>
    intro e
    rw [hexBraceLoop, hexBraceLoop, S.eq_size, S.get]
    split
    · exact SimB.err _ _
    · cases re1[e]? with
      | none => trivial
      | some b =>
        simp only
        have e1 : decide (e + k > s + k) = decide (e > s) := by simp
        have e2 : decide (e + k < s + k + 8) = decide (e < s + 8) := by
          by_cases h : e < s + 8
          · simp [h]; omega
          · simp [h]; omega
        rw [e1, e2]
        refine SimB.ite Iff.rfl (fun _ => SimB.ok _) (fun _ => ?_)
        refine SimB.ite Iff.rfl (fun _ => ?_) (fun _ => SimB.err _ _)
        rw [show e + k + 1 = e + 1 + k by omega]
        exact ih _

theorem sim_slice (re : Bytes) (k a b : Nat) (site : String) :
    Sim k id (slice re a b site) (slice re a b site) := by
  unfold slice
  split
  · rfl
  · trivial

theorem sim_parseHex (S : Shift re1 re2 k) (fl : Flags) (ix digits : Nat) :
    Sim k (fun r : Nat × Expr => (r.1 + k, r.2)) (parseHex re1 fl ix digits)
      (parseHex re2 fl (ix + k) digits) := by
  unfold parseHex
  refine SimB.ite (by rw [S.size]; omega) (fun _ => SimB.err _ _) (fun _ => ?_)
  rw [byteAt_shift S]
  refine SimB.bind (sim_byteAt re1 k ix _) (fun b => ?_)
  try dsimp only [id]
  refine SimB.bind (sh := fun p : Nat × List Nat => (p.1 + k, p.2)) ?_ (fun es => ?_)
  · rw [show ix + k + digits = ix + digits + k by omega, S.extract, S.size, slice_shift S]
    have e1 : decide (ix + digits + k ≤ re1.size + k) = decide (ix + digits ≤ re1.size) := by simp
    rw [e1]
    refine SimB.ite Iff.rfl (fun _ => ?_) (fun _ => ?_)
    · refine SimB.bind (sim_slice _ _ _ _ _) (fun s => ?_)
      exact SimB.pure _
    refine SimB.ite Iff.rfl (fun _ => ?_) (fun _ => SimB.err _ _)
    try dsimp only
    rw [show ix + k + 1 = ix + 1 + k by omega]
    refine SimB.bind (sim_hexBraceLoop S ix (ix + 1) 16 (ix + 1)) (fun e => ?_)
    try dsimp only
    rw [slice_shift S]
    refine SimB.bind (sim_slice _ _ _ _ _) (fun s => ?_)
    exact SimB.ok' (by rw [show e + k + 1 = e + 1 + k by omega]; rfl)
  try dsimp only
  cases parseHexU32 es.2 with
  | none => trivial
  | some cp =>
    simp only
    refine SimB.ite Iff.rfl (fun _ => SimB.ok _) (fun _ => SimB.err _ _)

theorem sim_uniNameLoop (S : Shift re1 re2 k) (ix : Nat) : ∀ (f c e : Nat),
    Sim k (· + k) (uniNameLoop f re1 ix e) (uniNameLoop (f + c) re2 (ix + k) (e + k)) := by
  intro f
  induction f with
  | zero => intro c e; trivial
  | succ f ih =>
    intro c e
    rw [show f + 1 + c = (f + c) + 1 by omega, uniNameLoop, uniNameLoop, S.eq_size, S.get]
    split
    · exact SimB.err _ _
    · cases re1[e]? with
      | none => trivial
      | some b =>
        simp only
        refine SimB.ite Iff.rfl (fun _ => SimB.ok' (by omega)) (fun _ => ?_)
        rw [show e + k + codepointLen b = e + codepointLen b + k by omega]
        exact ih _ _

theorem SimB.ok3 {bad : PErr → Prop} {k : Nat} {a b : Nat} {e : Expr} {st : PState} (h : b = a + k) :
    SimB bad k (sh3 k) (.ok (a, e, st)) (.ok (b, e, st)) := by subst h; rfl

theorem sim_parseEscape (S : Shift re1 re2 k) (isAlnum : Char → Bool) (st : PState) (ix : Nat)
    (inClass : Bool) :
    Sim k (sh3 k) (parseEscape isAlnum re1 st ix inClass) (parseEscape isAlnum re2 st (ix + k) inClass) := by
  unfold parseEscape
  rw [show ix + k + 1 = ix + 1 + k by omega, S.get]
  cases re1[ix + 1]? with
  | none => exact SimB.err _ _
  | some b =>
    simp only
    rw [show ix + 1 + k + codepointLen b = ix + 1 + codepointLen b + k by omega]
    generalize ix + 1 + codepointLen b = e
    rw [S.get, S.eq_size]
    have hne : (e + k != re2.size) = (e != re1.size) := by
      unfold bne; rw [S.eq_size]
    rw [hne]
    have hnamed : ∀ (o c : List Nat) (kind : RefKind),
        Sim k (sh3 k) (parseNamedBackref isAlnum re1 st e o c true kind)
          (parseNamedBackref isAlnum re2 st (e + k) o c true kind) :=
      fun o c kind => sim_parseNamedBackref S isAlnum st e o c true kind
    have hok : ∀ (x : Expr), Sim k (sh3 k) (.ok (e, x, st)) (.ok (e + k, x, st)) := fun x => SimB.ok3 rfl
    have hhex : ∀ digits, Sim k (sh3 k)
        (do let (e', x) ← parseHex re1 st.flags e digits; Res.ok (e', x, st))
        (do let (e', x) ← parseHex re2 st.flags (e + k) digits; Res.ok (e', x, st)) := by
      intro digits
      refine SimB.bind (sim_parseHex S st.flags e digits) (fun r => ?_)
      obtain ⟨e', x⟩ := r
      exact SimB.ok3 rfl
    -- digit
    refine SimB.ite Iff.rfl (fun _ => sim_parseNumberedBackref S st (ix + 1) _) (fun _ => ?_)
    -- \k
    refine SimB.ite Iff.rfl (fun _ => ?_) (fun _ => ?_)
    · exact SimB.ite Iff.rfl (fun _ => hnamed _ _ _) (fun _ => hnamed _ _ _)
    -- \A \z \Z
    refine SimB.ite Iff.rfl (fun _ => hok _) (fun _ => ?_)
    refine SimB.ite Iff.rfl (fun _ => hok _) (fun _ => ?_)
    refine SimB.ite Iff.rfl (fun _ => hok _) (fun _ => ?_)
    -- \b
    refine SimB.ite Iff.rfl (fun _ => ?_) (fun _ => ?_)
    · refine SimB.ite Iff.rfl (fun _ => ?_) (fun _ => hok _)
      rw [slice_shift S]
      exact SimB.bind (sim_slice _ _ _ _ _) (fun s => SimB.err _ _)
    -- \B
    refine SimB.ite Iff.rfl (fun _ => ?_) (fun _ => ?_)
    · refine SimB.ite Iff.rfl (fun _ => ?_) (fun _ => hok _)
      rw [slice_shift S]
      exact SimB.bind (sim_slice _ _ _ _ _) (fun s => SimB.err _ _)
    -- \< \>
    refine SimB.ite Iff.rfl (fun _ => hok _) (fun _ => ?_)
    refine SimB.ite Iff.rfl (fun _ => hok _) (fun _ => ?_)
    -- \d \s \w
    refine SimB.ite Iff.rfl (fun _ => ?_) (fun _ => ?_)
    · rw [slice_shift S]
      exact SimB.bind (sim_slice _ _ _ _ _) (fun s => hok _)
    -- \h
    refine SimB.ite Iff.rfl (fun _ => hok _) (fun _ => ?_)
    -- \x \u \U
    refine SimB.ite Iff.rfl (fun _ => hhex 2) (fun _ => ?_)
    refine SimB.ite Iff.rfl (fun _ => hhex 4) (fun _ => ?_)
    refine SimB.ite Iff.rfl (fun _ => hhex 8) (fun _ => ?_)
    -- \p
    refine SimB.ite Iff.rfl (fun _ => ?_) (fun _ => ?_)
    · rw [byteAt_shift S]
      refine SimB.bind (sim_byteAt re1 k e _) (fun b2 => ?_)
      try dsimp only [id]
      refine SimB.bind (sh := (· + k)) ?_ (fun e2 => ?_)
      · refine SimB.ite Iff.rfl (fun _ => ?_) (fun _ => SimB.ok' (by omega))
        rw [S.size, show re1.size + k + 1 = re1.size + 1 + k by omega,
          show e + k + codepointLen b2 = e + codepointLen b2 + k by omega]
        exact sim_uniNameLoop S ix _ _ _
      try dsimp only
      rw [slice_shift S]
      exact SimB.bind (sim_slice _ _ _ _ _) (fun s => SimB.ok3 rfl)
    -- \K \G
    refine SimB.ite Iff.rfl (fun _ => hok _) (fun _ => ?_)
    refine SimB.ite Iff.rfl (fun _ => hok _) (fun _ => ?_)
    -- \g
    refine SimB.ite Iff.rfl (fun _ => ?_) (fun _ => ?_)
    · refine SimB.ite Iff.rfl (fun _ => SimB.err _ _) (fun _ => ?_)
      rw [byteAt_shift S]
      refine SimB.bind (sim_byteAt re1 k e _) (fun b2 => ?_)
      try dsimp only [id]
      refine SimB.ite Iff.rfl (fun _ => sim_parseNumberedBackref S st e _) (fun _ => ?_)
      exact SimB.ite Iff.rfl (fun _ => hnamed _ _ _) (fun _ => hnamed _ _ _)
    -- single letters
    refine SimB.ite Iff.rfl (fun _ => hok _) (fun _ => ?_)
    refine SimB.ite Iff.rfl (fun _ => hok _) (fun _ => ?_)
    refine SimB.ite Iff.rfl (fun _ => hok _) (fun _ => ?_)
    refine SimB.ite Iff.rfl (fun _ => hok _) (fun _ => ?_)
    refine SimB.ite Iff.rfl (fun _ => hok _) (fun _ => ?_)
    refine SimB.ite Iff.rfl (fun _ => hok _) (fun _ => ?_)
    refine SimB.ite Iff.rfl (fun _ => hok _) (fun _ => ?_)
    refine SimB.ite Iff.rfl (fun _ => hok _) (fun _ => ?_)
    refine SimB.ite Iff.rfl (fun _ => hok _) (fun _ => ?_)
    rw [slice_shift S]
    refine SimB.bind (sim_slice _ _ _ _ _) (fun s => ?_)
    exact SimB.ite Iff.rfl (fun _ => SimB.err _ _) (fun _ => hok _)

/-- shift of the result of the class loop -/
def shC (k : Nat) : Nat × List Char × PState → Nat × List Char × PState := fun r => (r.1 + k, r.2)

theorem sim_classLoop (S : Shift re1 re2 k) (isAlnum : Char → Bool) : ∀ (f c : Nat) (st : PState)
    (ix : Nat) (nest : Int) (rcls : List Char),
    Sim k (shC k) (classLoop isAlnum f re1 st ix nest rcls)
      (classLoop isAlnum (f + c) re2 st (ix + k) nest rcls) := by
  intro f
  induction f with
  | zero => intro c st ix nest rcls; trivial
  | succ f ih =>
    intro c st ix nest rcls
    rw [show f + 1 + c = (f + c) + 1 by omega, classLoop, classLoop, S.eq_size, S.get]
    split
    · exact SimB.err _ _
    · cases re1[ix]? with
      | none => trivial
      | some b =>
        simp only
        refine SimB.ite Iff.rfl (fun _ => ?_) (fun _ => ?_)
        · have hesc := sim_parseEscape S isAlnum st ix true
          generalize parseEscape isAlnum re1 st ix true = x1 at hesc ⊢
          generalize parseEscape isAlnum re2 st (ix + k) true = x2 at hesc ⊢
          cases x1 with
          | ok r =>
            obtain ⟨end_, e, st'⟩ := r
            simp only [SimB, sh3] at hesc; subst hesc
            simp only
            cases e with
            | literal val ci =>
              simp only
              split
              · trivial
              · exact ih _ _ _ _ _
            | delegate inner size ci => exact ih _ _ _ _ _
            | _ => exact SimB.err _ _
          | err e p =>
            rcases hesc with h | h
            · exact Or.inl h
            · subst h; exact Or.inr rfl
          | cerr => simp only [SimB] at hesc; subst hesc; rfl
          | panic s => trivial
          | outOfFuel => trivial
        refine SimB.ite Iff.rfl (fun _ => ?_) (fun _ => ?_)
        · rw [show ix + k + 1 = ix + 1 + k by omega]; exact ih _ _ _ _ _
        refine SimB.ite Iff.rfl (fun _ => ?_) (fun _ => ?_)
        · refine SimB.ite Iff.rfl (fun _ => SimB.ok _) (fun _ => ?_)
          rw [show ix + k + 1 = ix + 1 + k by omega]; exact ih _ _ _ _ _
        · rw [show ix + k + codepointLen b = ix + codepointLen b + k by omega, slice_shift S]
          by_cases hs : sliceOk re1 ix (ix + codepointLen b) = true
          · simp only [slice, hs, ↓reduceIte]
            exact ih _ _ _ _ _
          · simp only [slice, hs, Bool.false_eq_true, ↓reduceIte]
            trivial

theorem sim_parseClass (S : Shift re1 re2 k) (isAlnum : Char → Bool) (st : PState) (ix : Nat) :
    Sim k (sh3 k) (parseClass isAlnum re1 st ix) (parseClass isAlnum re2 st (ix + k)) := by
  unfold parseClass
  dsimp only
  rw [show ix + k + 1 = ix + 1 + k by omega, S.get]
  by_cases h1 : (re1[ix + 1]? == some (ch '^')) = true
  · simp only [h1, ↓reduceIte]
    rw [show ix + 1 + k + 1 = ix + 1 + 1 + k by omega, S.get]
    by_cases h2 : (re1[ix + 1 + 1]? == some (ch ']')) = true
    · simp only [h2, ↓reduceIte]
      rw [show ix + 1 + 1 + k + 1 = ix + 1 + 1 + 1 + k by omega, S.size,
        show re1.size + k + 2 = re1.size + 2 + k by omega]
      refine SimB.bind (sim_classLoop S isAlnum _ _ st _ 1 _) (fun r => ?_)
      obtain ⟨i, r, s⟩ := r
      exact SimB.ok3 (by simp only [shC]; omega)
    · simp only [h2, Bool.false_eq_true, ↓reduceIte]
      rw [S.size, show re1.size + k + 2 = re1.size + 2 + k by omega]
      refine SimB.bind (sim_classLoop S isAlnum _ _ st _ 1 _) (fun r => ?_)
      obtain ⟨i, r, s⟩ := r
      exact SimB.ok3 (by simp only [shC]; omega)
  · simp only [h1, Bool.false_eq_true, ↓reduceIte]
    rw [S.get]
    by_cases h2 : (re1[ix + 1]? == some (ch ']')) = true
    · simp only [h2, ↓reduceIte]
      rw [show ix + 1 + k + 1 = ix + 1 + 1 + k by omega, S.size,
        show re1.size + k + 2 = re1.size + 2 + k by omega]
      refine SimB.bind (sim_classLoop S isAlnum _ _ st _ 1 _) (fun r => ?_)
      obtain ⟨i, r, s⟩ := r
      exact SimB.ok3 (by simp only [shC]; omega)
    · simp only [h2, Bool.false_eq_true, ↓reduceIte]
      rw [S.size, show re1.size + k + 2 = re1.size + 2 + k by omega]
      refine SimB.bind (sim_classLoop S isAlnum _ _ st _ 1 _) (fun r => ?_)
      obtain ⟨i, r, s⟩ := r
      exact SimB.ok3 (by simp only [shC]; omega)

theorem sim_checkForCloseParen (S : Shift re1 re2 k) (fl : Flags) (ix : Nat) :
    Sim k (· + k) (checkForCloseParen re1 fl ix) (checkForCloseParen re2 fl (ix + k)) := by
  unfold checkForCloseParen
  refine SimB.bind (sim_optWs S fl ix) (fun ix1 => ?_)
  try dsimp only
  refine SimB.ite (S.beq_size ix1) (fun _ => SimB.err _ _) (fun _ => ?_)
  rw [byteAt_shift S]
  refine SimB.bind (sim_byteAt re1 k ix1 _) (fun b => ?_)
  try dsimp only [id]
  exact SimB.ite Iff.rfl (fun _ => SimB.err _ _) (fun _ => SimB.ok' (by omega))

/-- `unknown_flag` builds the same error value -/
theorem unknownFlag_shift (S : Shift re1 re2 k) (start e : Nat) :
    unknownFlag re2 (start + k) (e + k) = unknownFlag re1 start e := by
  unfold unknownFlag
  rw [byteAt_shift S]
  cases byteAt re1 e "unknown_flag: bytes[end]" with
  | ok b =>
    simp only [Res.ok_bind]
    rw [show e + k + codepointLen b = e + codepointLen b + k by omega, slice_shift S]
  | _ => rfl

/-- shift of where the letter loop of `parse_flags` stops -/
def shFE (k : Nat) : FlagsEnd × Flags → FlagsEnd × Flags
  | (.close i, fl) => (.close (i + k), fl)
  | (.colon i, fl) => (.colon (i + k), fl)

theorem sim_flagsLoop (S : Shift re1 re2 k) (start : Nat) : ∀ (f c : Nat) (fl : Flags) (ix : Nat)
    (neg : Bool),
    Sim k (shFE k) (flagsLoop f re1 fl start ix neg) (flagsLoop (f + c) re2 fl (start + k) (ix + k) neg) := by
  intro f
  induction f with
  | zero => intro c fl ix neg; trivial
  | succ f ih =>
    intro c fl ix neg
    rw [show f + 1 + c = (f + c) + 1 by omega, flagsLoop, flagsLoop]
    have hws := sim_optWs (bad := BadErr) S fl ix
    generalize optWs re1 fl ix = x1 at hws ⊢
    generalize optWs re2 fl (ix + k) = x2 at hws ⊢
    cases x1 with
    | ok ix1 =>
      simp only [SimB] at hws; subst hws
      simp only
      rw [S.eq_size, S.get, unknownFlag_shift S]
      have uf : Sim k (shFE k)
          (match unknownFlag re1 start ix1 with
            | .ok e => .err e start
            | .err k p => .err k p | .cerr => .cerr | .panic s => .panic s | .outOfFuel => .outOfFuel)
          (match unknownFlag re1 start ix1 with
            | .ok e => .err e (start + k)
            | .err k p => .err k p | .cerr => .cerr | .panic s => .panic s | .outOfFuel => .outOfFuel) := by
        unfold unknownFlag byteAt
        cases re1[ix1]? with
        | none => trivial
        | some b =>
          simp only [Res.ok_bind]
          by_cases hs : sliceOk re1 start (ix1 + codepointLen b) = true
          · simp only [slice, hs, ↓reduceIte, Res.ok_bind]
            exact SimB.err _ _
          · simp only [slice, hs, Bool.false_eq_true, ↓reduceIte]
            trivial
      have next : ∀ fl' neg', Sim k (shFE k) (flagsLoop f re1 fl' start (ix1 + 1) neg')
          (flagsLoop (f + c) re2 fl' (start + k) (ix1 + k + 1) neg') := by
        intro fl' neg'
        rw [show ix1 + k + 1 = ix1 + 1 + k by omega]; exact ih _ _ _ _
      split
      · exact SimB.err _ _
      · cases re1[ix1]? with
        | none => trivial
        | some b =>
          simp only
          refine SimB.ite Iff.rfl (fun _ => next _ _) (fun _ => ?_)
          refine SimB.ite Iff.rfl (fun _ => ?_) (fun _ => ?_)
          · exact SimB.ite Iff.rfl (fun _ => SimB.err _ _) (fun _ => next _ _)
          refine SimB.ite Iff.rfl (fun _ => ?_) (fun _ => ?_)
          · exact SimB.ite Iff.rfl (fun _ => uf) (fun _ => next _ _)
          have e1 : (ix1 + k == start + k) = (ix1 == start) := by
            by_cases h : ix1 = start
            · subst h; simp
            · have h' : ix1 + k ≠ start + k := by omega
              rw [beq_false_of_ne h, beq_false_of_ne h']
          have e2 : (ix1 + k == start + k + 1) = (ix1 == start + 1) := by
            by_cases h : ix1 = start + 1
            · subst h
              rw [show start + 1 + k = start + k + 1 by omega]; simp
            · have h' : ix1 + k ≠ start + k + 1 := by omega
              rw [beq_false_of_ne h, beq_false_of_ne h']
          rw [e1, e2]
          refine SimB.ite Iff.rfl (fun _ => ?_) (fun _ => ?_)
          · exact SimB.ite Iff.rfl (fun _ => uf) (fun _ => SimB.ok _)
          refine SimB.ite Iff.rfl (fun _ => ?_) (fun _ => uf)
          exact SimB.ite Iff.rfl (fun _ => uf) (fun _ => SimB.ok _)
    | err e p =>
      rcases hws with h | h
      · exact Or.inl h
      · subst h; exact Or.inr rfl
    | cerr => simp only [SimB] at hws; subst hws; rfl
    | panic s => trivial
    | outOfFuel => trivial

theorem lookOf_shift (S : Shift re1 re2 k) (ix : Nat) : lookOf re2 (ix + k) = lookOf re1 ix := by
  unfold lookOf
  simp only [S.startsWithAt]

end leaves

/-! ### the descent -/
section descent
variable {re1 re2 : Bytes} {k : Nat} {isAlnum : Char → Bool}

/-- shift of the result of the two loops of the descent -/
def shL (k : Nat) : Nat × List Expr × PState → Nat × List Expr × PState := fun r => (r.1 + k, r.2.1, r.2.2)

/-- the induction hypothesis: all nine functions, run 1 with fuel `f`, run 2 with fuel `f + c` -/
structure DescSim (re1 re2 : Bytes) (k : Nat) (isAlnum : Char → Bool) (f c : Nat) : Prop where
  re_ : ∀ st ix d, Sim k (sh3 k) (parseRe isAlnum f re1 st ix d) (parseRe isAlnum (f + c) re2 st (ix + k) d)
  alt_ : ∀ st ix d, Sim k (shL k) (reAltLoop isAlnum f re1 st ix d) (reAltLoop isAlnum (f + c) re2 st (ix + k) d)
  branch_ : ∀ st ix d,
    Sim k (sh3 k) (parseBranch isAlnum f re1 st ix d) (parseBranch isAlnum (f + c) re2 st (ix + k) d)
  bloop_ : ∀ st ix d,
    Sim k (shL k) (branchLoop isAlnum f re1 st ix d) (branchLoop isAlnum (f + c) re2 st (ix + k) d)
  piece_ : ∀ st ix d,
    Sim k (sh3 k) (parsePiece isAlnum f re1 st ix d) (parsePiece isAlnum (f + c) re2 st (ix + k) d)
  atom_ : ∀ st ix d,
    Sim k (sh3 k) (parseAtom isAlnum f re1 st ix d) (parseAtom isAlnum (f + c) re2 st (ix + k) d)
  group_ : ∀ st ix d,
    Sim k (sh3 k) (parseGroup isAlnum f re1 st ix d) (parseGroup isAlnum (f + c) re2 st (ix + k) d)
  flags_ : ∀ st ix d,
    Sim k (sh3 k) (parseFlags isAlnum f re1 st ix d) (parseFlags isAlnum (f + c) re2 st (ix + k) d)
  cond_ : ∀ st ix d,
    Sim k (sh3 k) (parseConditional isAlnum f re1 st ix d)
      (parseConditional isAlnum (f + c) re2 st (ix + k) d)

theorem sstep_parseRe (S : Shift re1 re2 k) {f c : Nat} (h : DescSim re1 re2 k isAlnum f c)
    (st : PState) (ix d : Nat) :
    Sim k (sh3 k) (parseRe isAlnum (f + 1) re1 st ix d) (parseRe isAlnum (f + 1 + c) re2 st (ix + k) d) := by
  rw [show f + 1 + c = (f + c) + 1 by omega, parseRe, parseRe]
  refine SimB.bind (h.branch_ st ix d) (fun r => ?_)
  obtain ⟨ix1, child, st1⟩ := r
  simp only [sh3]
  refine SimB.bind (sim_optWs S _ ix1) (fun ix2 => ?_)
  try dsimp only
  rw [sliceFrom_shift S]
  refine SimB.bind (sim_sliceFrom _ _ _ _) (fun _ => ?_)
  rw [S.get]
  refine SimB.ite Iff.rfl (fun _ => ?_) (fun _ => ?_)
  · refine SimB.bind (h.alt_ st1 ix2 d) (fun r => ?_)
    obtain ⟨ix3, rest, st3⟩ := r
    exact SimB.ok3 rfl
  · try dsimp only
    exact SimB.ite Iff.rfl (fun _ => rfl) (fun _ => SimB.ok3 rfl)

theorem sstep_reAltLoop (S : Shift re1 re2 k) {f c : Nat} (h : DescSim re1 re2 k isAlnum f c)
    (st : PState) (ix d : Nat) :
    Sim k (shL k) (reAltLoop isAlnum (f + 1) re1 st ix d)
      (reAltLoop isAlnum (f + 1 + c) re2 st (ix + k) d) := by
  rw [show f + 1 + c = (f + c) + 1 by omega, reAltLoop, reAltLoop, sliceFrom_shift S]
  refine SimB.bind (sim_sliceFrom _ _ _ _) (fun _ => ?_)
  rw [S.get]
  refine SimB.ite Iff.rfl (fun _ => ?_) (fun _ => SimB.ok' rfl)
  rw [show ix + k + 1 = ix + 1 + k by omega]
  refine SimB.bind (h.branch_ st (ix + 1) d) (fun r => ?_)
  obtain ⟨ix1, child, st1⟩ := r
  simp only [sh3]
  refine SimB.bind (sim_optWs S _ ix1) (fun ix2 => ?_)
  try dsimp only
  refine SimB.bind (h.alt_ st1 ix2 d) (fun r => ?_)
  obtain ⟨ix3, rest, st3⟩ := r
  exact SimB.ok' rfl

theorem sstep_parseBranch {f c : Nat} (h : DescSim re1 re2 k isAlnum f c)
    (st : PState) (ix d : Nat) :
    Sim k (sh3 k) (parseBranch isAlnum (f + 1) re1 st ix d)
      (parseBranch isAlnum (f + 1 + c) re2 st (ix + k) d) := by
  rw [show f + 1 + c = (f + c) + 1 by omega, parseBranch, parseBranch]
  refine SimB.bind (h.bloop_ st ix d) (fun r => ?_)
  obtain ⟨ix1, children, st1⟩ := r
  simp only [shL]
  match children with
  | [] => exact SimB.ok3 rfl
  | [_] => exact SimB.ok3 rfl
  | _ :: _ :: _ => exact SimB.ok3 rfl

theorem sstep_branchLoop (S : Shift re1 re2 k) {f c : Nat} (h : DescSim re1 re2 k isAlnum f c)
    (st : PState) (ix d : Nat) :
    Sim k (shL k) (branchLoop isAlnum (f + 1) re1 st ix d)
      (branchLoop isAlnum (f + 1 + c) re2 st (ix + k) d) := by
  rw [show f + 1 + c = (f + c) + 1 by omega, branchLoop, branchLoop]
  refine SimB.ite (by rw [S.size]; omega) (fun _ => ?_) (fun _ => SimB.ok' rfl)
  refine SimB.bind (h.piece_ st ix d) (fun r => ?_)
  obtain ⟨next, child, st1⟩ := r
  simp only [sh3]
  refine SimB.ite (by simp) (fun _ => SimB.ok' rfl) (fun _ => ?_)
  refine SimB.bind (h.bloop_ st1 next d) (fun r => ?_)
  obtain ⟨ix3, rest, st3⟩ := r
  exact SimB.ok' rfl

/-- shift of the quantifier read by `parse_piece` -/
def shQ (k : Nat) : Option (Nat × Nat × Nat) → Option (Nat × Nat × Nat) :=
  Option.map fun q => (q.1, q.2.1, q.2.2 + k)

theorem sim_quantAt (S : Shift re1 re2 k) (fl : Flags) (ix b : Nat) :
    Sim k (shQ k) (quantAt re1 fl ix b) (quantAt re2 fl (ix + k) b) := by
  unfold quantAt
  refine SimB.ite Iff.rfl (fun _ => SimB.pure _) (fun _ => ?_)
  refine SimB.ite Iff.rfl (fun _ => SimB.pure _) (fun _ => ?_)
  refine SimB.ite Iff.rfl (fun _ => SimB.pure _) (fun _ => ?_)
  refine SimB.ite Iff.rfl (fun _ => ?_) (fun _ => SimB.pure _)
  have hrep := sim_parseRepeat (bad := fun _ => False) S fl ix
  generalize parseRepeat re1 fl ix = x1 at hrep ⊢
  generalize parseRepeat re2 fl (ix + k) = x2 at hrep ⊢
  cases x1 with
  | ok r =>
    obtain ⟨next, lo, hi⟩ := r
    simp only [SimB] at hrep; subst hrep
    simp only
    by_cases hz : next = 0
    · subst hz; simp only [beq_self_eq_true, ↓reduceIte]; trivial
    · have e1 : (next == 0) = false := by simpa using hz
      have e2 : (next + k == 0) = false := by simpa using (by omega : next + k ≠ 0)
      simp only [e1, e2, Bool.false_eq_true, ↓reduceIte]
      exact SimB.ok' (by simp only [shQ, Option.map_some]; rw [show next + k - 1 = next - 1 + k by omega])
  | err e p =>
    rcases hrep with h | h
    · exact h.elim
    · subst h; exact SimB.pure _
  | cerr => simp only [SimB] at hrep; subst hrep; exact SimB.pure _
  | panic s => trivial
  | outOfFuel => trivial

theorem lazyAt_shift (S : Shift re1 re2 k) (ix : Nat) : lazyAt re2 (ix + k) = lazyAt re1 ix := by
  unfold lazyAt
  rw [S.get, S.size]
  have : decide (ix + k < re1.size + k) = decide (ix < re1.size) := by simp
  rw [this]

theorem afterLazy_shift (S : Shift re1 re2 k) (ix : Nat) : afterLazy re2 (ix + k) = afterLazy re1 ix + k := by
  unfold afterLazy
  rw [lazyAt_shift S]
  split <;> omega

theorem repNode_shift (S : Shift re1 re2 k) (st : PState) (child : Expr) (lo hi ix : Nat) :
    repNode re2 st child lo hi (ix + k) = repNode re1 st child lo hi ix := by
  unfold repNode
  rw [lazyAt_shift S]

theorem sstep_parsePiece (S : Shift re1 re2 k) {f c : Nat} (h : DescSim re1 re2 k isAlnum f c)
    (st : PState) (ix d : Nat) :
    Sim k (sh3 k) (parsePiece isAlnum (f + 1) re1 st ix d)
      (parsePiece isAlnum (f + 1 + c) re2 st (ix + k) d) := by
  rw [show f + 1 + c = (f + c) + 1 by omega, parsePiece_eq, parsePiece_eq]
  refine SimB.bind (h.atom_ st ix d) (fun r => ?_)
  obtain ⟨ix1, child, st1⟩ := r
  simp only [sh3]
  refine SimB.bind (sim_optWs S _ ix1) (fun ix2 => ?_)
  try dsimp only
  refine SimB.ite (by rw [S.size]; omega) (fun _ => ?_) (fun _ => SimB.ok3 rfl)
  rw [byteAt_shift S]
  refine SimB.bind (sim_byteAt re1 k ix2 _) (fun b => ?_)
  try dsimp only [id]
  refine SimB.bind (sim_quantAt S st1.flags ix2 b) (fun q => ?_)
  cases q with
  | none => exact SimB.ok3 rfl
  | some p =>
    obtain ⟨lo, hi, qe⟩ := p
    simp only [shQ, Option.map_some]
    refine SimB.ite Iff.rfl (fun _ => SimB.err _ _) (fun _ => ?_)
    rw [show qe + k + 1 = qe + 1 + k by omega]
    refine SimB.bind (sim_optWs S _ (qe + 1)) (fun ix3 => ?_)
    try dsimp only
    rw [afterLazy_shift S, S.get, repNode_shift S]
    refine SimB.ite Iff.rfl (fun _ => SimB.ok3 (by omega)) (fun _ => SimB.ok3 rfl)

theorem sstep_parseAtom (S : Shift re1 re2 k) {f c : Nat} (h : DescSim re1 re2 k isAlnum f c)
    (st : PState) (ix d : Nat) :
    Sim k (sh3 k) (parseAtom isAlnum (f + 1) re1 st ix d)
      (parseAtom isAlnum (f + 1 + c) re2 st (ix + k) d) := by
  rw [show f + 1 + c = (f + c) + 1 by omega, parseAtom, parseAtom]
  refine SimB.bind (sim_optWs S _ ix) (fun ix1 => ?_)
  try dsimp only
  refine SimB.ite (S.beq_size ix1) (fun _ => SimB.ok3 rfl) (fun _ => ?_)
  rw [byteAt_shift S]
  refine SimB.bind (sim_byteAt re1 k ix1 _) (fun b => ?_)
  try dsimp only [id]
  refine SimB.ite Iff.rfl (fun _ => SimB.ok3 (by omega)) (fun _ => ?_)
  refine SimB.ite Iff.rfl (fun _ => SimB.ok3 (by omega)) (fun _ => ?_)
  refine SimB.ite Iff.rfl (fun _ => SimB.ok3 (by omega)) (fun _ => ?_)
  refine SimB.ite Iff.rfl (fun _ => h.group_ st ix1 d) (fun _ => ?_)
  refine SimB.ite Iff.rfl (fun _ => sim_parseEscape S isAlnum st ix1 false) (fun _ => ?_)
  refine SimB.ite Iff.rfl (fun _ => SimB.ok3 rfl) (fun _ => ?_)
  refine SimB.ite Iff.rfl (fun _ => sim_parseClass S isAlnum st ix1) (fun _ => ?_)
  try dsimp only
  rw [show ix1 + k + codepointLen b = ix1 + codepointLen b + k by omega, slice_shift S]
  exact SimB.bind (sim_slice _ _ _ _ _) (fun s => SimB.ok3 rfl)

/-- the local closure `body` of `parse_group` -/
def groupBody (isAlnum : Char → Bool) (f : Nat) (re : Bytes) (ix depth : Nat) (la : Option Look)
    (skip : Nat) (st : PState) : Res (Nat × Expr × PState) := do
  let ix := ix + skip
  let (ix, child, st) ← parseRe isAlnum f re st ix depth
  let ix ← checkForCloseParen re st.flags ix
  match la with
  | some la => .ok (ix, .look child la, st)
  | none => if skip == 2 then .ok (ix, .atomic child, st) else .ok (ix, .group 0 child, st)

/-- `parse_group` with its closure named -/
theorem parseGroup_eq (isAlnum : Char → Bool) (re : Bytes) (f : Nat) (st : PState) (ix depth : Nat) :
    parseGroup isAlnum (f + 1) re st ix depth = (do
      if depth + 1 ≥ Generated.maxRecursion then .err .recursionExceeded ix
      else
        let ix ← optWs re st.flags (ix + 1)
        sliceFrom re ix "parse_group: self.re[ix..]"
        match lookOf re ix with
        | some (la, skip) => groupBody isAlnum f re ix (depth + 1) (some la) skip st
        | none =>
          if startsWithAt re ix [ch '?', ch '<'] then
            let st := { st with currGroup := st.currGroup + 1 }
            sliceFrom re (ix + 1) "parse_group: self.re[ix + 1..]"
            match ← parseId isAlnum re (ix + 1) [ch '<'] [ch '>'] false with
            | some (a, b, skip) =>
              let st := { st with namedGroups := namedInsert st.namedGroups (re.extract a b).toList st.currGroup }
              groupBody isAlnum f re ix (depth + 1) none (skip + 1) st
            | none => .err .invalidGroupName ix
          else if startsWithAt re ix [ch '?', ch 'P', ch '<'] then
            let st := { st with currGroup := st.currGroup + 1 }
            sliceFrom re (ix + 2) "parse_group: self.re[ix + 2..]"
            match ← parseId isAlnum re (ix + 2) [ch '<'] [ch '>'] false with
            | some (a, b, skip) =>
              let st := { st with namedGroups := namedInsert st.namedGroups (re.extract a b).toList st.currGroup }
              groupBody isAlnum f re ix (depth + 1) none (skip + 2) st
            | none => .err .invalidGroupName ix
          else if startsWithAt re ix [ch '?', ch 'P', ch '='] then
            parseNamedBackref isAlnum re st (ix + 3) [] [ch ')'] false .backref
          else if startsWithAt re ix [ch '?', ch '>'] then groupBody isAlnum f re ix (depth + 1) none 2 st
          else if startsWithAt re ix [ch '?', ch '('] then
            parseConditional isAlnum f re st (ix + 2) (depth + 1)
          else if startsWithAt re ix [ch '?', ch 'P', ch '>'] then
            parseNamedBackref isAlnum re st (ix + 3) [] [ch ')'] false .subroutine
          else if startsWithAt re ix [ch '?'] then parseFlags isAlnum f re st ix (depth + 1)
          else groupBody isAlnum f re ix (depth + 1) none 0 { st with currGroup := st.currGroup + 1 }) := by
  rw [parseGroup]
  rfl

theorem sim_groupBody (S : Shift re1 re2 k) {f c : Nat} (h : DescSim re1 re2 k isAlnum f c)
    (ix d : Nat) (la : Option Look) (skip : Nat) (st : PState) :
    Sim k (sh3 k) (groupBody isAlnum f re1 ix d la skip st)
      (groupBody isAlnum (f + c) re2 (ix + k) d la skip st) := by
  unfold groupBody
  dsimp only
  rw [show ix + k + skip = ix + skip + k by omega]
  refine SimB.bind (h.re_ st (ix + skip) d) (fun r => ?_)
  obtain ⟨ix2, child, st2⟩ := r
  simp only [sh3]
  refine SimB.bind (sim_checkForCloseParen S _ ix2) (fun ix3 => ?_)
  try dsimp only
  cases la with
  | some la => exact SimB.ok3 rfl
  | none => exact SimB.ite Iff.rfl (fun _ => SimB.ok3 rfl) (fun _ => SimB.ok3 rfl)

theorem sstep_parseGroup (S : Shift re1 re2 k) {f c : Nat} (h : DescSim re1 re2 k isAlnum f c)
    (st : PState) (ix d : Nat) :
    Sim k (sh3 k) (parseGroup isAlnum (f + 1) re1 st ix d)
      (parseGroup isAlnum (f + 1 + c) re2 st (ix + k) d) := by
  rw [show f + 1 + c = (f + c) + 1 by omega, parseGroup_eq, parseGroup_eq]
  refine SimB.ite Iff.rfl (fun _ => SimB.err _ _) (fun _ => ?_)
  rw [show ix + k + 1 = ix + 1 + k by omega]
  refine SimB.bind (sim_optWs S _ (ix + 1)) (fun ix1 => ?_)
  try dsimp only
  rw [sliceFrom_shift S]
  refine SimB.bind (sim_sliceFrom _ _ _ _) (fun _ => ?_)
  rw [lookOf_shift S]
  cases lookOf re1 ix1 with
  | some p =>
    obtain ⟨la, skip⟩ := p
    exact sim_groupBody S h ix1 (d + 1) _ _ _
  | none =>
    simp only [S.startsWithAt]
    -- (?<name>
    refine SimB.ite Iff.rfl (fun _ => ?_) (fun _ => ?_)
    · rw [show ix1 + k + 1 = ix1 + 1 + k by omega, sliceFrom_shift S]
      refine SimB.bind (sim_sliceFrom _ _ _ _) (fun _ => ?_)
      refine SimB.bind (sim_parseId S isAlnum (ix1 + 1) _ _ _) (fun r => ?_)
      cases r with
      | none => exact SimB.err _ _
      | some t =>
        obtain ⟨a, b, skip⟩ := t
        simp only [shId, Option.map_some, S.extract]
        exact sim_groupBody S h ix1 (d + 1) _ _ _
    -- (?P<name>
    refine SimB.ite Iff.rfl (fun _ => ?_) (fun _ => ?_)
    · rw [show ix1 + k + 2 = ix1 + 2 + k by omega, sliceFrom_shift S]
      refine SimB.bind (sim_sliceFrom _ _ _ _) (fun _ => ?_)
      refine SimB.bind (sim_parseId S isAlnum (ix1 + 2) _ _ _) (fun r => ?_)
      cases r with
      | none => exact SimB.err _ _
      | some t =>
        obtain ⟨a, b, skip⟩ := t
        simp only [shId, Option.map_some, S.extract]
        exact sim_groupBody S h ix1 (d + 1) _ _ _
    -- (?P=name)
    refine SimB.ite Iff.rfl (fun _ => ?_) (fun _ => ?_)
    · rw [show ix1 + k + 3 = ix1 + 3 + k by omega]
      exact sim_parseNamedBackref S isAlnum st _ _ _ _ _
    -- (?>
    refine SimB.ite Iff.rfl (fun _ => sim_groupBody S h ix1 (d + 1) _ _ _) (fun _ => ?_)
    -- (?(
    refine SimB.ite Iff.rfl (fun _ => ?_) (fun _ => ?_)
    · rw [show ix1 + k + 2 = ix1 + 2 + k by omega]
      exact h.cond_ st _ _
    -- (?P>name)
    refine SimB.ite Iff.rfl (fun _ => ?_) (fun _ => ?_)
    · rw [show ix1 + k + 3 = ix1 + 3 + k by omega]
      exact sim_parseNamedBackref S isAlnum st _ _ _ _ _
    -- (?flags
    refine SimB.ite Iff.rfl (fun _ => h.flags_ st ix1 _) (fun _ => ?_)
    exact sim_groupBody S h ix1 (d + 1) _ _ _

theorem sstep_parseFlags (S : Shift re1 re2 k) {f c : Nat} (h : DescSim re1 re2 k isAlnum f c)
    (st : PState) (ix d : Nat) :
    Sim k (sh3 k) (parseFlags isAlnum (f + 1) re1 st ix d)
      (parseFlags isAlnum (f + 1 + c) re2 st (ix + k) d) := by
  rw [show f + 1 + c = (f + c) + 1 by omega, parseFlags, parseFlags]
  dsimp only
  rw [show ix + k + 1 = ix + 1 + k by omega, S.size, show re1.size + k + 2 = re1.size + 2 + k by omega]
  refine SimB.bind (sim_flagsLoop S (ix + 1) _ _ st.flags (ix + 1) false) (fun r => ?_)
  obtain ⟨e, fl⟩ := r
  cases e with
  | close i => exact SimB.ok3 (by omega)
  | colon i =>
    simp only [shFE]
    rw [show i + k + 1 = i + 1 + k by omega]
    refine SimB.bind (h.re_ _ (i + 1) d) (fun r => ?_)
    obtain ⟨ix2, child, st2⟩ := r
    simp only [sh3]
    refine SimB.ite (by simp) (fun _ => SimB.err _ _) (fun _ => ?_)
    rw [byteAt_shift S]
    refine SimB.bind (sim_byteAt re1 k ix2 _) (fun b => ?_)
    try dsimp only [id]
    exact SimB.ite Iff.rfl (fun _ => SimB.err _ _) (fun _ => SimB.ok3 (by omega))

theorem sim_condBranches (k : Nat) (child : Expr) (hasElse : Bool) :
    Sim k id (condBranches child hasElse) (condBranches child hasElse) := by
  unfold condBranches
  split
  · split
    · trivial
    · split <;> rfl
  · rfl

theorem sstep_parseConditional (S : Shift re1 re2 k) {f c : Nat} (h : DescSim re1 re2 k isAlnum f c)
    (st : PState) (ix d : Nat) :
    Sim k (sh3 k) (parseConditional isAlnum (f + 1) re1 st ix d)
      (parseConditional isAlnum (f + 1 + c) re2 st (ix + k) d) := by
  rw [show f + 1 + c = (f + c) + 1 by omega, parseConditional, parseConditional]
  refine SimB.ite (by rw [S.size]; omega) (fun _ => SimB.err _ _) (fun _ => ?_)
  rw [byteAt_shift S]
  refine SimB.bind (sim_byteAt re1 k ix _) (fun b => ?_)
  try dsimp only [id]
  refine SimB.bind (sh := sh3 k) ?_ (fun r => ?_)
  · refine SimB.ite Iff.rfl (fun _ => sim_parseNumberedBackref S st ix _) (fun _ => ?_)
    refine SimB.ite Iff.rfl (fun _ => sim_parseNamedBackref S isAlnum st ix _ _ _ _) (fun _ => ?_)
    refine SimB.ite Iff.rfl (fun _ => sim_parseNamedBackref S isAlnum st ix _ _ _ _) (fun _ => ?_)
    exact h.re_ st ix d
  obtain ⟨next, condition, st1⟩ := r
  simp only [sh3]
  refine SimB.bind (sim_checkForCloseParen S _ next) (fun next2 => ?_)
  try dsimp only
  refine SimB.bind (h.re_ st1 next2 d) (fun r => ?_)
  obtain ⟨end_, child, st2⟩ := r
  simp only [sh3]
  refine SimB.ite (by simp) (fun _ => ?_) (fun _ => ?_)
  · split
    · refine SimB.bind (sim_checkForCloseParen S _ end_) (fun after => ?_)
      exact SimB.ok3 rfl
    · exact SimB.err _ _
  · refine SimB.bind (sh := id) ?_ (fun br => ?_)
    · exact sim_condBranches k child st2.lastReHadAlt
    try dsimp only [id]
    refine SimB.bind (sim_checkForCloseParen S _ end_) (fun after => ?_)
    exact SimB.ite Iff.rfl (fun _ => SimB.ok3 rfl) (fun _ => SimB.ok3 rfl)

/-- **the parser is shift-invariant** (up to the length-dependent back-reference bound): for every
    fuel `f` of run 1 and every surplus `c` of run 2 -/
theorem descSim (S : Shift re1 re2 k) (isAlnum : Char → Bool) (c : Nat) :
    ∀ f, DescSim re1 re2 k isAlnum f c := by
  intro f
  induction f with
  | zero =>
    constructor
    · intro st ix d; rw [parseRe]; trivial
    · intro st ix d; rw [reAltLoop]; trivial
    · intro st ix d; rw [parseBranch]; trivial
    · intro st ix d; rw [branchLoop]; trivial
    · intro st ix d; rw [parsePiece]; trivial
    · intro st ix d; rw [parseAtom]; trivial
    · intro st ix d; rw [parseGroup]; trivial
    · intro st ix d; rw [parseFlags]; trivial
    · intro st ix d; rw [parseConditional]; trivial
  | succ f ih =>
    exact {
      re_ := sstep_parseRe S ih
      alt_ := sstep_reAltLoop S ih
      branch_ := sstep_parseBranch ih
      bloop_ := sstep_branchLoop S ih
      piece_ := sstep_parsePiece S ih
      atom_ := sstep_parseAtom S ih
      group_ := sstep_parseGroup S ih
      flags_ := sstep_parseFlags S ih
      cond_ := sstep_parseConditional S ih }

/-- what `parse_re` does after its first `parse_branch` -/
def reRest (isAlnum : Char → Bool) (g : Nat) (re : Bytes) (depth : Nat) (r : Nat × Expr × PState) :
    Res (Nat × Expr × PState) := do
  let ix ← optWs re r.2.2.flags r.1
  sliceFrom re ix "parse_re: self.re[ix..]"
  if re[ix]? == some (ch '|') then
    let (ix, rest, st) ← reAltLoop isAlnum g re r.2.2 ix depth
    .ok (ix, .alt (r.2.1 :: rest), { st with lastReHadAlt := true })
  else
    let st := { r.2.2 with lastReHadAlt := false }
    if st.numericBackrefs && !st.namedGroups.isEmpty then .cerr
    else .ok (ix, r.2.1, st)

theorem parseRe_eq (isAlnum : Char → Bool) (g : Nat) (re : Bytes) (st : PState) (ix depth : Nat) :
    parseRe isAlnum (g + 1) re st ix depth =
      (parseBranch isAlnum g re st ix depth >>= reRest isAlnum g re depth) := by
  rw [parseRe]; rfl

theorem sim_reRest (S : Shift re1 re2 k) {g g' : Nat} (d : Nat)
    (halt : ∀ st ix, Sim k (shL k) (reAltLoop isAlnum g re1 st ix d) (reAltLoop isAlnum g' re2 st (ix + k) d))
    (r : Nat × Expr × PState) :
    Sim k (sh3 k) (reRest isAlnum g re1 d r) (reRest isAlnum g' re2 d (sh3 k r)) := by
  obtain ⟨ix1, child, st1⟩ := r
  unfold reRest
  simp only [sh3]
  refine SimB.bind (sim_optWs S _ ix1) (fun ix2 => ?_)
  try dsimp only
  rw [sliceFrom_shift S]
  refine SimB.bind (sim_sliceFrom _ _ _ _) (fun _ => ?_)
  rw [S.get]
  refine SimB.ite Iff.rfl (fun _ => ?_) (fun _ => ?_)
  · refine SimB.bind (halt st1 ix2) (fun r => ?_)
    obtain ⟨ix3, rest, st3⟩ := r
    exact SimB.ok3 rfl
  · try dsimp only
    exact SimB.ite Iff.rfl (fun _ => rfl) (fun _ => SimB.ok3 rfl)

end descent

/-! ## C14: the builder option against the `(?i)` prefix -/

theorem bytesOf_append (a b : List Char) : (bytesOf (a ++ b)).toList = (bytesOf a).toList ++ (bytesOf b).toList := by
  simp only [bytesOf, List.map_append, Utf8.encode_append]

theorem shift_flag_prefix (p : List Char) : Shift (bytesOf p) (bytesOf ("(?i)".toList ++ p)) 4 := by
  have hl : (bytesOf ("(?i)".toList ++ p)).toList = [ch '(', ch '?', ch 'i', ch ')'] ++ (bytesOf p).toList := by
    rw [bytesOf_append]; rfl
  refine ⟨⟨_, rfl, hl⟩, ?_⟩
  have h3 : (bytesOf ("(?i)".toList ++ p))[3]? = some (ch ')') := by
    have := get_of_split (re := bytesOf ("(?i)".toList ++ p)) (pre := [ch '(', ch '?', ch 'i'])
      (b := ch ')') (post := (bytesOf p).toList) (by rw [hl]; rfl)
    simpa using this
  exact (WF_bytesOf _).step_ascii h3 (by decide)

/-- **C14_parse_flag_partial** — the corrected statement.  For every pattern `P` that does not
    begin with a `(?#…)` comment (`H0`) nor with something `parse_piece` reads as a quantifier
    (`H1`: `?`, `*`, `+`, or a `{n,m}` that `parse_repeat` accepts — the counterexample
    `C14_parse_flag_false_brace`), the parser started with the `i` flag seeded on `P` (what
    `RegexBuilder::case_insensitive(true)` does) and the parser on `"(?i)" ++ P` do the same thing,
    four bytes apart (`Sim 4 id`):
    * if the first returns a tree, the second returns **the same `ExprTree`** (expression,
      back-reference set, named groups) — not `Concat [Empty, t]`: the loop of `parse_branch` drops
      the `Empty` piece of the flag group;
    * if the first reports a parse error at `pos`, the second reports the same error at `pos + 4`
      — except for the two length-dependent errors `InvalidBackref` / `InvalidGroupNameBackref`
      (`group < re.len() / 2`; counterexample `C14_parse_flag_false_backref`);
    * `CompileError::NamedBackrefOnly` in both. -/
theorem C14_parse_flag_partial (isAlnum : Char → Bool) (p : List Char)
    (H0 : optWs (bytesOf p) { casei := true } 0 = .ok 0)
    (H1 : ∀ b, (bytesOf p)[0]? = some b → quantAt (bytesOf p) { casei := true } 0 b = .ok none) :
    Sim 4 id (parseStr isAlnum p true) (parseStr isAlnum ("(?i)".toList ++ p) false) := by
  have S := shift_flag_prefix p
  generalize hre1 : bytesOf p = re1 at *
  generalize hre2 : bytesOf ("(?i)".toList ++ p) = re2 at *
  obtain ⟨pre, hk, hl⟩ := S.list
  have hpre : pre = [ch '(', ch '?', ch 'i', ch ')'] := by
    have h2 : re2.toList = [ch '(', ch '?', ch 'i', ch ')'] ++ re1.toList := by
      rw [← hre2, ← hre1, bytesOf_append]; rfl
    rw [h2] at hl
    exact (List.append_inj_left hl (by simp [hk])).symm
  subst hpre
  have g0 : re2[0]? = some (ch '(') := by rw [← Array.getElem?_toList, hl]; rfl
  have g1 : re2[1]? = some (ch '?') := by rw [← Array.getElem?_toList, hl]; rfl
  have g2 : re2[2]? = some (ch 'i') := by rw [← Array.getElem?_toList, hl]; rfl
  have g3 : re2[3]? = some (ch ')') := by rw [← Array.getElem?_toList, hl]; rfl
  -- the flag group seeds the state
  have hw : optWs re2 { casei := true } 4 = .ok 4 := by
    have := sim_optWs (bad := BadErr) S { casei := true } 0
    rw [H0] at this
    simpa [SimB] using this
  have hq : ∀ b, re2[4]? = some b → quantAt re2 { casei := true } 4 b = .ok none := by
    intro b hb
    have hb' : re1[0]? = some b := by rw [← S.get 0]; simpa using hb
    have := sim_quantAt S { casei := true } 0 b
    rw [H1 b hb'] at this
    simpa [SimB, shQ] using this
  -- fuels
  obtain ⟨g, hg⟩ : ∃ g, descentFuel re1.size = g + 2 := ⟨descentFuel re1.size - 2, by
    simp only [descentFuel]; omega⟩
  have hg2 : descentFuel re2.size = g + 18 := by
    rw [S.size]; simp only [descentFuel] at hg ⊢; omega
  have hseed := C14_flag_group_seeds isAlnum (re := re2) (g + 11) g0 g1 g2 g3 hw hq
  have hbr2 : parseBranch isAlnum (g + 17) re2 {} 0 0 =
      parseBranch isAlnum (g + 16) re2 { flags := { casei := true } } 4 0 := by
    rw [parseBranch, parseBranch, hseed]
  have hsim : Sim 4 (sh3 4) (parseRe isAlnum (g + 2) re1 { flags := { casei := true } } 0 0)
      (parseRe isAlnum (g + 18) re2 {} 0 0) := by
    rw [parseRe_eq, parseRe_eq, hbr2]
    refine SimB.bind ((descSim S isAlnum 15 (g + 1)).branch_ _ 0 0) (fun r => ?_)
    exact sim_reRest S 0 (fun st ix => (descSim S isAlnum 16 (g + 1)).alt_ st ix 0) r
  unfold parseStr parseBytes
  rw [hre1, hre2, hg, hg2]
  simp only
  generalize parseRe isAlnum (g + 2) re1 { flags := { casei := true } } 0 0 = x1 at hsim ⊢
  generalize parseRe isAlnum (g + 18) re2 {} 0 0 = x2 at hsim ⊢
  cases x1 with
  | ok r =>
    obtain ⟨ix, e, st⟩ := r
    simp only [SimB, sh3] at hsim; subst hsim
    simp only
    rw [S.size]
    by_cases hlt : ix < re1.size
    · rw [if_pos hlt, if_pos (by omega)]; exact Or.inr rfl
    · rw [if_neg hlt, if_neg (by omega)]; rfl
  | err e q =>
    rcases hsim with h | h
    · exact Or.inl h
    · subst h; exact Or.inr rfl
  | cerr => simp only [SimB] at hsim; subst hsim; rfl
  | panic s => trivial
  | outOfFuel => trivial

/-- the first reading of `C14_parse_flag_partial`: same `ExprTree` -/
theorem C14_parse_flag_ok (isAlnum : Char → Bool) (p : List Char)
    (H0 : optWs (bytesOf p) { casei := true } 0 = .ok 0)
    (H1 : ∀ b, (bytesOf p)[0]? = some b → quantAt (bytesOf p) { casei := true } 0 b = .ok none)
    {t : Tree} (h : parseStr isAlnum p true = .ok t) :
    parseStr isAlnum ("(?i)".toList ++ p) false = .ok t := by
  have := C14_parse_flag_partial isAlnum p H0 H1
  rw [h] at this
  exact this

/-- the second: same error, four bytes later -/
theorem C14_parse_flag_err (isAlnum : Char → Bool) (p : List Char)
    (H0 : optWs (bytesOf p) { casei := true } 0 = .ok 0)
    (H1 : ∀ b, (bytesOf p)[0]? = some b → quantAt (bytesOf p) { casei := true } 0 b = .ok none)
    {e : PErr} {pos : Nat} (h : parseStr isAlnum p true = .err e pos) (hb : ¬ BadErr e) :
    parseStr isAlnum ("(?i)".toList ++ p) false = .err e (pos + 4) := by
  have := C14_parse_flag_partial isAlnum p H0 H1
  rw [h] at this
  rcases this with h' | h'
  · exact absurd h' hb
  · exact h'

/-- the converse: if `(?i)P` parses, then `P` with the option parses to the same tree — or stops
    at one of the two length-dependent back-reference errors -/
theorem C14_parse_flag_conv (isAlnum : Char → Bool) (hal : AlnumOK isAlnum) (p : List Char)
    (H0 : optWs (bytesOf p) { casei := true } 0 = .ok 0)
    (H1 : ∀ b, (bytesOf p)[0]? = some b → quantAt (bytesOf p) { casei := true } 0 b = .ok none)
    {t : Tree} (h : parseStr isAlnum ("(?i)".toList ++ p) false = .ok t) :
    parseStr isAlnum p true = .ok t ∨ ∃ e pos, BadErr e ∧ parseStr isAlnum p true = .err e pos := by
  have hs := C14_parse_flag_partial isAlnum p H0 H1
  have hnp := C06_parse_no_panic isAlnum hal p true
  have hnf := C06_parse_total isAlnum hal p true
  cases h1 : parseStr isAlnum p true with
  | ok t1 =>
    rw [h1, h] at hs
    simp only [SimB, id, Res.ok.injEq] at hs
    exact Or.inl (by rw [hs])
  | err e pos =>
    rw [h1, h] at hs
    rcases hs with hb | hb
    · exact Or.inr ⟨e, pos, hb, rfl⟩
    · cases hb
  | cerr => rw [h1, h] at hs; cases hs
  | panic s => exact absurd h1 (hnp s)
  | outOfFuel => exact absurd h1 hnf

-- the hypotheses hold for `a|B(c)\1`, and the conclusion there
example : parseStr (fun c => c.isAlphanum) "(?i)a|B(c)\\1".toList false =
    parseStr (fun c => c.isAlphanum) "a|B(c)\\1".toList true := by
  have h : parseStr (fun c => c.isAlphanum) "a|B(c)\\1".toList true =
      .ok ⟨.alt [.literal ['a'] true, .concat [.literal ['B'] true, .group 0 (.literal ['c'] true),
        .backref 1]], [1], []⟩ := isTree_sound (by decide +kernel)
  rw [h]
  refine C14_parse_flag_ok _ "a|B(c)\\1".toList (isOkVal_sound (by decide +kernel)) ?_ h
  intro b hb
  have hb' : (bytesOf "a|B(c)\\1".toList)[0]? = some 97 := by decide +kernel
  rw [hb'] at hb; cases hb
  simp [quantAt, ch]; rfl

end Fancy.Parse
