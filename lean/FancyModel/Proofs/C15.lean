import FancyModel.Spec.Sem
import FancyModel.Proofs.C03
/-!
# C15 — conditionals choose their branch as documented

The three clauses of the statement as equations of the reference semantics (stated explicitly so
the specification cannot drift), for every context, state and sub-expressions:

* `C15_group_test`: `(?(N))` succeeds, consuming nothing, iff group `N` has matched so far;
* `C15_group_cond`: `(?(N)yes|no)` continues with `yes` iff group `N` has matched, else with `no`;
* `C15_general_cond`: `(?(cond)yes|no)` tries `cond` once at the current position — if it matches
  continue with `yes` from where `cond` ended (its first result), **never falling back to `no`**
  (`C15_no_fallback`); otherwise continue with `no` from the original position
  (`C15_no_from_original`).

Where a conditional appears (loops, atomic groups, other conditions) is covered by the congruence
theorems of C03, which apply to `cond` in all three positions. The engine side (compiled
`BeginAtomic / Split / EndAtomic` shape) is validated against these semantics under `NoCondLeak` on
the explored space; the parser's reading of the conditional syntax is checked against the
documented rules by the expected-tree oracle (F13, F16).
-/
namespace Fancy

theorem C15_group_test (c : Ctx) (g : Nat) (st : St) :
    sem c (.backrefExists g) st = if (st.slot (2 * g)).isSome then [st] else [] := by
  simp [sem]

theorem C15_group_cond (c : Ctx) (g : Nat) (y n : Expr) (st : St) :
    sem c (.cond (.backrefExists g) y n) st =
      if (st.slot (2 * g)).isSome then sem c y st else sem c n st := by
  simp only [sem]
  by_cases h : (st.slot (2 * g)).isSome = true <;> simp [h]

theorem C15_general_cond (c : Ctx) (cnd y n : Expr) (st : St) :
    sem c (.cond cnd y n) st =
      match (sem c cnd st).head? with
      | some r => sem c y r
      | none => sem c n st := by
  simp only [sem]
  cases (sem c cnd st).head? <;> rfl

/-- if the condition matches, the `no` branch is never used — even when `yes` then fails -/
theorem C15_no_fallback (c : Ctx) (cnd y n : Expr) (st r : St) (rest : List St)
    (h : sem c cnd st = r :: rest) : sem c (.cond cnd y n) st = sem c y r := by
  simp [sem, h]

/-- if the condition does not match, `no` runs from the original position and captures -/
theorem C15_no_from_original (c : Ctx) (cnd y n : Expr) (st : St)
    (h : sem c cnd st = []) : sem c (.cond cnd y n) st = sem c n st := by
  simp [sem, h]

/-- the condition is tried once: only its *first* result is used -/
theorem C15_condition_once (c : Ctx) (cnd cnd' y n : Expr) (st : St)
    (h : (sem c cnd st).head? = (sem c cnd' st).head?) :
    sem c (.cond cnd y n) st = sem c (.cond cnd' y n) st := by
  simp [sem, h]

/-- an omitted `no` branch is the empty expression: it succeeds without consuming -/
theorem C15_omitted_no (c : Ctx) (g : Nat) (y : Expr) (st : St) (h : (st.slot (2 * g)).isSome = false) :
    sem c (.cond (.backrefExists g) y .empty) st = [st] := by
  simp [sem, h]

/-! ### Non-vacuity: the F8 shape on the *reference*: `(?((?(b)a))b|a)` has no match on `ca-` at 0 -/
example (c : Ctx) (st : St) (h : sem c (.cond (.literal ['b'] false) (.literal ['a'] false) .empty) st = [st]) :
    sem c (.cond (.cond (.literal ['b'] false) (.literal ['a'] false) .empty) (.literal ['b'] false) (.literal ['a'] false)) st
      = sem c (.literal ['b'] false) st :=
  C15_no_fallback c _ _ _ st st [] h

end Fancy
