def hello := "world"
