import FancyModel.Model.Parse
/-!
# Hand-written prelude of the generated parser (`GeneratedParse.lean`)

`tools/rs2lean_parse.py` translates the non-test part of src/parse.rs statement by statement. Everything the
translation does NOT take from the Rust text is fixed here (or in Model/Parse.lean's library layer, which this
file re-uses) and is *trusted* (notes/translator-parse.md):

* `Result<T>` / panics: `Fancy.Parse.Res` (`ok`, `err kind pos`, `cerr`, `panic site`, `outOfFuel`);
  `Err(Error::ParseError(ix, ParseError::X(..)))` is `.err (.x ..) ix`; `CompileError::NamedBackrefOnly` is `.cerr`;
  the three `GeneralParseError` messages are `GenMsg`. Panic sites carry the labels of the model (table `SITES`).
* `&str`: the pattern `self.re` is its UTF-8 bytes `re : Bytes`; `self.re.len()` = `re.size`; `self.re.as_bytes()[i]` =
  `byteAt`; `&self.re[a..b]` = `slice` (the bytes; panic off a boundary / out of range); `self.re[a..]` = `sliceFrom`
  (the check) and, passed on as a `&str`, the suffix `Str` below; `x.starts_with(lit)` = `startsWithAt`;
  `bytes.get(i)` = `re[i]?`. Other `&str` / `String` values are byte lists, except the `String`s that are built
  character by character (`String::new()` / `with_capacity`, `push`, `push_str`) and the `String` fields of `Expr`,
  which are `List Char`: a byte string entering one of those is decoded (`decodeList`, total).
* `u8` literals `b'x'` are `ch 'x'`; `char`s are `Char`; `char::is_alphanumeric` is the parameter `isAlnum`.
* the `u32` flag word is the record `Flags`; the only operations accepted are `self.flags & F != 0`, `|= F`,
  `&= !F` with `F` one of the six constants (checked to be distinct single bits), and `flags: FLAG_UNICODE`.
* `HashMap` / `BitSet`: `namedInsert` / `namedGet` / `bitsetInsert` on association lists / member lists.
* loops: fuel from the table `LOOP_FUEL` (the model's choices); the recursive descent shares one fuel.
-/
namespace Fancy.GenParse
open Fancy.Parse
open Fancy.Utf8 (codepointLen)

/-- the six `FLAG_*` constants -/
inductive FlagBit where
  | casei | multi | dotnl | swapGreed | ignoreSpace | unicode
deriving DecidableEq, Repr

/-- `(flags & F) != 0` -/
def flagGet (fl : Flags) : FlagBit → Bool
  | .casei => fl.casei | .multi => fl.multi | .dotnl => fl.dotnl
  | .swapGreed => fl.swapGreed | .ignoreSpace => fl.ignoreSpace | .unicode => fl.unicode

/-- `flags |= F` (`v = true`) / `flags &= !F` (`v = false`) -/
def flagSet (fl : Flags) (b : FlagBit) (v : Bool) : Flags :=
  match b with
  | .casei => { fl with casei := v } | .multi => { fl with multi := v } | .dotnl => { fl with dotnl := v }
  | .swapGreed => { fl with swapGreed := v } | .ignoreSpace => { fl with ignoreSpace := v }
  | .unicode => { fl with unicode := v }

/-- `flags: F` (a word with the single bit `F`) -/
def flagOnly (b : FlagBit) : Flags :=
  flagSet { casei := false, multi := false, dotnl := false, swapGreed := false, ignoreSpace := false, unicode := false } b true

/-- a `&str` that is a suffix of the pattern: `&self.re[off..]` (or `self.re` itself, `off = 0`) -/
structure Str where
  bytes : Bytes
  off : Nat

def Str.len (s : Str) : Nat := s.bytes.size - s.off
def Str.byteAt (s : Str) (i : Nat) (site : String) : Res Nat := Fancy.Parse.byteAt s.bytes (s.off + i) site
def Str.slice (s : Str) (a b : Nat) (site : String) : Res (List Nat) := Fancy.Parse.slice s.bytes (s.off + a) (s.off + b) site
def Str.startsWith (s : Str) (p : List Nat) : Bool := startsWithAt s.bytes s.off p
/-- `&s[a..]` -/
def Str.suffix (s : Str) (a : Nat) (site : String) : Res Str :=
  if sliceFromOk s.bytes (s.off + a) then .ok ⟨s.bytes, s.off + a⟩ else .panic site
/-- `&self.re[a..]` as a value -/
def strFrom (re : Bytes) (a : Nat) (site : String) : Res Str := Str.suffix ⟨re, 0⟩ a site

/-- `usize::from_str_radix(s, 10).ok()`: an optional `+`, then at least one digit, no overflow -/
def fromStrRadix10 (s : List Nat) : Option Nat :=
  let ds := match s with | 43 :: r => r | r => r
  if ds.isEmpty || !ds.all isDigit then none
  else if digitsVal ds ≤ usizeMax then some (digitsVal ds) else none

/-- `char::from_u32` -/
def charFromU32 (n : Nat) : Option Char := if n.isValidChar then some (mkChar n) else none

/-- `isize -> usize` by `try_into()`: `none` = `Err` -/
def tryIntoUsize (g : Int) : Option Nat := if g ≥ 0 then some g.toNat else none

/-- `usize::checked_add_signed` for `d ≤ 0` (the only use: a relative back-reference; no overflow upwards) -/
def checkedAddSigned (a : Nat) (d : Int) : Option Nat :=
  let r : Int := (a : Int) + d
  if r ≥ 0 then some r.toNat else none

/-- `bytes[a..]` on `&[u8]` (no boundary condition): the check -/
def bytesFrom (re : Bytes) (a : Nat) (site : String) : Res Unit := if a ≤ re.size then .ok () else .panic site

/-- `bytes[a..].iter().position(|&c| c == x)` once the slice exists -/
def bytesPosition (re : Bytes) (a x : Nat) : Option Nat := (re.toList.drop a).findIdx? (· == x)

/-- `bytes[a..b].iter().all(p)`: the bytes, or the panic -/
def bytesRange (re : Bytes) (a b : Nat) (site : String) : Res (List Nat) :=
  if a ≤ b && b ≤ re.size then .ok (re.extract a b).toList else .panic site

/-- `s[a..].char_indices().peekable()`: the absolute byte position of the next character and the base `a` -/
structure CharIter where
  bytes : Bytes
  base : Nat
  pos : Nat

def Str.charIndices (s : Str) (a : Nat) (site : String) : Res CharIter :=
  if sliceFromOk s.bytes (s.off + a) then .ok ⟨s.bytes, s.off + a, s.off + a⟩ else .panic site

/-- `iter.next_if(|(_, ch)| p ch).is_some()` -/
def CharIter.nextIf (it : CharIter) (p : Char → Bool) : Bool × CharIter :=
  match it.bytes[it.pos]? with
  | none => (false, it)
  | some b =>
    let cn := decodeAt it.bytes it.pos b
    if p cn.1 then (true, { it with pos := it.pos + cn.2 }) else (false, it)

/-- `iter.find(|(_, ch)| p ch).map(|(i, _)| i)`: the index (relative to the base) of the first character
    satisfying `p` -/
def CharIter.findIdx (it : CharIter) (p : Char → Bool) : Res (Option Nat) :=
  match findNot (fun c => !p c) (it.bytes.size + 1) it.bytes it.pos with
  | .ok (some a) => .ok (some (a - it.base))
  | .ok none => .ok none
  | .err k q => .err k q
  | .cerr => .cerr
  | .panic s => .panic s
  | .outOfFuel => .outOfFuel

/-- `close.starts_with(is_id_char)` (a `&str` pattern that is a predicate on the first character) -/
def startsWithPred (s : List Nat) (p : Char → Bool) : Bool :=
  match s with
  | c :: _ => p (mkChar c)
  | [] => false

/-- `v.remove(0)` -/
def remove0 (v : List Expr) (site : String) : Res (Expr × List Expr) :=
  match v with
  | [] => .panic site
  | t :: rest => .ok (t, rest)

/-- `v.pop()` -/
def popLast (v : List Expr) : Option Expr × List Expr :=
  match v.reverse with
  | [] => (none, v)
  | x :: r => (some x, r.reverse)

/-- `a - b` on `usize` -/
def checkedSub (a b : Nat) (site : String) : Res Nat := if b ≤ a then .ok (a - b) else .panic site

/-- `Option::expect` / `unwrap` -/
def expect {α : Type} (o : Option α) (site : String) : Res α :=
  match o with
  | some a => .ok a
  | none => .panic site

/-- `e != Expr::Empty` / `e == Expr::Empty` -/
def isEmptyExpr (e : Expr) : Bool := e.isEmpty

/-- `s.chars().count()` on a character string -/
def charsCount (s : List Char) : Nat := s.length

/-! ## `u8` / `char` ASCII predicates and integer casts (exact definitions of the std functions) -/

/-- `u8::is_ascii` / `char::is_ascii` -/
def isAscii (b : Nat) : Bool := decide (b < 128)
/-- `is_ascii_uppercase`, `is_ascii_lowercase`, `is_ascii_alphanumeric` on a byte / scalar value -/
def isAsciiUppercase (b : Nat) : Bool := decide (65 ≤ b) && decide (b ≤ 90)
def isAsciiLowercase (b : Nat) : Bool := decide (97 ≤ b) && decide (b ≤ 122)
def isAsciiAlphanumeric (b : Nat) : Bool := isAsciiAlphabetic b || isDigit b
/-- `x as u8`, `x as u32`, `x as usize` (wrapping truncation; widening is the identity), `b as char` for `b : u8` -/
def asU8 (n : Nat) : Nat := n % 256
def asU32 (n : Nat) : Nat := n % 4294967296
def asUsize (n : Nat) : Nat := n % 18446744073709551616
def u8AsChar (b : Nat) : Char := mkChar (b % 256)
/-- `usize::checked_add` / `checked_sub` / `saturating_sub` -/
def checkedAddUsize (a b : Nat) : Option Nat := if a + b ≤ usizeMax then some (a + b) else none
def checkedSubUsize (a b : Nat) : Option Nat := if b ≤ a then some (a - b) else none
def saturatingSub (a b : Nat) : Nat := a - b

/-- the decreasing proofs of the recursive descent: measure `(descent fuel, rank, loop fuel)`, lexicographic -/
macro "descent_decreasing" : tactic => `(tactic|
  (simp_wf
   first
   | omega
   | (apply Prod.Lex.left; omega)
   | (apply Prod.Lex.right; first | (apply Prod.Lex.left; omega) | (apply Prod.Lex.right; omega))))

end Fancy.GenParse
