#!/usr/bin/env python3
"""Isolated sweep of seeded changes: never touches /repo or /verif/work.

usage: sweep_iso.py <seeds dir> [--only ID,ID,...] [--extra C05,C07] [--skip-lean] [--tag NAME]

Makes a private copy of /verif (without work/ and .git) and a git worktree of /repo under
/tmp/vsweep_<tag>/, rewrites the few '/repo' references in the copy to point at that worktree, and for
every seed: applies the patch there, runs the copy's ./check for the seed's own property (and the
extra ones), records the outcome, undoes the patch. Results: <seeds dir>/../work/sweep_iso_<tag>.json
(and printed). The copy and the worktree are removed at the end."""
import glob, json, os, shutil, subprocess, sys, time

args = sys.argv[1:]
root = os.path.abspath(args[0])
only = None
extra = []
skip_lean = False
tag = 'a'
i = 1
while i < len(args):
    if args[i] == '--only':
        only = set(args[i + 1].split(',')); i += 2
    elif args[i] == '--extra':
        extra = args[i + 1].split(','); i += 2
    elif args[i] == '--skip-lean':
        skip_lean = True; i += 1
    elif args[i] == '--tag':
        tag = args[i + 1]; i += 2
    else:
        i += 1

BASE = '/tmp/vsweep_' + tag
V = BASE + '/verif'
R = BASE + '/repo'
subprocess.run(['git', '-C', '/repo', 'worktree', 'remove', '--force', R], capture_output=True)
shutil.rmtree(BASE, ignore_errors=True)
os.makedirs(BASE)
subprocess.run(['git', '-C', '/repo', 'worktree', 'add', '--detach', R, 'HEAD', '-q'], check=True)
shutil.copyfile('/repo/Cargo.lock', R + '/Cargo.lock')
SRC = os.environ.get('SWEEP_SRC', '/verif')   # a snapshot of /verif can be swept while /verif is being edited
subprocess.run(['rsync', '-a', '--exclude', 'work', '--exclude', '.git', '--exclude', 'seeded', SRC.rstrip('/') + '/', V + '/'], check=True)
for f, old, new in [('harness/Cargo.toml', 'path = "/repo"', 'path = "%s"' % R),
                    ('tools/vlib.py', "'/repo/Cargo.lock'", "'%s/Cargo.lock'" % R),
                    ('tools/extract.py', "REPO = '/repo'", "REPO = '%s'" % R)]:
    p = os.path.join(V, f)
    s = open(p).read()
    assert old in s, (f, old)
    open(p, 'w').write(s.replace(old, new))

res = {}
out_path = '/verif/work/sweep_iso_%s.json' % tag
os.makedirs('/verif/work', exist_ok=True)
env = dict(os.environ, CARGO_NET_OFFLINE='true')
if skip_lean:
    env['VERIF_SKIP_LEAN'] = '1'
try:
    for patch in sorted(glob.glob(root + '/*/*/patch.diff')):
        pid, var = patch.split('/')[-3], patch.split('/')[-2]
        key = pid + var
        if only and key not in only and pid not in only:
            continue
        subprocess.run('git checkout -q -- . ', shell=True, cwd=R)
        r = subprocess.run(['git', 'apply', patch], cwd=R, capture_output=True, text=True)
        if r.returncode != 0:
            res[key] = {'error': 'patch does not apply: ' + r.stderr[:300]}
            print(key, res[key], flush=True)
            continue
        det = {}
        for p in [pid] + [x for x in extra if x != pid]:
            t0 = time.time()
            rr = subprocess.run(['./check', p], cwd=V, capture_output=True, text=True, env=env)
            lines = [l for l in rr.stdout.split('\n') if l.startswith('VIOLATION')]
            det[p] = {'rc': rr.returncode, 'violations': len(lines), 's': round(time.time() - t0, 1), 'first': lines[:1]}
            if lines:
                try:
                    path = lines[0].split('replay=')[1].split()[0]
                    rec = json.load(open(path))
                    det[p]['replay'] = {k: (str(rec[k])[:200]) for k in rec if k not in ('property', 'seed', 'tier')}
                except Exception as e:
                    det[p]['replay'] = str(e)
            elif rr.returncode != 0:
                det[p]['tail'] = (rr.stdout + rr.stderr)[-500:]
        res[key] = det
        json.dump(res, open(out_path, 'w'), indent=1, ensure_ascii=False)
        print(key, {p: det[p]['rc'] for p in det}, (det[pid].get('replay') or {}).get('kind'),
              (det[pid].get('first') or [''])[0][-40:], flush=True)
finally:
    subprocess.run(['git', '-C', '/repo', 'worktree', 'remove', '--force', R], capture_output=True)
    shutil.rmtree(BASE, ignore_errors=True)
print('done ->', out_path)
