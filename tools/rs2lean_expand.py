#!/usr/bin/env python3
"""Translate the template expander `Expander` (src/expand.rs of fancy-regex) into Lean: lean/FancyModel/GeneratedExpand.lean.

  `Expander::default`, `python`, `exec` (the tokenizer loop, its callback a parameter), `check`, `escape`, `write_expansion`,
  `write_expansion_vec`, `expansion` (under `feature = "std"` and without it).
  `parse_id` / `parse_decimal` (src/parse.rs) are NOT translated: they are adaptors (see GenExpandPrelude.lean for the reason).

usage: rs2lean_expand.py [EXPAND_RS] [-o OUT.lean] [--stub-on-failure]
       (EXPAND_RS defaults to $RS2LEAN_EXPAND_SRC or /repo/src/expand.rs, OUT to $RS2LEAN_EXPAND_OUT or
        lean/FancyModel/GeneratedExpand.lean; --stub-on-failure, used by tools/extract.py: a failure leaves a stub that does not
        compile in OUT and exits 0)

Mechanical, like the other rs2lean_* translators. Anything outside the subset is an error (exit status 2, the construct and
its line). What is NOT read from the Rust text is in lean/FancyModel/GenExpandPrelude.lean and in the tables below;
see notes/translator-expand.md.
"""
import os, re, sys

sys.path.insert(0, os.path.dirname(os.path.abspath(__file__)))
import rs2lean_analyze as ra
import rs2lean_vm as rv
import rs2lean_tostr as rt
import rs2lean_ints as ints
from rs2lean_analyze import Unsupported, bad, matching, top_level_positions, parse_struct, parse_enum, int_of, find_seq
from rs2lean_vm import tokenize, lean_id, LITERALS
from rs2lean_tostr import lean_char, lean_str, unescape

VERIF = os.path.dirname(os.path.dirname(os.path.abspath(__file__)))
DEFAULT_SRC = '/repo/src/expand.rs'
DEFAULT_OUT = os.path.join(VERIF, 'lean', 'FancyModel', 'GeneratedExpand.lean')


# ------------------------------------------------------------------------------------------------ parser

class Parser(rt.Parser):
    """+ `while let`, `Some`/`Ok`/`Err`/`None`/`Step::V` patterns, closures `|x| e` / `|| { … }`, `write!`, `debug_assert!`,
    `#[cfg(feature = "std")]` / `#[cfg(not(feature = "std"))]` statements kept with their condition"""

    def closure(self):
        t = self.next()
        params = []
        if t.text == '|':
            while not self.at('|'):
                params.append(self.pattern())
                if self.at(':'):                  # the annotation must be a scalar (or a reference to one): rustc has checked it
                    self.next()
                    ty = self.type_(['|', ','])
                    if ty.lstrip('&') not in ('u8', 'char', 'usize', 'bool') or params[-1][0] != 'pbind':
                        bad('closure parameter with a type (other than a scalar)', t.line)
                if not self.at('|'):
                    self.expect(',')
            self.next()
        if self.at('{'):
            stmts, tail = self.block()
            return ('closure', params, ('blockexpr', stmts, tail, t.line), t.line)
        return ('closure', params, self.expr(), t.line)

    def p_primary(self, ns):
        t = self.peek()
        if t.kind == 'id' and self.peek(1).text == '!' and self.peek(1).kind == 'op' and self.peek(2).text == '(':
            if t.text == 'write':
                self.next()
                self.next()
                return ('write', self.args(), t.line)
            if t.text in ('debug_assert', 'debug_assert_eq'):
                self.next()
                self.next()
                self.i = matching(self.toks, self.i) + 1
                return ('unit', t.line)
        return rt.Parser.p_primary(self, ns)

    def pattern(self):
        t = self.peek()
        if t.kind == 'id' and t.text in ('Some', 'Ok', 'Err') and self.peek(1).text == '(':
            self.next()
            self.next()
            p = self.pattern()
            self.expect(')')
            return ({'Some': 'psome', 'Ok': 'pok', 'Err': 'perr'}[t.text], p, t.line)
        if t.kind == 'id' and t.text == 'None':
            self.next()
            return ('pnone', t.line)
        if t.kind == 'id' and t.text == 'Step' and self.peek(1).text == '::':
            self.next()
            self.next()
            v = self.ident()
            sub = None
            if self.at('('):
                self.next()
                sub = self.pattern()
                self.expect(')')
            return ('pstep', v, sub, t.line)
        return rt.Parser.pattern(self)

    def cfg_attr(self):
        """-> 'std' | 'nostd' | None (None: the statement is skipped)"""
        t = self.expect('#')
        close = matching(self.toks, self.i)
        inner = ' '.join(x.text for x in self.toks[self.i + 1:close])
        self.i = close + 1
        if inner == 'cfg ( feature = "std" )':
            return 'std'
        if inner == 'cfg ( not ( feature = "std" ) )':
            return 'nostd'
        if inner.startswith('cfg ('):
            self.skip_statement()
            return None
        bad('attribute `#[%s]` on a statement' % inner, t.line)

    def block(self):
        self.expect('{')
        stmts, tail = [], None
        pending = None
        while not self.at('}'):
            t = self.peek()
            if tail is not None:
                if tail[0] in ('if', 'iflet', 'match'):
                    stmts.append(('expr', tail, tail[-1]))
                    tail = None
                else:
                    bad('statement after a tail expression', t.line)
            n0 = len(stmts)
            if t.kind == 'op' and t.text == '#':
                pending = self.cfg_attr()
                continue
            if t.kind == 'id' and t.text == 'let':
                self.next()
                mut = False
                if self.at('mut'):
                    self.next()
                    mut = True
                if self.peek().kind != 'id' or self.peek(1).text not in ('=', ':'):
                    bad('`let` with a pattern that is not a plain identifier', t.line)
                name = self.ident()
                ty = None
                if self.at(':'):
                    self.next()
                    ty = self.type_(['=', ';'])
                    if not (ty in ('usize', 'bool', 'char')):
                        bad('`let` with a type annotation other than usize / bool / char', t.line)
                self.expect('=')
                e = self.expr()
                self.expect(';')
                if ty is not None:
                    e = ('typed', e, ty, t.line)
                stmts.append(('let', name, mut, e, t.line))
            elif t.kind == 'id' and t.text == 'while':
                self.next()
                if not self.at('let'):
                    bad('`while` that is not `while let`', t.line)
                self.next()
                pat = self.pattern()
                self.expect('=')
                e = self.expr(no_struct=True)
                body, btail = self.block()
                if btail is not None:
                    if btail[0] in ('if', 'iflet', 'match'):
                        body = body + [('expr', btail, btail[-1])]
                    else:
                        bad('`while` body with a value', t.line)
                stmts.append(('whilelet', pat, e, body, t.line))
            elif t.kind == 'id' and t.text in ('for', 'loop', 'return', 'break', 'continue', 'unsafe', 'fn', 'struct', 'use', 'const', 'static'):
                bad('`%s` statement' % t.text, t.line)
            else:
                e = self.expr()
                nt = self.peek()
                if nt.kind == 'op' and nt.text == '=':
                    self.next()
                    r = self.expr()
                    self.expect(';')
                    stmts.append(('assign', e, '=', r, t.line))
                elif nt.kind == 'op' and nt.text in ('+=', '-=', '&=', '|=', '*=', '/=', '%=', '^='):
                    bad('compound assignment `%s`' % nt.text, nt.line)
                elif self.at(';'):
                    self.next()
                    stmts.append(('expr', e, t.line))
                elif self.at('}') or e[0] in ('if', 'iflet', 'match'):
                    tail = e
                else:
                    bad('unexpected `%s` after an expression' % nt.text, nt.line)
            if pending is not None:
                if len(stmts) == n0 + 1:
                    stmts[-1] = ('cfg', pending, stmts[-1], t.line)
                elif tail is not None:
                    bad('`#[cfg]` on a tail expression', t.line)
                pending = None
        self.expect('}')
        return stmts, tail


# ------------------------------------------------------------------------------------------------ tables

EXPANDER_FIELDS = [('sub_char', 'char', 'subChar', 'char'), ('open', "&'static str", 'openD', 'str'),
                   ('close', "&'static str", 'closeD', 'str'), ('allow_undelimited_name', 'bool', 'allowUndelimited', 'bool')]
STEP_ENUM = [('Char', 'tuple', ['char']), ('GroupName', 'tuple', ["&'a str"]), ('GroupNum', 'tuple', ['usize']), ('Error', 'unit', [])]
STEP_DECL = "enum Step < 'a > { Char ( char ) , GroupName ( & 'a str ) , GroupNum ( usize ) , Error , }".split()
STEP_LEAN = {'Char': ('.char', 'char'), 'GroupName': ('.groupName', 'str'), 'GroupNum': ('.groupNum', 'usize'), 'Error': ('.error', None)}
ERRORS = {
    'Error :: CompileError ( CompileError :: NamedBackrefOnly )': '.namedBackrefOnly',
    'Error :: CompileError ( CompileError :: InvalidBackref )': '.invalidBackref',
}
LEAN_T = {'usize': 'Nat', 'int': 'Nat', 'u8': 'Nat', 'bool': 'Bool', 'char': 'Char', 'str': 'List Char', 'String': 'List Char',
          'Bytes': 'List Nat', 'bytes': 'List Nat', 'Step': 'Step', 'Match': 'List Char', 'chars': 'List Char'}
SIGS = {
    'default': 'fn default ( ) -> Self {',
    'python': 'pub fn python ( ) -> Expander {',
    'check': 'pub fn check ( & self , template : & str , regex : & Regex ) -> crate :: Result < ( ) > {',
    'escape': "pub fn escape < 'a > ( & self , text : & 'a str ) -> Cow < 'a , str > {",
    'expansion': "pub fn expansion ( & self , template : & str , captures : & Captures < '_ > ) -> String {",
    'write_expansion': "pub fn write_expansion ( & self , mut dst : impl std :: io :: Write , template : & str , captures : & Captures < '_ > , ) "
                       "-> std :: io :: Result < ( ) > {",
    'write_expansion_vec': "pub fn write_expansion_vec ( & self , dst : & mut Vec < u8 > , template : & str , captures : & Captures < '_ > , ) "
                           "-> core :: fmt :: Result {",
    'exec': "fn exec < 't , E > ( & self , template : & 't str , mut f : impl FnMut ( Step < 't > ) -> Result < ( ) , E > , ) -> Result < ( ) , E > {",
}
RESERVED = {'st', 'fuel', 'isId', 'e_', 'rest_'}


def vid(name):
    """the Lean identifier of a Rust variable: a name that the generated code uses for itself (RESERVED, `t1`, `t2`, …) is
    renamed apart (`n` -> `n_rs`), so that a local may be called anything"""
    return lean_id(name + '_rs') if (name in RESERVED or re.match(r't[0-9]+$', name)) else lean_id(name)


def clash_rs(name):
    return name.endswith('_rs') and (name[:-3] in RESERVED or re.match(r't[0-9]+$', name[:-3]) is not None)
NUM = ('usize', 'int', 'u8')


def lt(t):
    if isinstance(t, tuple):
        if t[0] == 'opt':
            s = lt(t[1])
            return 'Option %s' % ('(%s)' % s if ' ' in s and not s.startswith('(') else s)
        if t[0] == 'pair':
            return '(%s × %s)' % (lt(t[1]), lt(t[2]))
    if t not in LEAN_T:
        bad('internal: no Lean type for %r' % (t,))
    return LEAN_T[t]


def is_path(e, *names):
    return e[0] == 'path' and e[1] == list(names)


def same(a, b):
    if a in NUM and b in NUM:
        return True
    if isinstance(a, tuple) and isinstance(b, tuple) and a[0] == b[0] and len(a) == len(b):
        return all(x is None or y is None or same(x, y) for x, y in zip(a[1:], b[1:]))
    return a == b or {a, b} == {'str', 'Match'} or {a, b} == {'str', 'String'}


class Ctx:
    def __init__(self):
        self.types, self.mutable, self.fn, self.kind = {}, set(), None, None
        self.state = None       # the Lean text of the callback state in scope (closures / exec)
        self.loop = None

    def copy(self):
        c = Ctx()
        c.__dict__.update(self.__dict__)
        c.types, c.mutable = dict(self.types), set(self.mutable)
        return c


class Translator:
    def __init__(self, toks, std):
        self.toks, self.std = toks, std
        self.defs, self.names, self.have, self.tmpn = [], set(), set(), 0

    def fresh(self):
        self.tmpn += 1
        return 't%d' % self.tmpn

    def bind(self, c, name, t, line, mut=False):
        if name in c.types or clash_rs(name) or name in self.names:
            bad('`%s` shadows a name that is in scope (shadowing is not in the subset of this translator)' % name, line)
        c2 = c.copy()
        c2.types[name] = 'usize' if t == 'int' else t
        if mut:
            c2.mutable.add(name)
        return c2

    def pat(self, p, ty, line):
        """-> (lean pattern, [(name, type)])"""
        k = p[0]
        if k == 'pwild':
            return '_', []
        if k == 'pbind':
            return vid(p[1]), [(p[1], ty)]
        if k == 'pnone' and isinstance(ty, tuple) and ty[0] == 'opt':
            return 'none', []
        if k == 'psome' and isinstance(ty, tuple) and ty[0] == 'opt':
            s, b = self.pat(p[1], ty[1], line)
            return 'some %s' % ('(%s)' % s if ' ' in s and not s.startswith('(') else s), b
        if k == 'pok' and ty == 'ParseRes':
            s, b = self.pat(p[1], 'usize', line)
            return 'some %s' % s, b
        if k == 'ptuple' and isinstance(ty, tuple) and ty[0] == 'pair' and len(p[1]) == 2:
            (s1, b1), (s2, b2) = self.pat(p[1][0], ty[1], line), self.pat(p[1][1], ty[2], line)
            return '(%s, %s)' % (s1, s2), b1 + b2
        if k == 'pstep' and ty == 'Step':
            if p[1] not in STEP_LEAN:
                bad('`Step::%s` is not a variant in the translator\'s table' % p[1], line)
            con, aty = STEP_LEAN[p[1]]
            if (p[2] is None) != (aty is None):
                bad('`Step::%s`: wrong shape' % p[1], line)
            if aty is None:
                return con, []
            s, b = self.pat(p[2], aty, line)
            return '%s %s' % (con, s), b
        bad('pattern of form %s on a value of type %s' % (k, ty), line)

    # ---- pure expressions -> (lean text, type)
    def vex(self, e, c):
        k, line = e[0], e[-1]
        if k == 'int':
            return str(e[1]), 'int'
        if k == 'char':
            return lean_char(e[1]), 'char'
        if k == 'strlit':
            return lean_str(e[1]) if e[1] else '([] : List Char)', 'str'
        if k == 'bool':
            return ('true' if e[1] else 'false'), 'bool'
        if k in ('paren', 'ref', 'refmut'):
            return self.vex(e[1], c)
        if k == 'path':
            if e[1] == ['None']:
                return 'none', ('opt', None)
            if len(e[1]) != 1 or e[1][0] not in c.types:
                bad('`%s` as a value' % '::'.join(e[1]), line)
            n = e[1][0]
            if c.types[n] in ('Callback', 'Closure1'):
                bad('`%s` used as a value' % n, line)
            return ('self' if n == 'self' else vid(n)), c.types[n]
        if k == 'field':
            s, t = self.vex(e[1], c)
            if t == 'Expander':
                for f, _, proj, ty in EXPANDER_FIELDS:
                    if f == e[2]:
                        return '%s.%s' % (s, proj), ty
            if t == 'Regex' and e[2] == 'named_groups':
                return '%s.names' % s, 'NamedGroups'
            bad('field `.%s` of a value of type %s' % (e[2], t), line)
        if k == 'not':
            s, t = self.vex(e[1], c)
            if t != 'bool':
                bad('operand of `!` has type %s' % (t,), line)
            return '(!%s)' % s, 'bool'
        if k == 'cast':
            s, t = self.vex(e[1], c)
            if e[2] == 'u8' and t == 'char':
                return '(%s.toNat %% 256)' % s, 'u8'
            if e[2] == 'usize' and t in ('u8', 'usize'):
                return s, 'usize'
            if e[2] == 'u8' and t == 'usize':
                return '(%s %% 256)' % s, 'u8'
            bad('cast of a value of type %s to `%s`' % (t, e[2]), line)
        if k == 'typed':                     # `let x: T = e`
            s, t = self.vex(e[1], c)
            if not (t == e[2] or (t == 'int' and e[2] == 'usize')):
                bad('`let _: %s` of a value of type %s' % (e[2], t), line)
            return s, e[2]
        if k == 'matches':
            _, scrut, pats, _ = e
            s, t = self.vex(scrut, c)
            tests = []
            for q in pats:
                if q[0] == 'pint' and t in NUM:
                    tests.append('%s == %d' % (s, q[1]))
                elif q[0] == 'pchar' and t == 'char':
                    tests.append('%s == %s' % (s, lean_char(q[1])))
                else:
                    bad('`matches!`: pattern of form %s on a value of type %s' % (q[0], t), line)
            return '(%s)' % ' || '.join(tests), 'bool'
        if k == 'bin':
            _, op, a, b, _ = e
            (l, tl), (r, tr) = self.vex(a, c), self.vex(b, c)
            if op in ('&&', '||') and tl == tr == 'bool':
                return '(%s %s %s)' % (l, op, r), 'bool'
            if op in ('==', '!=') and same(tl, tr) and (tl in NUM or tl in ('char', 'bool')):
                return '(%s %s %s)' % (l, op, r), 'bool'
            if op in ('<', '<=', '>', '>=') and tl in NUM and tr in NUM:
                return '(decide (%s %s %s))' % (l, {'<': '<', '<=': '≤', '>': '>', '>=': '≥'}[op], r), 'bool'
            if op in ('+', '*') and tl in NUM and tr in NUM:
                return '(%s %s %s)' % (l, op, r), 'usize'
            bad('`%s` between %s and %s' % (op, tl, tr), line)
        if k == 'index':
            s, t = self.vex(e[1], c)
            if t == 'str' and e[2][0] == 'range' and e[2][2] is None:
                a, ta = self.vex(e[2][1], c)
                if ta not in NUM:
                    bad('slice start of type %s' % (ta,), line)
                return '(List.drop %s %s)' % (a, s), 'str'
            bad('indexing a value of type %s' % (t,), line)
        if k == 'struct':
            if e[1] not in (['Expander'],):
                bad('struct literal `%s { .. }`' % '::'.join(e[1]), line)
            given = {f: fe for f, fe, _ in e[2]}
            if set(given) != set(f for f, _, _, _ in EXPANDER_FIELDS) or len(given) != len(e[2]):
                bad('`Expander { .. }` does not give every field exactly once', line)
            vals = []
            for f, _, proj, ty in EXPANDER_FIELDS:
                v, t = self.vex(given[f], c)
                if not same(t, ty):
                    bad('field `%s` has type %s' % (f, t), line)
                vals.append('%s := %s' % (proj, v))
            return '({ %s } : Expander)' % ', '.join(vals), 'Expander'
        if k == 'call':
            return self.vex_call(e, c)
        if k == 'mcall':
            return self.vex_mcall(e, c)
        if k in ('if', 'iflet', 'match'):
            return self.vbranch(e, c, self.vex)
        if k == 'blockexpr':
            if e[1] or e[2] is None:
                bad('closure / block with statements where a single expression is expected', line)
            return self.vex(e[2], c)
        bad('expression form %s' % k, line)

    def vex_call(self, e, c):
        _, path, args, line = e
        if path == ['Some'] and len(args) == 1:
            s, t = self.vex(args[0], c)
            return '(some %s)' % s, ('opt', t)
        if path == ['parse_id'] and len(args) == 4:
            vals = [self.vex(a, c) for a in args]
            if [t for _, t in vals] != ['str', 'str', 'str', 'bool']:
                bad('arguments of `parse_id`: %s' % [t for _, t in vals], line)
            return '(parse_id isId %s)' % ' '.join(v for v, _ in vals), ('opt', ('pair', 'str', 'usize'))
        if path == ['parse_decimal'] and len(args) == 2:
            s, t = self.vex(args[0], c)
            if t != 'str' or args[1][0] != 'int' or args[1][1] != 0:
                bad('`parse_decimal(s, ix)` with `ix` other than the literal 0 (the adaptor is `parse_decimal(s, 0)`)', line)
            return '(parse_decimal %s)' % s, ('opt', ('pair', 'usize', 'usize'))
        if path in (['String', 'with_capacity'], ['Vec', 'with_capacity']) and len(args) == 1:
            s, t = self.vex(args[0], c)
            if t not in NUM:
                bad('capacity of type %s' % (t,), line)
            # neither the arithmetic of the argument nor the capacity (of bytes) may be able to overflow: statically, with the
            # adaptor fact LEN of rs2lean_ints (a `len()` is at most isize::MAX; `len_utf8()` is at most 4)
            def leaf(x):
                if x[0] == 'mcall' and not x[3] and x[2] in ('len', 'len_utf8'):
                    return ints.ISIZE_MAX if x[2] == 'len' else 4
                return None
            b = ints.cap_bound(args[0], leaf)
            if b is None or b > ints.ISIZE_MAX:
                bad('`%s(..)`: its argument can overflow / exceed isize::MAX, and this translator has no panic outcome for it'
                    % '::'.join(path), line)
            return ('([] : List Char)', 'String') if path[0] == 'String' else ('([] : List Nat)', 'Bytes')
        bad('call of `%s`' % '::'.join(path), line)

    def closure1(self, cl, c, argty):
        """a one-parameter closure with a pure body -> (binder, body text, body type)"""
        _, params, body, line = cl
        if len(params) != 1 or params[0][0] != 'pbind':
            bad('closure that does not take exactly one plain parameter', line)
        c2 = self.bind(c, params[0][1], argty, line)
        s, t = self.vex(body, c2)
        return vid(params[0][1]), s, t

    def vex_mcall(self, e, c):
        _, recv, m, args, line = e
        if m == 'or_else' and len(args) == 1 and args[0][0] == 'closure' and not args[0][1]:
            s, t = self.vex(recv, c)
            b, tb = self.vex(args[0][2], c)
            if not (isinstance(t, tuple) and t[0] == 'opt' and same(t, tb)):
                bad('`.or_else(|| ..)` on a value of type %s with a closure of type %s' % (t, tb), line)
            return '(Option.orElse %s (fun _ => %s))' % (s, b), t
        if m == 'and_then' and len(args) == 1 and args[0][0] == 'closure':
            s, t = self.vex(recv, c)
            if not (isinstance(t, tuple) and t[0] == 'opt'):
                bad('`.and_then(..)` on a value of type %s' % (t,), line)
            x, b, tb = self.closure1(args[0], c, t[1])
            if not (isinstance(tb, tuple) and tb[0] == 'opt'):
                bad('the closure of `and_then` has type %s' % (tb,), line)
            return '(Option.bind %s (fun %s => %s))' % (s, x, b), tb
        s, t = self.vex(recv, c)
        av = [self.vex(a, c) for a in args]
        at = [x[1] for x in av]
        if t == 'str' and m == 'starts_with' and at == ['char']:
            return '(List.head? %s == some %s)' % (s, av[0][0]), 'bool'
        if t == 'str' and m == 'chars' and not args:
            return s, 'chars'
        if t == 'chars' and m == 'as_str' and not args:
            return s, 'str'
        if t == 'str' and m == 'len' and not args:
            return '(strBytes %s).length' % s, 'usize'
        if t in ('str', 'String') and m == 'is_empty' and not args:
            return '(List.isEmpty %s)' % s, 'bool'
        if t == 'usize' and m in ('min', 'max', 'saturating_sub', 'abs_diff') and len(at) == 1 and at[0] in NUM:
            return ints.method(m, s, av[0][0], 'usize'), 'usize'
        if t == 'char' and m == 'is_ascii_digit' and not args:
            return '(decide (48 ≤ %s.toNat ∧ %s.toNat ≤ 57))' % (s, s), 'bool'
        if t == 'char' and m == 'len_utf8' and not args:
            return '(strBytes [%s]).length' % s, 'usize'
        if t == 'str' and m == 'contains' and at == ['char']:
            return '(List.contains %s %s)' % (s, av[0][0]), 'bool'
        if t == 'str' and m == 'replace' and len(at) == 2 and at[0] == 'char' and at[1] in ('str', 'String'):
            return '(replaceChar %s %s %s)' % (s, av[0][0], av[1][0]), 'String'
        if t == 'Caps' and m == 'name' and at == ['str']:
            return '(Caps.name %s %s)' % (s, av[0][0]), ('opt', 'Match')
        if t == 'Caps' and m == 'get' and len(at) == 1 and at[0] in NUM:
            return '(Caps.get %s %s)' % (s, av[0][0]), ('opt', 'Match')
        if t == 'Match' and m == 'as_str' and not args:
            return s, 'str'
        if t in ('str', 'String') and m == 'as_bytes' and not args:
            return '(strBytes %s)' % s, 'bytes'
        if t == 'char' and m == 'to_string' and not args:
            return '[%s]' % s, 'String'
        if t == 'str' and m == 'parse' and not args:
            return '(parseUsize %s)' % s, 'ParseRes'
        if t == 'ParseRes' and m == 'ok' and not args:
            return s, ('opt', 'usize')
        if t == 'NamedGroups' and m == 'is_empty' and not args:
            return '%s.isEmpty' % s, 'bool'
        if t == 'NamedGroups' and m == 'contains_key' and at == ['str']:
            return '(List.contains %s %s)' % (s, av[0][0]), 'bool'
        if t == 'Regex' and m == 'captures_len' and not args:
            return '%s.capturesLen' % s, 'usize'
        bad('method call `.%s(…)` on a value of type %s' % (m, t), line)

    def vbranch(self, e, c, leaf):
        """`if` / `if let` / `match` whose blocks are single expressions, each translated by `leaf`"""
        k, line = e[0], e[-1]

        def blk(b, c2):
            if b is None or b[0] or b[1] is None:
                bad('a branch that is not a single expression', line)
            return leaf(b[1], c2)
        if k == 'if':
            cs, ct = self.vex(e[1], c)
            (x, tx), (y, ty) = blk(e[2], c), blk(e[3], c)
            if ct != 'bool' or not same(tx, ty):
                bad('`if` expression: condition %s, branches %s / %s' % (ct, tx, ty), line)
            return '(if %s then %s else %s)' % (cs, x, y), tx
        if k == 'iflet':
            arms = [([e[1]], e[3], line), ([('pwild', line)], e[4], line)]
            scrut = e[2]
        else:
            scrut, arms = e[1], e[2]
        s, st = self.vex(scrut, c)
        out, ty = [], None
        for pats, body, aline in arms:
            if len(pats) != 1:
                bad('or-pattern', aline)
            p, binds = self.pat(pats[0], st, aline)
            c2 = c
            for n, t in binds:
                c2 = self.bind(c2, n, t, aline)
            x, tx = blk(body, c2)
            if ty is not None and not same(ty, tx):
                bad('arms of different types %s / %s' % (ty, tx), aline)
            ty = tx if ty is None or ty == ('opt', None) else ty
            out.append('| %s => %s' % (p, x))
        return '(match %s with %s)' % (s, ' '.join(out)), ty

    # ---- the value of a callback: `Result<(), E>` with the state it leaves -> (lean text of type `Except ε σ`, 'Result')
    def cex(self, e, c):
        k, line = e[0], e[-1]
        st = c.state
        if k == 'paren':
            return self.cex(e[1], c)
        if k in ('if', 'iflet', 'match'):
            return self.vbranch(e, c, self.cex)
        if k == 'blockexpr':
            if e[1] or e[2] is None:
                bad('block with statements where a single expression is expected', line)
            return self.cex(e[2], c)
        if k == 'call' and e[1] == ['Ok'] and len(e[2]) == 1:
            a = e[2][0]
            if a[0] == 'unit':
                return '.ok %s' % st, 'Result'
            if a[0] == 'mcall' and a[1][0] == 'path' and a[1][1] == [c.dst] and len(a[3]) == 1:
                v, t = self.vex(a[3][0], c)
                if a[2] == 'extend' and t == 'bytes':
                    return '.ok (%s ++ %s)' % (st, v), 'Result'
                if a[2] == 'push' and t == 'u8':
                    return '.ok (%s ++ [%s])' % (st, v), 'Result'
            bad('`Ok(..)` of something other than `()`, `dst.extend(bytes)`, `dst.push(byte)`', line)
        if k == 'write':
            a = e[1]
            if len(a) == 3 and a[0][0] == 'path' and a[0][1] == [c.dst] and a[1][0] == 'strlit' and a[1][1] == '{}':
                v, t = self.vex(a[2], c)
                if t == 'char':
                    return '.ok (%s ++ strBytes [%s])' % (st, v), 'Result'
                if t in ('str', 'String'):
                    return '.ok (%s ++ strBytes %s)' % (st, v), 'Result'
            bad('`write!` that is not `write!(dst, "{}", <char or str>)`', line)
        if k == 'call' and e[1] == ['Err'] and len(e[2]) == 1 and c.errors:
            toks = self.flat(e[2][0])
            if toks in ERRORS:
                return '.error %s' % ERRORS[toks], 'Result'
            if toks.startswith('Error :: ParseError ( 0 , ParseError :: GeneralParseError ('):
                return '.error .parseError', 'Result'
            bad('`Err(..)` of an error that has no counterpart in the model: %s' % toks, line)
        if k == 'call' and len(e[1]) == 1 and c.types.get(e[1][0]) == 'Closure1' and len(e[2]) == 1:
            v, t = self.vex(e[2][0], c)
            if t not in NUM:
                bad('argument of `%s` has type %s' % (e[1][0], t), line)
            return '(%s %s)' % (vid(e[1][0]), v), 'Result'
        bad('value of a callback: expected `Ok(..)`, `Err(..)`, `write!(..)`, a call of a local closure, or `if` / `match` of these', line)

    def flat(self, e):
        """an expression back as a token string (for the error table)"""
        k = e[0]
        if k == 'path':
            return ' :: '.join(e[1])
        if k == 'call':
            return '%s ( %s )' % (' :: '.join(e[1]), ' , '.join(self.flat(a) for a in e[2]))
        if k == 'int':
            return str(e[1])
        if k == 'mcall':
            return '%s . %s ( %s )' % (self.flat(e[1]), e[2], ' , '.join(self.flat(a) for a in e[3]))
        if k == 'strlit':
            return '"%s"' % e[1]
        return '?'

    def callback(self, cl, c, statevar):
        """`|step| <Result expr>` -> `(fun step st => …)`"""
        _, params, body, line = cl
        if len(params) != 1 or params[0][0] != 'pbind':
            bad('the callback must take exactly one plain parameter', line)
        c2 = self.bind(c, params[0][1], 'Step', line)
        c2.state = vid(statevar) if statevar else '()'
        s, t = self.cex(body, c2)
        return '(fun %s %s => %s)' % (vid(params[0][1]), vid(statevar) if statevar else '_', s)

    # ---- statements, continuation-passing; k(c, ind, tail)
    def block(self, stmts, tail, c, ind, k):
        stmts = [(s[2] if s[0] == 'cfg' else s) for s in stmts if s[0] != 'cfg' or s[1] == ('std' if self.std else 'nostd')]
        return self.stmts(stmts, tail, c, ind, k)

    def stmts(self, stmts, tail, c, ind, k):
        if not stmts:
            return k(c, ind, tail)
        s, rest = stmts[0], stmts[1:]
        kind, line = s[0], s[-1]
        cont = lambda c2, i2: self.stmts(rest, tail, c2, i2, k)
        if kind == 'let':
            _, name, mut, e, _ = s
            if e[0] == 'closure':
                if len(e[1]) != 1 or e[1][0][0] != 'pbind':
                    bad('a local closure must take exactly one plain parameter', line)
                c2 = self.bind(c, e[1][0][1], 'usize', line)
                c2.state = '()'
                body, _ = self.cex(e[2], c2)
                c3 = self.bind(c, name, 'Closure1', line)
                return [ind + 'let %s : Nat → Except CheckErr Unit := fun %s => %s' % (vid(name), vid(e[1][0][1]), body)] \
                    + cont(c3, ind)
            if e[0] in ('if', 'iflet') and not self.pure(e, c):
                def kv(c_inner, i2, tl):
                    if tl is None:
                        bad('this branch of `let %s = …` has no value' % name, line)
                    v, t = self.vex(tl, c_inner)
                    c3 = self.bind(c, name, t, line, mut)
                    c3.state = c_inner.state
                    return [i2 + 'let %s : %s := %s' % (vid(name), lt(c3.types[name]), v)] + cont(c3, i2)
                return self.cps(e, c, ind, kv)
            v, t = self.vex(e, c)
            c2 = self.bind(c, name, t, line, mut)
            return [ind + 'let %s : %s := %s' % (vid(name), lt(c2.types[name]), v)] + cont(c2, ind)
        if kind == 'assign':
            _, target, op, e, _ = s
            if target[0] != 'path' or len(target[1]) != 1 or target[1][0] not in c.mutable:
                bad('assignment to something that is not a `let mut` local', line)
            n = target[1][0]
            v, t = self.vex(e, c)
            if not same(t, c.types[n]):
                bad('assignment of a value of type %s to `%s` of type %s' % (t, n, c.types[n]), line)
            return [ind + 'let %s : %s := %s' % (vid(n), lt(c.types[n]), v)] + cont(c, ind)
        if kind == 'expr':
            e = s[1]
            if e[0] == 'unit':
                return cont(c, ind)
            if e[0] == 'try' and e[1][0] == 'call' and len(e[1][1]) == 1 and c.types.get(e[1][1][0]) == 'Callback' and len(e[1][2]) == 1:
                step = self.step_value(e[1][2][0], c)
                return [ind + 'match %s %s st with' % (vid(e[1][1][0]), step), ind + '| .error e_ => .error e_', ind + '| .ok st =>'] \
                    + cont(c, ind + '  ')
            if e[0] in ('if', 'iflet'):
                return self.cps(e, c, ind, lambda c_inner, i2, tl: self.no_value(tl, c, i2, cont))
            if e[0] == 'mcall' and e[1][0] == 'path' and len(e[1][1]) == 1 and c.types.get(e[1][1][0]) == 'String' and e[2] == 'push' \
                    and e[1][1][0] in c.mutable and len(e[3]) == 1:
                v, t = self.vex(e[3][0], c)
                if t != 'char':
                    bad('`push` of a value of type %s' % (t,), line)
                n = vid(e[1][1][0])
                return [ind + 'let %s : List Char := (%s ++ [%s])' % (n, n, v)] + cont(c, ind)
            if e[0] == 'mcall' and e[2] == 'expect' and c.kind == 'expansion':
                inner = e[1]
                if inner[0] == 'mcall' and is_path(inner[1], 'self') and inner[2] in ('write_expansion', 'write_expansion_vec') \
                        and len(inner[3]) == 3 and inner[3][0][0] == 'refmut':
                    gen = {'write_expansion': 'genWriteExpansion', 'write_expansion_vec': 'genWriteExpansionVec'}[inner[2]]
                    if gen not in self.have:
                        bad('`%s` is called before it is translated' % inner[2], line)
                    vals = [self.vex(a, c) for a in inner[3]]
                    if [t for _, t in vals] != ['Bytes', 'str', 'Caps'] or inner[3][0][1][0] != 'path' \
                            or inner[3][0][1][1][0] not in c.mutable:
                        bad('arguments of `%s`' % inner[2], line)
                    d = vals[0][0]
                    return [ind + 'match %s isId self %s %s %s with' % (gen, d, vals[1][0], vals[2][0]),
                            ind + '| .error _ => none', ind + '| .ok %s =>' % d] + cont(c, ind + '  ')
            bad('statement outside the subset', line)
        if kind == 'whilelet':
            return self.while_let(s, c, ind, cont)
        bad('statement form %s' % kind, line)

    def no_value(self, tl, c, ind, cont):
        if tl is not None:
            bad('a value is dropped here', tl[-1])
        return cont(c, ind)

    def pure(self, e, c):
        try:
            saved = self.tmpn
            self.vbranch(e, c, self.vex)
            return True
        except Unsupported:
            return False
        finally:
            self.tmpn = saved

    def step_value(self, e, c):
        if e[0] == 'path' and len(e[1]) == 2 and e[1][0] == 'Step' and e[1][1] in STEP_LEAN and STEP_LEAN[e[1][1]][1] is None:
            return STEP_LEAN[e[1][1]][0]
        if e[0] == 'call' and len(e[1]) == 2 and e[1][0] == 'Step' and e[1][1] in STEP_LEAN and len(e[2]) == 1:
            con, aty = STEP_LEAN[e[1][1]]
            v, t = self.vex(e[2][0], c)
            if aty is None or not same(t, aty):
                bad('`Step::%s(..)` of a value of type %s' % (e[1][1], t), e[-1])
            return '(%s %s)' % (con, v)
        bad('argument of the callback that is not `Step::V(..)`', e[-1])

    def cps(self, e, c, ind, kv):
        k, line = e[0], e[-1]
        if k == 'if':
            _, cnd, th, el, _ = e
            cs, ct = self.vex(cnd, c)
            if ct != 'bool':
                bad('condition of type %s' % (ct,), line)
            els = el if el else ([], None)
            return [ind + 'if %s then' % cs] + self.block(th[0], th[1], c.copy(), ind + '  ', self.kv_branch(kv)) + [ind + 'else'] \
                + self.block(els[0], els[1], c.copy(), ind + '  ', self.kv_branch(kv))
        _, pat, scrut, th, el, _ = e
        s, st = self.vex(scrut, c)
        p, binds = self.pat(pat, st, line)
        c2 = c
        for n, t in binds:
            c2 = self.bind(c2, n, t, line)
        els = el if el else ([], None)
        return [ind + 'match %s with' % s, ind + '| %s =>' % p] + self.block(th[0], th[1], c2, ind + '  ', self.kv_branch(kv)) \
            + [ind + '| _ =>'] + self.block(els[0], els[1], c.copy(), ind + '  ', self.kv_branch(kv))

    def kv_branch(self, kv):
        def k(c2, i2, tl):
            if tl is not None and tl[0] in ('if', 'iflet'):
                return self.cps(tl, c2, i2, kv)          # `else if …`
            return kv(c2, i2, tl)
        return k

    def while_let(self, s, c, ind, cont):
        _, pat, e, body, line = s
        if c.fn != 'exec' or c.loop:
            bad('`while let` outside `exec`', line)
        if not (pat[0] == 'psome' and pat[1][0] == 'pbind' and e[0] == 'mcall' and e[2] == 'next' and not e[3]
                and e[1][0] == 'path' and len(e[1][1]) == 1 and c.types.get(e[1][1][0]) == 'chars' and e[1][1][0] in c.mutable):
            bad('`while let` that is not `while let Some(c) = iter.next()` on a `let mut iter = s.chars()`', line)
        it, var = e[1][1][0], pat[1][1]
        cl = self.bind(c, var, 'char', line)
        cl.loop = True
        self.names.add('loopExec')
        lines = ['def loopExec {σ ε : Type} (isId : Char → Bool) (self : Expander) (f : Step → σ → Except ε σ) : '
                 'Nat → List Char → σ → Except ε σ',
                 '  | 0, %s, st => .ok st' % vid(it),
                 '  | fuel + 1, %s, st =>' % vid(it),
                 '    match %s with' % vid(it),
                 '    | [] => .ok st',
                 '    | %s :: %s =>' % (vid(var), vid(it))]

        def end(c2, i2, tl):
            if tl is not None:
                bad('`while` body with a value', line)
            return [i2 + 'loopExec isId self f fuel %s st' % vid(it)]
        lines += self.block(body, None, cl, '      ', end)
        self.defs.append(('the `while let Some(c) = iter.next()` loop of `exec`, with fuel: what is left of the template, the state '
                          'of the callback', lines))
        c2 = c.copy()
        del c2.types[it]                      # the iterator is consumed by the loop
        return [ind + 'match loopExec isId self f (template.length + 1) %s st with' % vid(it), ind + '| .error e_ => .error e_',
                ind + '| .ok st =>'] + cont(c2, ind + '  ')

    # ---- the functions
    def body_at(self, sig):
        toks = self.toks
        want = sig.split()
        i = find_seq(toks, want)
        if i < 0:
            bad('cannot find `%s`' % sig.replace(' ', ''))
        if find_seq(toks, want, i + 1) >= 0:
            bad('`%s` occurs twice' % sig.replace(' ', ''))
        stmts, tail = Parser(toks, i + len(want) - 1).block()
        return stmts, tail, toks[i].line

    def exec_call(self, tl, c, statevar, st0):
        """the tail `self.exec(template, |step| …)` -> lean text"""
        if not (tl is not None and tl[0] == 'mcall' and is_path(tl[1], 'self') and tl[2] == 'exec' and len(tl[3]) == 2
                and tl[3][1][0] == 'closure'):
            bad('`%s` does not end in `self.exec(template, |step| …)`' % c.fn, tl[-1] if tl else None)
        if 'genExec' not in self.have:
            bad('`exec` is called before it is translated', tl[-1])
        tv, tt = self.vex(tl[3][0], c)
        if tt != 'str':
            bad('first argument of `exec` has type %s' % (tt,), tl[-1])
        return 'genExec isId self %s %s %s' % (tv, self.callback(tl[3][1], c, statevar), st0)

    def finish(self, c, ind, tl):
        line = tl[-1] if tl else None
        if c.kind == 'exec':
            if not (tl and tl[0] == 'call' and tl[1] == ['Ok'] and len(tl[2]) == 1 and tl[2][0][0] == 'unit'):
                bad('`exec` does not end in `Ok(())`', line)
            return [ind + '.ok st']
        if c.kind == 'check':
            return [ind + self.exec_call(tl, c, None, '()')]
        if c.kind == 'write':
            return [ind + self.exec_call(tl, c, c.dst, vid(c.dst))]
        if c.kind == 'cow':
            if tl is not None and tl[0] in ('if', 'iflet'):
                return self.cps(tl, c, ind, self.finish)
            if tl and tl[0] == 'call' and tl[1] in (['Cow', 'Owned'], ['Cow', 'Borrowed']) and len(tl[2]) == 1:
                v, t = self.vex(tl[2][0], c)
                if tl[1][1] == 'Borrowed' and t == 'str':
                    return [ind + 'none']
                if tl[1][1] == 'Owned' and t == 'String':
                    return [ind + 'some %s' % v]
            bad('`escape` does not end in `Cow::Owned(..)` / `Cow::Borrowed(text)`', line)
        if c.kind == 'expansion':
            if tl and tl[0] == 'mcall' and tl[2] == 'expect' and tl[1][0] == 'call' and tl[1][1] == ['String', 'from_utf8'] and len(tl[1][2]) == 1:
                v, t = self.vex(tl[1][2][0], c)
                if t == 'Bytes':
                    return [ind + 'fromUtf8 %s' % v]
            bad('`expansion` does not end in `String::from_utf8(cursor).expect(..)`', line)
        bad('internal: kind %s' % c.kind, line)

    def add(self, name, doc, lines):
        self.defs.append((doc, lines))
        self.have.add(name)
        self.names.add(name)

    def run(self):
        toks = self.toks
        fields, sline = parse_struct(toks, 'Expander')
        if fields != [(f, ty) for f, ty, _, _ in EXPANDER_FIELDS]:
            bad('struct Expander: fields %s differ from the translator\'s table' % fields, sline)
        if find_seq(toks, STEP_DECL) < 0:
            bad('`enum Step<\'a> { Char(char), GroupName(&\'a str), GroupNum(usize), Error, }` not found (the translator\'s table)')
        k = find_seq(toks, ['use', 'crate', '::', 'parse', '::', '{'])
        if k < 0 or not {'parse_decimal', 'parse_id'} <= set(x.text for x in toks[k:matching(toks, k + 5)]):
            bad('`use crate::parse::{parse_decimal, parse_id};` not found')
        for fn, gen in (('default', 'genDefault'), ('python', 'genPython')):
            stmts, tail, line = self.body_at(SIGS[fn])
            if stmts or tail is None:
                bad('`fn %s`: expected one `Expander { .. }` expression' % fn, line)
            v, t = self.vex(tail, Ctx())
            if t != 'Expander':
                bad('`fn %s` returns a value of type %s' % (fn, t), line)
            self.add(gen, '`Expander::%s` (expand.rs line %d)' % (fn, line), ['def %s : Expander :=' % gen, '  ' + v])
        # exec
        stmts, tail, line = self.body_at(SIGS['exec'])
        c = Ctx()
        c.fn, c.kind, c.state, c.dst, c.errors = 'exec', 'exec', 'st', None, False
        c.types = {'self': 'Expander', 'template': 'str', 'f': 'Callback'}
        self.tmpn = 0
        body = self.block(stmts, tail, c, '  ', self.finish)
        self.add('genExec', '`Expander::exec` (expand.rs line %d): the callback is a parameter, `st` its state' % line,
                 ['def genExec {σ ε : Type} (isId : Char → Bool) (self : Expander) (template : List Char) (f : Step → σ → Except ε σ) '
                  '(st : σ) : Except ε σ :='] + body)
        # check
        stmts, tail, line = self.body_at(SIGS['check'])
        c = Ctx()
        c.fn, c.kind, c.state, c.dst, c.errors = 'check', 'check', '()', None, True
        c.types = {'self': 'Expander', 'template': 'str', 'regex': 'Regex'}
        self.add('genCheck', '`Expander::check` (expand.rs line %d)' % line,
                 ['def genCheck (isId : Char → Bool) (self : Expander) (template : List Char) (regex : RegexInfo) : Except CheckErr Unit :=']
                 + self.block(stmts, tail, c, '  ', self.finish))
        # escape
        stmts, tail, line = self.body_at(SIGS['escape'])
        c = Ctx()
        c.fn, c.kind, c.dst, c.errors = 'escape', 'cow', None, False
        c.types = {'self': 'Expander', 'text': 'str'}
        self.add('genEscape', '`Expander::escape` (expand.rs line %d); `none` = `Cow::Borrowed`' % line,
                 ['def genEscape (self : Expander) (text : List Char) : Option (List Char) :='] + self.block(stmts, tail, c, '  ', self.finish))
        # write_expansion, write_expansion_vec
        for fn, gen in (('write_expansion', 'genWriteExpansion'), ('write_expansion_vec', 'genWriteExpansionVec')):
            stmts, tail, line = self.body_at(SIGS[fn])
            c = Ctx()
            c.fn, c.kind, c.dst, c.errors = fn, 'write', 'dst', False
            c.types = {'self': 'Expander', 'dst': 'Bytes', 'template': 'str', 'captures': 'Caps'}
            self.add(gen, '`Expander::%s` (expand.rs line %d): `dst` is the list of bytes written' % (fn, line),
                     ['def %s (isId : Char → Bool) (self : Expander) (dst : List Nat) (template : List Char) (captures : Caps) : '
                      'Except Unit (List Nat) :=' % gen] + self.block(stmts, tail, c, '  ', self.finish))
        # expansion, with and without `feature = "std"`
        stmts, tail, line = self.body_at(SIGS['expansion'])
        for std, gen in ((True, 'genExpansion'), (False, 'genExpansionNoStd')):
            self.std = std
            c = Ctx()
            c.fn, c.kind, c.dst, c.errors = 'expansion', 'expansion', None, False
            c.types = {'self': 'Expander', 'template': 'str', 'captures': 'Caps'}
            self.add(gen, '`Expander::expansion` (expand.rs line %d) %s `feature = "std"`; `none` = an `expect` panics' % (
                line, 'with' if std else 'without'),
                ['def %s (isId : Char → Bool) (self : Expander) (template : List Char) (captures : Caps) : Option (List Char) :=' % gen]
                + self.block(stmts, tail, c, '  ', self.finish))

    def render(self):
        L = ['/- generated by tools/rs2lean_expand.py from src/expand.rs — do not edit -/',
             'import FancyModel.GenExpandPrelude',
             '/-!',
             '# `Expander` (src/expand.rs), translated statement by statement',
             '',
             '`default`, `python`, `exec` (the tokenizer loop; its callback `f` is a state-passing parameter), `check`, `escape`,',
             '`write_expansion`, `write_expansion_vec`, `expansion`. `parse_id` / `parse_decimal` (src/parse.rs) are adaptors, see',
             'GenExpandPrelude.lean. Proofs/C12c.lean proves every definition equal to the hand-written model (Model/Expand.lean).',
             '-/',
             'set_option linter.unusedVariables false',
             'namespace Fancy.GenExpand',
             'open Fancy.Expand',
             'noncomputable section      -- `fromUtf8` (the inverse of the UTF-8 encoding) is specified, not computed',
             '']
        for doc, lines in self.defs:
            L.append('/-- %s -/' % doc)
            L += lines
            L.append('')
        L.append('end')
        L.append('end Fancy.GenExpand')
        return '\n'.join(L) + '\n'


def translate(src_path):
    tr = Translator(tokenize(open(src_path).read()), True)
    tr.run()
    return tr.render()


def main(argv):
    src = os.environ.get('RS2LEAN_EXPAND_SRC', DEFAULT_SRC)
    out = os.environ.get('RS2LEAN_EXPAND_OUT', DEFAULT_OUT)
    args, pos, stub_on_failure = list(argv), [], False
    while args:
        a = args.pop(0)
        if a == '-o':
            out = args.pop(0)
        elif a == '--stub-on-failure':
            stub_on_failure = True
        elif a in ('-h', '--help'):
            print(__doc__)
            return 0
        else:
            pos.append(a)
    if len(pos) > 1:
        print('rs2lean_expand.py: too many arguments')
        return 2
    if pos:
        src = pos[0]
    failure = None
    try:
        text = translate(src)
    except Unsupported as e:
        where = '%s:%s: ' % (src, e.line) if e.line else '%s: ' % src
        failure = 'rs2lean_expand.py: NOT TRANSLATED - %s%s' % (where, e.msg)
    except Exception as e:                  # whatever goes wrong inside the translator is a refusal: never a stale file
        failure = 'rs2lean_expand.py: NOT TRANSLATED - %s: %s: %r' % (src, type(e).__name__, e)
    if failure is not None:
        print(failure)
        if not stub_on_failure or out == '-':
            return 2
        stub = ('/- tools/rs2lean_expand.py could not translate src/expand.rs (exit 2):\n%s\n-/\n'
                'namespace Fancy.GenExpand\n'
                'theorem translator_could_not_read_expand_rs : False := by\n'
                '  exact translation_failed   -- deliberately unresolved: see the comment above\n'
                'end Fancy.GenExpand\n') % failure.replace('-/', '- /')[-1500:]
        old = open(out).read() if os.path.exists(out) else ''
        if old != stub:
            with open(out, 'w') as f:
                f.write(stub)
        print('rs2lean_expand.py: src/expand.rs is not translated; %s now holds a failing stub (Proofs/C12c will not build)' % os.path.basename(out))
        return 0
    if out == '-':
        sys.stdout.write(text)
        return 0
    old = open(out).read() if os.path.exists(out) else None
    if old != text:
        with open(out, 'w') as f:
            f.write(text)
    print('rs2lean_expand.py: ok (%s -> %s%s)' % (src, out, '' if old != text else ', unchanged'))
    return 0


if __name__ == '__main__':
    sys.exit(main(sys.argv[1:]))
