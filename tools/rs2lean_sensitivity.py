#!/usr/bin/env python3
"""Sensitivity of the analyzer tie (tools/rs2lean_analyze.py + lean/FancyModel/Proofs/C13c.lean).

For the unmutated /repo/src/analyze.rs, five hand-made mutations and every seeded/*/*/patch.diff that touches
src/analyze.rs: translate a scratch COPY of the file into a scratch GeneratedAnalyze.lean, compile it to a scratch
.olean (module AnaScratch.GeneratedAnalyze), and elaborate a copy of Proofs/C13c.lean in which only the import line
`import FancyModel.GeneratedAnalyze` is redirected to it. Nothing under /repo or /verif/lean is written. Prints a markdown table.

usage: rs2lean_sensitivity.py [--work DIR]      (default /tmp/ana)
"""
import glob, os, shutil, subprocess, sys

VERIF = os.path.dirname(os.path.dirname(os.path.abspath(__file__)))
LEAN = os.path.join(VERIF, 'lean')
SRC = '/repo/src/analyze.rs'
TRANSLATOR = os.path.join(VERIF, 'tools', 'rs2lean_analyze.py')
PROOF = os.path.join(LEAN, 'FancyModel', 'Proofs', 'C13c.lean')


def sh(cmd, **kw):
    return subprocess.run(cmd, stdout=subprocess.PIPE, stderr=subprocess.STDOUT, text=True, **kw)


def once(text, old, new, what):
    if text.count(old) != 1:
        sys.exit('mutation %s: the text to replace occurs %d times' % (what, text.count(old)))
    return text.replace(old, new)


def mutations(src):
    a1 = '                    const_size &= child_info.const_size && min_size == child_info.min_size;\n'
    a2 = '                    min_size = min(min_size, child_info.min_size);\n'
    yield ('(a) Alt: swap `const_size &= …` / `min_size = min(…)`', once(src, a1 + a2, a2 + a1, 'a'))
    b = '''                    && child_info_condition
                        .min_size
                        .saturating_add(child_info_truth.min_size)
                        == child_info_false.min_size;'''
    yield ('(b) Conditional: last conjunct `min_size == child_info_false.min_size`',
           once(src, b, '                    && min_size == child_info_false.min_size;', 'b'))
    yield ('(c) Repeat: `lo == hi` -> `lo <= hi`', once(src, 'child_info.const_size && lo == hi;', 'child_info.const_size && lo <= hi;', 'c'))
    d = '''            Expr::KeepOut => {
                hard = true;
'''
    yield ('(d) KeepOut: delete `hard = true;`', once(src, d, '            Expr::KeepOut => {\n', 'd'))
    e = '''            Expr::Any { .. } => {
                min_size = 1;'''
    yield ('(e) Any: `min_size = 1` -> `min_size = 0`', once(src, e, e.replace('= 1;', '= 0;'), 'e'))
    f = '''            Expr::KeepOut => {
                hard = true;
                const_size = true;
'''
    yield ('(control) KeepOut: swap the independent `hard = true;` / `const_size = true;` (same meaning)',
           once(src, f, '''            Expr::KeepOut => {
                const_size = true;
                hard = true;
''', 'f'))
    yield ('(control) comments and blank lines added (same meaning)',
           once(src, '                min_size = 1;\n                const_size = true;\n',
                '                min_size = 1; // one character\n\n                /* always */ const_size = true;\n', 'g'))


def locate(line):
    """the theorem and the arm of Proofs/C13c.lean that contain a line"""
    import re
    src = open(PROOF).read().split('\n')
    thm = arm = None
    for k in range(min(line, len(src)) - 1, -1, -1):
        m = re.match(r'^  \| (.*?) => by', src[k])
        if m and arm is None and thm is None:
            arm = m.group(1)
        m = re.match(r'^theorem (\S+)', src[k])
        if m:
            thm = m.group(1)
            break
    return '`%s`%s' % (thm, ', arm `%s`' % arm if arm else '')


def main():
    work = '/tmp/ana'
    if '--work' in sys.argv:
        work = sys.argv[sys.argv.index('--work') + 1]
    shutil.rmtree(work, ignore_errors=True)
    os.makedirs(work)
    lean_path = sh(['lake', 'env', 'printenv', 'LEAN_PATH'], cwd=LEAN).stdout.strip().split('\n')[-1]
    lean_bin = sh(['lake', 'env', 'which', 'lean'], cwd=LEAN).stdout.strip().split('\n')[-1]
    src = open(SRC).read()
    cases = [('unmutated /repo/src/analyze.rs', src)] + list(mutations(src))
    for p in sorted(glob.glob(os.path.join(VERIF, 'seeded', '*', '*', 'patch.diff'))):
        if 'src/analyze.rs' not in open(p).read():
            continue
        d = os.path.join(work, 'patch')
        shutil.rmtree(d, ignore_errors=True)
        os.makedirs(os.path.join(d, 'src'))
        shutil.copy(SRC, os.path.join(d, 'src', 'analyze.rs'))
        r = sh(['patch', '-p1', '-s', '-i', p], cwd=d)
        name = 'seeded/' + os.path.relpath(os.path.dirname(p), os.path.join(VERIF, 'seeded'))
        if r.returncode != 0:
            cases.append((name, None))
        else:
            cases.append((name, open(os.path.join(d, 'src', 'analyze.rs')).read()))
    base_gen = None
    rows = []
    for i, (name, text) in enumerate(cases):
        d = os.path.join(work, 'c%02d' % i)
        os.makedirs(os.path.join(d, 'lib', 'AnaScratch'))
        if text is None:
            rows.append((name, 'patch does not apply', '-', ''))
            continue
        rs = os.path.join(d, 'analyze.rs')
        open(rs, 'w').write(text)
        os.makedirs(os.path.join(d, 'root', 'AnaScratch'))
        gen = os.path.join(d, 'root', 'AnaScratch', 'GeneratedAnalyze.lean')
        r = sh([sys.executable, TRANSLATOR, rs, '-o', gen, '--lib', '/repo/src/lib.rs'])
        if r.returncode != 0:
            rows.append((name, 'REJECTED (exit %d)' % r.returncode, '-', r.stdout.strip().split('\n')[-1].replace(rs, 'analyze.rs')))
            continue
        g = open(gen).read()
        if base_gen is None:
            base_gen = g
        same = (g == base_gen)
        env = dict(os.environ, LEAN_PATH=os.path.join(d, 'lib') + ':' + lean_path)
        r = sh([lean_bin, '--root=' + os.path.join(d, 'root'), '-o', os.path.join(d, 'lib', 'AnaScratch', 'GeneratedAnalyze.olean'), gen],
               env=env, cwd=os.path.join(d, 'root'))
        if r.returncode != 0:
            rows.append((name, 'accepted', 'generated file does not compile', r.stdout.strip().split('\n')[0]))
            continue
        proof = os.path.join(d, 'root', 'AnaScratch', 'C13c.lean')
        ptext = open(PROOF).read()
        if ptext.count('import FancyModel.GeneratedAnalyze\n') != 1:
            sys.exit('C13c.lean does not import FancyModel.GeneratedAnalyze exactly once')
        open(proof, 'w').write(ptext.replace('import FancyModel.GeneratedAnalyze\n', 'import AnaScratch.GeneratedAnalyze\n'))
        r = sh([lean_bin, '--root=' + os.path.join(d, 'root'), proof], env=env, cwd=os.path.join(d, 'root'))
        errs = [l for l in r.stdout.split('\n') if ': error' in l]
        if r.returncode == 0 and not errs:
            rows.append((name, 'accepted' + (', generated Lean identical' if same and i else ''), 'proof HOLDS', ''))
        else:
            where = sorted({l.split(':')[1] for l in errs if l.count(':') > 2}, key=int)
            rows.append((name, 'accepted', 'proof FAILS', '%d error(s), first in %s' % (len(errs), locate(int(where[0])) if where else '?')))
    print('| source | translator | Proofs/C13c.lean | detail |')
    print('|---|---|---|---|')
    for r in rows:
        print('| %s | %s | %s | %s |' % r)
    return 0


if __name__ == '__main__':
    sys.exit(main())
