#!/usr/bin/env python3
"""Run the RELEVANT checks against every surviving mutant, in isolation (adapted from sweep_iso.py; never touches
/repo's working tree or /verif outside work/).

usage: mutant_sweep.py [--mutants /verif/work/mutants] [--only Mvm,Mlib/0012,...] [--workers N] [--shard-workers W]
                       [--tag NAME] [--check-timeout S] [--baseline [C01,C02,...]] [--all-checks] [--keep] [--rev COMMIT]
                       [--extra C06,C08]   (checks appended to the relevance list of every selected mutant)
                       [--checks C11,C08]  (replaces the relevance list; use with --all-checks for a detection matrix)

Mechanics (same as sweep_iso.py): a private copy of /verif (without work/, .git, seeded/) and a detached git
worktree of /repo (at --rev, default HEAD; the recorded campaign: c1399e4) under /tmp/msweep_<tag>/w<k>/, the copy's three '/repo' references rewritten to the worktree;
per mutant: `git apply patch.diff` in the worktree, `./check <ID>` in the copy with VERIF_SKIP_LEAN=1, undo.
Differences from sweep_iso.py:
  * the checks to run come from the relevance map below (by mutated file), cheapest likely detector first, and the
    run for a mutant stops at the first check that exits non-zero with a `VIOLATION` line (= detected);
    `--all-checks` runs the whole list anyway;
  * N independent workers (each its own copy + worktree); all copies are cloned from ONE snapshot of /verif taken at
    start-up (/tmp/msweep_<tag>/golden) so every worker runs the same machinery even if /verif changes meanwhile;
  * the copy's vlib.py keeps NSHARDS = 16 (the shard number influences which cases are generated) but its thread
    pool is capped to W (`--shard-workers`) so that N x W processes run at most; harness shards get an
    address-space limit (24 GB) so that a mutant that allocates without bound dies instead of taking the machine;
  * every check runs under a timeout (default 3600 s): a check that does not return is recorded as `hung`
    (NOT counted as detected: there is no VIOLATION line) and the sweep goes on to the next check;
  * `--baseline` runs the listed checks (default: all that occur in the relevance map) on the UNPATCHED worktree
    first; the sweep refuses to start if any of them reports a violation (a false alarm would count as detection).
Results: /verif/work/mutant_sweep_<tag>.json (written after every mutant; an existing file is resumed)."""
import concurrent.futures, glob, json, os, shutil, signal, subprocess, sys, threading, time

RELEVANT = {
    # file -> checks (the sets are those of the brief), cheapest likely detector first; wall seconds of each check on the
    # unmodified crate with one shard worker: C17 1, C12 6, C20 8, C09 14, C04 16, C14 21, C08 29, C02 40, C15 44, C13 47,
    # C06 52, C05 58, C01 59, C16 59, C03 62, C10 100, C19 149, C11 167, C07 237
    'vm':       ['C20', 'C02', 'C01', 'C05', 'C15', 'C03', 'C07'],
    'compile':  ['C14', 'C02', 'C01', 'C13', 'C15', 'C03'],
    'analyze':  ['C13', 'C01', 'C16', 'C06'],
    'parse':    ['C17', 'C06', 'C14', 'C15', 'C19'],
    'lib':      ['C17', 'C09', 'C04', 'C08', 'C14', 'C16', 'C05', 'C10', 'C11'],
    'expand':   ['C12', 'C11'],
    'replacer': ['C12', 'C11'],
}

args = sys.argv[1:]
opt = {}
i = 0
while i < len(args):
    k = args[i][2:]
    if k in ('all-checks', 'keep'):
        opt[k] = True; i += 1
    elif k == 'baseline':
        if i + 1 < len(args) and not args[i + 1].startswith('--'):
            opt[k] = args[i + 1].split(','); i += 2
        else:
            opt[k] = sorted({c for v in RELEVANT.values() for c in v}); i += 1
    else:
        opt[k] = args[i + 1]; i += 2

MUT = os.path.abspath(opt.get('mutants', '/verif/work/mutants'))
TAG = opt.get('tag', 'm')
N = int(opt.get('workers', 3))
W = int(opt.get('shard-workers', 2))
TIMEOUT = float(opt.get('check-timeout', 3600))
ONLY = set(opt['only'].split(',')) if 'only' in opt else None
BASE = '/tmp/msweep_' + TAG
GOLD = BASE + '/golden'
OUT = '/verif/work/mutant_sweep_%s.json' % TAG


def rewrite(V, R):
    for f, old, new in [('harness/Cargo.toml', 'path = "/repo"', 'path = "%s"' % R),
                        ('tools/vlib.py', "'/repo/Cargo.lock'", "'%s/Cargo.lock'" % R),
                        ('tools/extract.py', "REPO = '/repo'", "REPO = '%s'" % R),
                        # cap the shard pool, keep the shard count
                        ('tools/vlib.py', 'ThreadPoolExecutor(max_workers=NSHARDS)',
                         "ThreadPoolExecutor(max_workers=int(os.environ.get('VERIF_WORKERS', NSHARDS)))"),
                        # address-space limit for the harness shards
                        ('tools/vlib.py', "full = [HBIN] + cmd +", "full = ['prlimit', '--as=25769803776', HBIN] + cmd +")]:
        p = os.path.join(V, f)
        s = open(p).read()
        assert old in s, (f, old)
        open(p, 'w').write(s.replace(old, new))


class Worker:
    def __init__(self, k):
        self.k = k
        self.dir = '%s/w%d' % (BASE, k)
        self.V = self.dir + '/verif'
        self.R = self.dir + '/repo'
        self.env = dict(os.environ, CARGO_NET_OFFLINE='true', VERIF_SKIP_LEAN='1', VERIF_WORKERS=str(W),
                        CARGO_BUILD_JOBS=str(max(2, W)))

    def setup(self):
        subprocess.run(['git', '-C', '/repo', 'worktree', 'remove', '--force', self.R], capture_output=True)
        shutil.rmtree(self.dir, ignore_errors=True)
        os.makedirs(self.dir)
        subprocess.run(['git', '-C', '/repo', 'worktree', 'add', '--detach', self.R, opt.get('rev', 'HEAD'), '-q'], check=True)
        shutil.copyfile('/repo/Cargo.lock', self.R + '/Cargo.lock')
        subprocess.run(['rsync', '-a', GOLD + '/', self.V + '/'], check=True)
        rewrite(self.V, self.R)

    def teardown(self):
        subprocess.run(['git', '-C', '/repo', 'worktree', 'remove', '--force', self.R], capture_output=True)
        shutil.rmtree(self.dir, ignore_errors=True)

    def check(self, p):
        t0 = time.time()
        pr = subprocess.Popen(['./check', p], cwd=self.V, env=self.env, stdout=subprocess.PIPE, stderr=subprocess.STDOUT,
                              text=True, start_new_session=True)
        try:
            out, _ = pr.communicate(timeout=TIMEOUT)
            rc = pr.returncode
        except subprocess.TimeoutExpired:
            try:
                os.killpg(pr.pid, signal.SIGKILL)
            except ProcessLookupError:
                pass
            out, _ = pr.communicate()
            subprocess.run(['pkill', '-9', '-f', self.V + '/harness/target/release/fvharness'], capture_output=True)
            return {'rc': 'hung', 'violations': 0, 's': round(time.time() - t0, 1), 'tail': out[-400:]}
        lines = [l for l in out.split('\n') if l.startswith('VIOLATION')]
        d = {'rc': rc, 'violations': len(lines), 's': round(time.time() - t0, 1), 'first': lines[:1]}
        if lines:
            try:
                path = lines[0].split('replay=')[1].split()[0]
                rec = json.load(open(path))
                d['replay'] = {k: (str(rec[k])[:300]) for k in rec if k not in ('property', 'seed', 'tier')}
            except Exception as e:
                d['replay'] = str(e)
        elif rc != 0:
            d['tail'] = out[-500:]
        return d

    def mutant(self, patch, checks):
        subprocess.run('git checkout -q -- .', shell=True, cwd=self.R)
        r = subprocess.run(['git', 'apply', patch], cwd=self.R, capture_output=True, text=True)
        if r.returncode != 0:
            return {'error': 'patch does not apply: ' + r.stderr[:300]}
        det = {}
        detected_by = None
        for p in checks:
            det[p] = self.check(p)
            if det[p]['rc'] not in (0, 'hung') and det[p]['violations'] > 0:
                detected_by = detected_by or p
                if 'all-checks' not in opt:
                    break
        subprocess.run('git checkout -q -- .', shell=True, cwd=self.R)
        return {'checks': det, 'detected_by': detected_by,
                'hung': [p for p in det if det[p]['rc'] == 'hung']}


def main():
    os.makedirs('/verif/work', exist_ok=True)
    os.makedirs(BASE, exist_ok=True)
    if not os.path.exists(GOLD + '/check'):
        subprocess.run(['rsync', '-a', '--exclude', 'work', '--exclude', '.git', '--exclude', 'seeded', '--exclude', 'replays',
                        '--exclude', '__pycache__', '/verif/', GOLD + '/'], check=True)
    todo = []
    for patch in sorted(glob.glob(MUT + '/*/*/patch.diff')):
        pid, var = patch.split('/')[-3], patch.split('/')[-2]
        key = pid + '/' + var
        if ONLY and key not in ONLY and pid not in ONLY:
            continue
        rel = opt['checks'].split(',') if 'checks' in opt else RELEVANT[pid[1:]]
        todo.append((key, patch, rel + [c for c in opt.get('extra', '').split(',') if c and c not in rel]))
    res = json.load(open(OUT)) if os.path.exists(OUT) else {}
    todo = [t for t in todo if t[0] not in res]
    nw = max(1, min(N, len(todo))) if 'baseline' not in opt else N
    workers = [Worker(k) for k in range(nw)]
    lock = threading.Lock()
    try:
        with concurrent.futures.ThreadPoolExecutor(nw) as ex:
            list(ex.map(lambda w: w.setup(), workers))
        if 'baseline' in opt:
            bl = list(opt['baseline'])
            it0 = iter(bl)
            base = {}

            def bloop(w):
                while True:
                    with lock:
                        p = next(it0, None)
                    if p is None:
                        return
                    d = w.check(p)
                    with lock:
                        base[p] = d
                        print('baseline', p, d['rc'], d['violations'], d['s'], (d.get('first') or [''])[0][-60:], flush=True)
            with concurrent.futures.ThreadPoolExecutor(nw) as ex:
                list(ex.map(bloop, workers))
            json.dump(base, open('/verif/work/mutant_sweep_%s_baseline.json' % TAG, 'w'), indent=1, ensure_ascii=False)
            bad = [p for p in base if base[p]['rc'] != 0]
            if bad:
                print('baseline NOT clean: %s - not sweeping' % bad)
                return 1
        it = iter(todo)

        def loop(w):
            while True:
                with lock:
                    t = next(it, None)
                if t is None:
                    return
                key, patch, checks = t
                try:
                    r = w.mutant(patch, checks)
                except Exception as e:
                    r = {'error': repr(e)[:300]}
                with lock:
                    res[key] = r
                    json.dump(res, open(OUT + '.tmp', 'w'), indent=1, ensure_ascii=False)
                    os.replace(OUT + '.tmp', OUT)
                    cs = r.get('checks', {})
                    print(key, {p: cs[p]['rc'] for p in cs}, 'DETECTED by ' + r['detected_by'] if r.get('detected_by') else 'undetected',
                          ((cs.get(r.get('detected_by')) or {}).get('replay') or {}).get('kind') if isinstance((cs.get(r.get('detected_by')) or {}).get('replay'), dict) else '',
                          r.get('error', ''), flush=True)
        with concurrent.futures.ThreadPoolExecutor(nw) as ex:
            list(ex.map(loop, workers))
    finally:
        if 'keep' not in opt:
            for w in workers:
                w.teardown()
            for d in glob.glob(BASE + '/w*/repo'):           # worktrees left by an earlier --keep run with more workers
                subprocess.run(['git', '-C', '/repo', 'worktree', 'remove', '--force', d], capture_output=True)
            shutil.rmtree(BASE, ignore_errors=True)
    det = sum(1 for r in res.values() if r.get('detected_by'))
    print('done -> %s: %d mutants, %d detected, %d undetected (of which %d with a hung check)'
          % (OUT, len(res), det, len(res) - det, sum(1 for r in res.values() if not r.get('detected_by') and r.get('hung'))))
    return 0


if __name__ == '__main__':
    sys.exit(main())
