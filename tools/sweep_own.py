#!/usr/bin/env python3
"""for each seed: apply, run its own property's check (+ optional extra props), undo. results -> work/sweep_own.json"""
import glob, json, os, subprocess, sys, time
root = sys.argv[1]
extra = sys.argv[2:]
res = {}
out_path = '/verif/work/sweep_own.json'
for patch in sorted(glob.glob(root + '/*/*/patch.diff')):
    pid, var = patch.split('/')[-3], patch.split('/')[-2]
    key = pid + var
    subprocess.run('git -C /repo checkout -- . ', shell=True)
    r = subprocess.run(['git', '-C', '/repo', 'apply', patch], capture_output=True, text=True)
    if r.returncode != 0:
        res[key] = {'error': 'patch does not apply: ' + r.stderr[:300]}
        print(key, res[key], flush=True)
        continue
    det = {}
    env = dict(os.environ, VERIF_SKIP_LEAN='1')
    for p in [pid] + extra:
        t0 = time.time()
        rr = subprocess.run(['./check', p], cwd='/verif', capture_output=True, text=True, env=env)
        lines = [l for l in rr.stdout.split('\n') if l.startswith('VIOLATION')]
        det[p] = {'rc': rr.returncode, 'violations': len(lines), 's': round(time.time() - t0, 1), 'first': lines[:1]}
        if lines:
            try:
                path = lines[0].split('replay=')[1].split()[0]
                rec = json.load(open(path))
                det[p]['replay'] = {k: (str(rec[k])[:200]) for k in rec if k not in ('property', 'seed', 'tier')}
            except Exception as e:
                det[p]['replay'] = str(e)
    subprocess.run('git -C /repo checkout -- . ', shell=True)
    res[key] = det
    json.dump(res, open(out_path, 'w'), indent=1, ensure_ascii=False)
    print(key, {p: det[p]['rc'] for p in det}, (det[pid].get('replay') or {}).get('kind'), flush=True)
subprocess.run('git -C /repo checkout -- . ', shell=True)
subprocess.run(['python3', '/verif/tools/extract.py'])
print('done')
