#!/usr/bin/env python3
"""Write /verif/MANIFEST.json from the table below (kept here so that it stays valid and in one place)."""
import json, os

VERIF = os.path.dirname(os.path.dirname(os.path.abspath(__file__)))

NOTE = ('Trusted: Lean 4.33 kernel with axioms propext/Classical.choice/Quot.sound only; the Rust harness + Lean driver line protocol; '
        'tools/extract.py; A-RA (regex-automata implements the reference semantics on easy sub-expressions without empty-bodied loops; '
        'checked on every delegated piece explored, not proved); character tables for the harness alphabet are theorem parameters. '
        'Each Rust function is related to its Lean twin only by the correspondence on the explored inputs.')

P = {
 'C01': ('proof', '3.4, 6 C01', 'refinement + correspondence',
         'Theorems about the model: the reference search is leftmost by construction and equals the first result of the wrapped tree `(?s:.)*?(e)`; first-result evaluation (semK) equals the list semantics; negative witness theorems for F1/F8/F10. The compiler-correctness refinement (model VM = reference) is proved only for the stage stated in the evidence; beyond it the model VM is validated against the reference on the explored space. Tie: build kind, program listing and span, implementation vs model, on every explored case; oracle: implementation vs reference on all in-domain cases.'),
 'C02': ('proof', '6 C02', 'refinement + correspondence',
         'Spec lemmas about captures on every result of the reference semantics (set groups have start <= end, groups outside the expression untouched), group numbering = pre-order (renumber); engine part as C01. Tie and oracle compare every group of every match.'),
 'C03': ('proof', '6 C03', 'spec congruence theorem + metamorphic differential',
         'Theorem: inserting an empty positive look-ahead before or after any sub-expression leaves the reference semantics unchanged (all contexts, unconditionally). Engine side: implementation on P vs on inject(P) on the explored space, both tied to the model.'),
 'C04': ('other', '6 C04', 'differential against the regex crate + model tie',
         'The regex crate is not modelled: the cross-crate agreement holds on the explored inputs only. Theorems: the model API layer over any search equals the statement-level algorithms (C08-C11). Two correspondences against the same model (fancy-regex <-> model, regex crate <-> model) plus the direct differential on every API call.'),
 'C05': ('proof', '6 C05', 'invariant by induction over VM steps + exploration',
         'Theorems: the model VM never reaches a panic site from a well-formed state on any program satisfying the slot-bound side condition (per-instruction lemmas); API-layer slices are in range given a well-formed search result. Exploration: every public entry point under catch_unwind on the unrestricted grammar with 1-4 byte characters.'),
 'C06': ('proof', '6 C06', 'totality/bounds theorems on model scanners + exploration with resource meters',
         'Theorems on the analyzer arithmetic (saturating, never above usize::MAX), on parse_decimal/parse_id scanners and on program size bounds of the compiler model. The recursive-descent parser is not modelled: parse behaviour is explored (no panic, error position, time and allocation budgets) on the malformed stream.'),
 'C07': ('proof', '6 C07', 'lock-step simulation theorem + correspondence of run counters',
         'Theorems (any program, any text): a run with limit L is the limit error or the unlimited answer; every L >= the backtracks of the unlimited run gives the unlimited answer; the branch stack never exceeds MAX_STACK. Termination bound for compiled programs is validated (instruction counts implementation = model on every explored case), not proved.'),
 'C08': ('proof', '6 C08', 'state-machine theorems over an arbitrary search oracle + correspondence',
         'Theorems over an arbitrary oracle: the iterator model equals the statement-level iteration; under pos <= start <= end the yielded sequence is strictly increasing and non-overlapping; nothing follows an error; fuel is never exhausted. Tie: iterator over a table of the implementation\'s own search answers and end to end.'),
 'C09': ('proof', '6 C09', 'definitional equalities + iterator theorem + exploration',
         'Theorems: captures_iter and find_iter yield the same spans for every captures oracle (after F2); find is the span of captures in the model. The Wrap path\'s separate regex-automata calls are outside the model and covered by exploration of all seven entry points.'),
 'C10': ('proof', '6 C10', 'state-machine theorems over an arbitrary match sequence + correspondence',
         'Theorems: split yields the statement\'s pieces (one more than matches) for every well-formed oracle; splitn n yields the first n-1 and the remainder; n = 0 yields nothing; fused.'),
 'C11': ('proof', '6 C11', 'theorems over an arbitrary match sequence and replacer + correspondence',
         'Theorems: replacen equals the statement\'s rewrite of the first n match ranges; borrowed iff no item; fast and slow paths coincide for constant replacers when the iterators agree; first error is returned.'),
 'C12': ('proof', '6 C12', 'round-trip and decision theorems on the expander model + exhaustive correspondence',
         'Theorems: expansion(escape s) = s for both expanders, $$ -> $, verbatim copy without the substitution character, check soundness. Tie: all templates to length 4/5 over the 14-character alphabet.'),
 'C13': ('proof', '6 C13', 'structural-induction theorems on the reference semantics + correspondence of analysis facts',
         'Theorems (spec only): every result of every sub-expression ends at least min_size characters later, exactly min_size when const_size (well-shaped expressions, sizes below usize::MAX). Tie: per-node facts implementation vs model.'),
 'C14': ('proof', '6 C14', 'model theorems on flag seeding + metamorphic differential',
         'The recursive-descent parser is not modelled, so `builder option = (?i) prefix` is decided by the in-process differential; theorems cover the model side (case-insensitive matching is decided per node; options read only at the stated points).'),
 'C15': ('proof', '6 C15', 'spec equations + witness theorems + correspondence',
         'Theorems: the three conditional equations of the statement hold of the reference semantics by definition-unfolding (stated so they cannot drift); negative witnesses for F8. Engine: implementation vs reference under NoCondLeak on the explored space; parse_conditional is explored, not modelled.'),
 'C16': ('proof', '6 C16', 'counting theorems on renumber/groupCount + exploration',
         'Theorems: renumber assigns pre-order numbers n..n+groupCount, captures_len of the model = 1 + groups; Captures accessors explored on the implementation.'),
 'C17': ('proof', '6 C17', 'theorems on escape/push_quoted over the extracted special set + exhaustive correspondence',
         'Theorems: escape borrows iff no special character; unescaping the result gives back the string; escaped text contains no unescaped special character; to_str of a literal tree is the escaped string. The parse of the escaped string is explored (tree equality), not proved.'),
 'C18': ('other', '6 C18', 'history-independence theorem + concurrent correspondence',
         'Theorem: model searches are functions of (regex, text, pos, flags) so any interleaving gives per-call the standalone result; no interior-mutability type in the extracted field lists. Real schedules are explored (2..16 threads), not proved.'),
 'C19': ('proof', '6 C19', 'spec lemmas + translation-validation style correspondence',
         'Theorems: singleton/flattened concat and alt have the same reference semantics; possessive = atomic(repeat) by construction. Whole-pattern spelling equivalence is decided by tree equality and identical results on the explored space (parser not modelled).'),
 'C20': ('proof', '6 C20', 'refinement proof by induction over operation sequences + correspondence',
         'Theorems: the undo-log state refines whole-state copies for every sequence of push/pop/save/cut operations (invariant + abstraction commute). Tie: full internal state after every step of exhaustive short and random long sequences.'),
}


def main():
    checks = []
    for pid in sorted(P):
        cat, ref, tech, text = P[pid]
        checks.append({
            'property_id': pid,
            'quick_cmd': './check %s --tier quick' % pid,
            'thorough_cmd': './check %s --tier thorough' % pid,
            'evidence_file': '/verif/evidence/%s.json' % pid,
            'replay_cmd_template': './check %s --replay {path}' % pid,
            'engine': 'lean-model+harness',
            'level_claimed': {'category': cat, 'text': text, 'design_ref': 'DESIGN.md §' + ref},
            'level_note': NOTE,
            'technique': 'Lean 4 machine-checked proof on a hand-written model; ' + tech,
        })
    m = {
        'version': 1,
        'setup_cmd': './setup.sh',
        'hooks': {
            'guard': 'fancy_regex_verif',
            'enable': 'RUSTFLAGS="--cfg fancy_regex_verif" (set in /verif/harness/.cargo/config.toml; the harness depends on /repo by path)',
            'baseline_off_cmd': 'cd /repo && cargo test --workspace --no-fail-fast --offline',
            'source_commits': ['499196d', 'fd0c68a'],
            'add_only': True,
        },
        'engines': [{'name': 'lean-model+harness', 'path': '/verif/lean, /verif/harness, /verif/check',
                     'serves_properties': sorted(P),
                     'kind_free_text': 'Lean 4 model/spec/proofs (lake), native Lean driver, Rust correspondence harness, Python orchestrator'}],
        'checks': checks,
        'notes': 'See DESIGN.md. known_findings.json lists genuine defects kept as known findings (F1, F8, F10) and the repaired ones (fixed:).',
        'not_applicable': [],
    }
    json.dump(m, open(os.path.join(VERIF, 'MANIFEST.json'), 'w'), indent=1, ensure_ascii=False)
    print('MANIFEST.json written with %d checks' % len(checks))


if __name__ == '__main__':
    main()
