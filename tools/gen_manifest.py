#!/usr/bin/env python3
"""Write /verif/MANIFEST.json from the table below (kept here so that it stays valid and in one place)."""
import json, os

VERIF = os.path.dirname(os.path.dirname(os.path.abspath(__file__)))

NOTE = ('Trusted: Lean 4.33 kernel with axioms propext/Classical.choice/Quot.sound only; the Rust harness + Lean driver line protocol; '
        'tools/extract.py; A-RA (regex-automata implements the reference semantics on easy sub-expressions without empty-bodied loops; '
        'checked on every delegated piece explored, not proved); character tables for the harness alphabet are theorem parameters. '
        'Each Rust function is related to its Lean twin only by the correspondence on the explored inputs.')

P = {
 'C01': ('proof', '3.4, 6 C01, 12.1', 'refinement proof (compiler correctness, delegation included) + correspondence',
         'Theorem C01_vm_correct_s3 (all texts, offsets, patterns in the stage): the VM run of the compiled wrapped tree equals the reference leftmost priority-ordered search - match/no match, span, every group - up to the three resource stops, for every pattern inside the decidable stage predicate s3Stage: literals, classes, any, assertions, \\K, \\G, back-references, group tests, concat, alt, groups, all quantifiers (NoEmptyLoop), atomic groups, look-aheads, look-behinds (alternation bodies included, all four compiler layouts), conditionals (NoCondLeak), easy sub-trees delegated whole in non-hard contexts, const-size easy prefixes/suffixes delegated in hard contexts when group-free or linear (no choice, or a group-free one-size alternation). C01_pipeline_s3 (Proofs/C01e): the same from the pattern STRING - parser model, build, compile, run - with the shape hypotheses discharged by theorems (parser output is wellShaped once build accepts it; every emitted Delegate owns ordinary slots). Delegate is executed by delegateOracle (first reference result of the delegated expressions: assumption A-RA about regex-automata, checked on every delegated piece explored). Chain: undo-log State -> whole copies (C20) -> auxiliary stack as a list (AuxStack) -> structured machine Big2 for every instruction (link2) -> reference semantics (sim3_visit) -> refSearch. Also: reference search is leftmost; semK = list semantics; negative witness theorems for F1/F8/F10. Outside the stage (delegated pieces in hard contexts whose results differ in an unreferenced group, F1/F8/F10 territory) the model VM is validated, not proved; the evidence states the share of explored patterns inside the stage on every run (about 93% of VM-path patterns; most of the rest is outside the domain of the property: F1). Tie: build kind, program listing and span, implementation vs model, every explored case; oracle: implementation vs reference on all in-domain cases.'),
 'C02': ('proof', '6 C02, 12.1', 'refinement proof (compiler correctness) + correspondence',
         "Theorem C02_groups_s3: in the proved stage (see C01) every capture slot reported by the VM run of the compiled program equals the reference's (last iteration that entered the group, unset if never entered, kept through look-arounds, nothing from abandoned alternatives; groups inside delegated pieces: those that took part are copied, the others keep their value - delegate_step_spec). Spec lemmas: set groups have start <= end, frame, numbering = pre-order. Tie and oracle compare every group of every match and the per-node group ranges of the analysis; commit/restore and numbering pattern families."),
 'C03': ('proof', '6 C03, 12.1', 'spec congruence theorem + engine corollary of the refinement + metamorphic differential',
         'Theorems: inserting (?=) before or after any sub-expression at any depth (inductive relation Inj / InjStar; the one excluded position - wrapping the alternation body of a look-behind - is shown to really differ and then no longer compiles) leaves the reference semantics, the group numbering and the reference search unchanged, unconditionally; C03_inject_stage: a pattern and its injected variants give identical results whenever each is handed to the automata engine as a whole or lies in the proved engine stage (machine-checked example ab vs a(?=)b). Engine side outside the stage: implementation on P vs inject(P) on all explored cases (metamorphic), both tied to the model.'),
 'C04': ('other', '6 C04', 'differential against the regex crate + model tie',
         'The regex crate is not modelled: the cross-crate agreement holds on the explored inputs only. Theorems: the model API layer over any search equals the statement-level algorithms (C08-C11). C04b: the text to_str hands to the regex crate re-parses (parser model) to the very tree it was printed from, for the whole fragment the parser produces (every quantifier spelling, arbitrary nesting; counterexample theorems for what lies outside: multi-character literals - a precedence defect of to_str reachable only from a hand-built Expr, not from a pattern). C08c/C11b: on the hand-off path find_iter, captures_iter, split and replacen of the model equal the iteration of the reference search (equalities, no error branch). Two correspondences against the same model (fancy-regex <-> model, regex crate <-> model) plus the direct differential on every API call.'),
 'C05': ('proof', '6 C05, 12.1', 'invariant by induction over VM steps + refinement corollary + UTF-8 layer theorems + exploration',
         'Theorems: no instruction of the model VM panics from a state satisfying the invariant where the structured machine is defined (exact panic conditions for EndAtomic / FailNegativeLookAround / Delegate stated); C05_search_never_panics and C05_offsets_valid: in the proved engine stage a search never panics and every reported slot is <= len with start <= end; UTF-8 layer (C05b): boundaries of encode are exactly the character offsets, next_utf8 / prev_codepoint_ix / GoBack move by whole characters, slices between character positions never panic, literals are prefix-free; End caps the start into [pos, end]; API-layer slices in range given a well-formed search. Entry points explored under catch_unwind on the unrestricted grammar with 1-4 byte characters; a dying or hanging harness process is reported with the pattern it was working on.'),
 'C06': ('proof', '6 C06, 12.2', 'totality/no-panic theorems on the parser model + parser correspondence + exploration with resource meters',
         'The recursive-descent parser is inside the model (Model/Parse.lean, byte-level, explicit panic sites). Theorems for every string: C06_parse_no_panic, C06_error_pos (reported position <= length), C06_depth (tree depth bounded by MAX_RECURSION), C06_parse_total (Ok or Err, the model never runs out of fuel), bounds for each leaf scanner; analyzer arithmetic saturates below usize::MAX; group count linear; C06c: the compile step never reaches the "attempting to format hard expr" panic of to_str - every delegated piece of every program build emits, and the hand-off text, print (induction over the compiler; subroutine calls are kept away by the reference check, not by hardness: theorem). Parser tie: ~2M (quick) / ~15M (thorough) patterns - malformed stream, all engine spaces, respellings, escape outputs, multi-byte fillers, numeric-boundary probes - tree / back-reference set / names or error kind + byte position, Rust vs Lean. Resource clause (time, allocation, native stack) is measured on probes, not proved.'),
 'C07': ('proof', '6 C07, 12.1', 'lock-step simulation theorem + termination from the refinement + correspondence of run counters',
         'Theorems (any program, any text): a run with limit L is the limit error or the unlimited answer; every L >= the backtracks of the unlimited run gives the unlimited answer; a limit error means the limit was exceeded. In the proved engine stage (see C01): C07_search_terminates (some amount of fuel is never exhausted) and C07_steps_bounded (the number of executed instructions is bounded independently of fuel and limit) - total correctness. Tie: outcome class and step/backtrack/depth counters, implementation vs model, under a ladder of limits up to usize::MAX; every entry point under every limit gives the same outcome class; a shard that does not finish is reported.'),
 'C08': ('proof', '6 C08', 'state-machine theorems over an arbitrary search oracle + correspondence',
         "Theorems over an arbitrary oracle: C08_eq_spec - the iterator model (Matches::next, CaptureMatches::next) yields exactly the statement's iteration (also with captures, and up to the first error); under pos <= start <= end the sequence is strictly increasing and non-overlapping; nothing follows an error; termination within len+2 calls; the skipped-empty flag. C08c composes this with the engine theorems: for every pattern string of the proved stage (and every hand-off pattern) find_iter of the model engine IS the statement's iteration of the reference search, up to one trailing resource stop (the reference oracle is proved well-formed). Tie in two forms (over the implementation's own search answers; end to end)."),
 'C09': ('proof', '6 C09', 'definitional equalities + iterator theorem + exploration',
         'Theorems: captures_iter and find_iter yield the same spans for every captures oracle (after F2); find is the span of captures in the model; C08c/C11b: captures_iter of the model engine yields reference captures whose spans are the reference iteration, entry-point coherence on the engine (C09_entry_points_engine). The Wrap path\'s separate regex-automata calls are outside the model and covered by exploration of all seven entry points.'),
 'C10': ('proof', '6 C10', 'state-machine theorems over an arbitrary match sequence + correspondence',
         'Theorems: split yields the statement\'s pieces (one more than matches) for every well-formed oracle; splitn n yields the first n-1 and the remainder; n = 0 yields nothing; fused; C10_split_is_reference (C08c): for the model engine, split = the pieces between the matches of the reference iteration (proved stage and hand-off path).'),
 'C11': ('proof', '6 C11', 'theorems over an arbitrary match sequence and replacer + correspondence',
         'Theorems: replacen equals the statement\'s rewrite of the first n match ranges; borrowed iff no item; fast and slow paths coincide for constant replacers when the iterators agree; first error is returned; C11b: replacen of the model engine = the rewrite of the first n matches of the REFERENCE iteration with the replacer applied to reference captures (text = the real UTF-8 encoding, boundaries proved), borrowed iff that iteration is empty, never a panic; with a trailing resource stop the exact outcome is stated.'),
 'C12': ('proof', '6 C12', 'round-trip and decision theorems on the expander model, specification tokenizer = code + exhaustive correspondence',
         'Theorems: expansion(escape s) = s for both expanders, $$ -> $, verbatim copy without the substitution character, check soundness; C12b: the documented template syntax written as a specification tokenizer equals the expander of the code step by step for every template (C12_steps_eq_spec), token corollaries, compositionality. Tie: all templates to length 4/5 over the 14-character alphabet.'),
 'C13': ('proof', '6 C13', 'structural-induction theorems on the reference semantics + the analyzer regenerated from src/analyze.rs by a translator on every run and proved equal to the model + correspondence of analysis facts',
         "Theorems (all expressions, states, texts): C13_min_sound (no result shorter than min_size), C13_const_exact (exactly min_size when const_size; side conditions: single-character literals, no bare \\Z node, no usize saturation), C13_lookbehind_exact ('go back min_size, run the body' = 'some start ends exactly here'), C13_goback (fails rather than reading before the start), C13_accept_iff (look-behind rejected with the dedicated error iff a top-level alternative is not const-size), and in the engine stage (C01) the compiled look-behind computes the reference. Translator tie (C13c): tools/rs2lean_analyze.py re-translates Analyzer::visit statement by statement into GeneratedAnalyze.lean on every run; C13_analyzer_translated_eq / _facts / C13_analyze_eq prove it equal to the hand-written minSize / constSize / isHard / group ranges for every expression, so a change of meaning in analyze.rs breaks a proof. Differential tie: per-node facts implementation vs model; an accepted look-behind the model rejects is still compared with the reference; oracle: enumerated match lengths vs facts."),
 'C14': ('proof', '6 C14', 'theorems on the parser model (flag seeding) + metamorphic differential',
         'Theorems (C14b, parser model, every byte string): the builder option seeds the parser flags exactly as a leading (?i) does - C14_parse_flag_partial under two side conditions each proved necessary by a counterexample theorem (known finding F20: P starting with a comment or a quantifier-like text); inner (?-i:..) negation by mutual induction on the reference semantics. Limits and delegate size options: in-process differential over the limit ladder (2^31..usize::MAX) on fancy and plain patterns.'),
 'C15': ('proof', '6 C15, 12.1', 'spec equations + compiler-correctness theorem + witness theorems + correspondence',
         'Theorems: the three conditional equations of the statement hold of the reference semantics (condition tried once; never falls back to no; no from the original position); C15_vm_correct_cond: the VM run of a compiled pattern with conditionals computes exactly that wherever s2ok allows them (loops, alternations, groups, negative look-arounds, branches of other conditionals; not inside atomic groups / positive look-arounds / other conditions: finding F8, negative witness theorems), programs without Delegate. Parser reading of the forms: expected-tree oracle + parser tie. Engine: implementation vs reference on all in-domain cases.'),
 'C16': ('proof', '6 C16', 'induction over the parser descent + counting theorems + accessor laws + exploration',
         'Theorems: renumber assigns pre-order numbers n..n+groupCount, captures_len of the model = 1 + groups; C16b: the parser counter equals the analyzer numbering for every byte string (induction over the whole recursive descent), the names table is the opening order, capture_names is the same vector for every HashMap iteration order, Captures accessor laws (len, get, name, iter) on both paths from VmCorrectR. Accessors also explored on the implementation.'),
 'C17': ('proof', '6 C17', 'theorems on escape/push_quoted over the extracted special set + exhaustive correspondence',
         'Theorems: escape borrows iff no special character; unescaping the result gives back the string; escaped text contains no unescaped special character; to_str of a literal tree is the escaped string; C17b: the parser model maps escape(s) to the literal tree of s for every s, so with C17_literal_sem escape(s) matches exactly s. Tie: parser tie + exhaustive short strings on the implementation.'),
 'C18': ('other', '6 C18', 'history-independence theorem + concurrent correspondence',
         'Theorem: model searches are functions of (regex, text, pos, flags) so any interleaving gives per-call the standalone result; no interior-mutability type in the extracted field lists. Real schedules are explored (2..16 threads), not proved.'),
 'C19': ('proof', '6 C19', 'spec lemmas + parse-tree equality theorems on the parser model + translation-validation style correspondence',
         'Theorems: singleton/flattened concat and alt have the same reference semantics; C19b (parser model): comments, the escape table, scoped flags, relative back-references and possessive = atomic give equal parse trees (24 theorems; negative theorem for known finding F19). Remaining spellings: tree equality and identical results on the explored space, every style crossed with the flags i U s m x; parser tie.'),
 'C20': ('proof', '6 C20', 'refinement proof by induction over operation sequences + correspondence',
         'Theorems: the undo-log state refines whole-state copies for every sequence of push/pop/save/cut operations (invariant + abstraction commute); C20b: the literal swap-based compaction loop of backtrack_cut equals the order-preserving filter, so the refinement covers enter/commit of atomic groups and raw auxiliary-stack operations; commit discards exactly the newer branches, backtracking after commit restores. Tie: full internal state after every step of exhaustive short and random long sequences (incl. 140-slot vectors).'),
}


def main():
    checks = []
    for pid in sorted(P):
        cat, ref, tech, text = P[pid]
        checks.append({
            'property_id': pid,
            'quick_cmd': './check %s --tier quick' % pid,
            'thorough_cmd': './check %s --tier thorough' % pid,
            'evidence_file': '/verif/evidence/%s.json' % pid,
            'replay_cmd_template': './check %s --replay {path}' % pid,
            'engine': 'lean-model+harness',
            'level_claimed': {'category': cat, 'text': text, 'design_ref': 'DESIGN.md §' + ref},
            'level_note': NOTE,
            'technique': 'Lean 4 machine-checked proof on a hand-written model; ' + tech,
        })
    m = {
        'version': 1,
        'setup_cmd': './setup.sh',
        'hooks': {
            'guard': 'fancy_regex_verif',
            'enable': 'RUSTFLAGS="--cfg fancy_regex_verif" (set in /verif/harness/.cargo/config.toml; the harness depends on /repo by path)',
            'baseline_off_cmd': 'cd /repo && cargo test --workspace --no-fail-fast --offline',
            'source_commits': ['499196d', 'fd0c68a'],
            'add_only': True,
        },
        'engines': [{'name': 'lean-model+harness', 'path': '/verif/lean, /verif/harness, /verif/check',
                     'serves_properties': sorted(P),
                     'kind_free_text': 'Lean 4 model/spec/proofs (lake), native Lean driver, Rust correspondence harness, Python orchestrator'}],
        'checks': checks,
        'notes': 'See DESIGN.md. known_findings.json lists genuine defects kept as known findings (F1, F8, F10) and the repaired ones (fixed:).',
        'not_applicable': [],
    }
    json.dump(m, open(os.path.join(VERIF, 'MANIFEST.json'), 'w'), indent=1, ensure_ascii=False)
    print('MANIFEST.json written with %d checks' % len(checks))


if __name__ == '__main__':
    main()
