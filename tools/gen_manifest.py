#!/usr/bin/env python3
"""Write /verif/MANIFEST.json from the table below (kept here so that it stays valid and in one place)."""
import json, os

VERIF = os.path.dirname(os.path.dirname(os.path.abspath(__file__)))

NOTE = ('Trusted: Lean 4.33 kernel with axioms propext/Classical.choice/Quot.sound only; the Rust harness + Lean driver line protocol; '
        'tools/extract.py; A-RA (regex-automata implements the reference semantics on easy sub-expressions without empty-bodied loops; '
        'checked on every delegated piece explored, not proved); character tables for the harness alphabet are theorem parameters. '
        'Each Rust function is related to its Lean twin only by the correspondence on the explored inputs.')

P = {
 'C01': ('proof', '3.4, 6 C01, 12.1', 'refinement proof (compiler correctness) + correspondence',
         'Theorem C01_vm_correct_s2 (all texts, offsets, patterns in the stage): the VM run of the compiled wrapped tree equals the reference leftmost priority-ordered search - match/no match, span, every group - up to the three resource stops, for every pattern whose tree satisfies the decidable predicate s2ok (every construct the VM interprets itself: literals, any, assertions, \\K, \\G, back-references, group tests, concat, alt, groups, all quantifiers with NoEmptyLoop, atomic groups, look-aheads, look-behinds over a const-size non-alternation body, conditionals; NoCondLeak) and whose program contains no Delegate instruction. Chain: undo-log State -> whole copies (C20) -> auxiliary stack as a list (AuxStack) -> structured machine Big2 for every instruction (link2) -> reference semantics (sim2_visit) -> refSearch. Also: the reference search is leftmost; semK = list semantics; negative witness theorems for F1/F8/F10. Programs with Delegate (stage S3) are validated, not proved: the evidence states the share of explored patterns/cases inside the proved stage on every run. Tie: build kind, program listing and span, implementation vs model, every explored case; oracle: implementation vs reference on all in-domain cases.'),
 'C02': ('proof', '6 C02, 12.1', 'refinement proof (compiler correctness) + correspondence',
         "Theorem C02_groups_s2: in the proved stage (see C01) every capture slot reported by the VM run of the compiled program equals the reference's (last iteration that entered the group, unset if never entered, kept through look-arounds, nothing from abandoned alternatives - all consequences of equality with the pure reference semantics). Spec lemmas: set groups have start <= end, groups outside an expression untouched (frame), numbering = pre-order (renumber). Tie and oracle compare every group of every match and the per-node group ranges of the analysis; commit/restore and numbering pattern families."),
 'C03': ('proof', '6 C03', 'spec congruence theorem + metamorphic differential',
         'Theorem: inserting an empty positive look-ahead before or after any sub-expression leaves the reference semantics unchanged (all contexts, unconditionally). Engine side: implementation on P vs on inject(P) on the explored space, both tied to the model.'),
 'C04': ('other', '6 C04', 'differential against the regex crate + model tie',
         'The regex crate is not modelled: the cross-crate agreement holds on the explored inputs only. Theorems: the model API layer over any search equals the statement-level algorithms (C08-C11). Two correspondences against the same model (fancy-regex <-> model, regex crate <-> model) plus the direct differential on every API call.'),
 'C05': ('proof', '6 C05, 12.1', 'invariant by induction over VM steps + UTF-8 layer theorems + exploration',
         "Theorems: the model VM reaches no panic site from a well-formed state (per-instruction lemmas; all instructions via the link theorem wherever the structured machine is defined); in the proved engine stage a search never panics and reports the reference's offsets; UTF-8 layer (C05b): boundaries of encode are exactly the character offsets, next_utf8 / prev_codepoint_ix / GoBack move by whole characters, slices between character positions never panic, literals are prefix-free; End caps the start into [pos, end]; API-layer slices are in range given a well-formed search. Entry points explored under catch_unwind on the unrestricted grammar with 1-4 byte characters."),
 'C06': ('proof', '6 C06, 12.2', 'totality/no-panic theorems on the parser model + parser correspondence + exploration with resource meters',
         'The recursive-descent parser is inside the model (Model/Parse.lean, byte-level, explicit panic sites). Theorems for every string: C06_parse_no_panic, C06_error_pos (reported position <= length), C06_depth (tree depth bounded by MAX_RECURSION), C06_parse_total (Ok or Err, the model never runs out of fuel), bounds for each leaf scanner; analyzer arithmetic saturates below usize::MAX; group count linear. Parser tie: ~2M (quick) / ~15M (thorough) patterns - malformed stream, all engine spaces, respellings, escape outputs, multi-byte fillers, numeric-boundary probes - tree / back-reference set / names or error kind + byte position, Rust vs Lean. Resource clause (time, allocation, native stack) is measured on probes, not proved.'),
 'C07': ('proof', '6 C07', 'lock-step simulation theorem + correspondence of run counters',
         'Theorems (any program, any text): a run with limit L is the limit error or the unlimited answer; every L >= the backtracks of the unlimited run gives the unlimited answer; the branch stack never exceeds MAX_STACK. Termination bound for compiled programs is validated (instruction counts implementation = model on every explored case), not proved.'),
 'C08': ('proof', '6 C08', 'state-machine theorems over an arbitrary search oracle + correspondence',
         "Theorems over an arbitrary oracle: C08_eq_spec - the iterator model (Matches::next, CaptureMatches::next) yields exactly the statement's iteration (also with captures, and up to the first error); under pos <= start <= end the sequence is strictly increasing and non-overlapping; nothing follows an error; termination within len+2 calls; the skipped-empty flag. Tie in two forms (over the implementation's own search answers; end to end)."),
 'C09': ('proof', '6 C09', 'definitional equalities + iterator theorem + exploration',
         'Theorems: captures_iter and find_iter yield the same spans for every captures oracle (after F2); find is the span of captures in the model. The Wrap path\'s separate regex-automata calls are outside the model and covered by exploration of all seven entry points.'),
 'C10': ('proof', '6 C10', 'state-machine theorems over an arbitrary match sequence + correspondence',
         'Theorems: split yields the statement\'s pieces (one more than matches) for every well-formed oracle; splitn n yields the first n-1 and the remainder; n = 0 yields nothing; fused.'),
 'C11': ('proof', '6 C11', 'theorems over an arbitrary match sequence and replacer + correspondence',
         'Theorems: replacen equals the statement\'s rewrite of the first n match ranges; borrowed iff no item; fast and slow paths coincide for constant replacers when the iterators agree; first error is returned.'),
 'C12': ('proof', '6 C12', 'round-trip and decision theorems on the expander model + exhaustive correspondence',
         'Theorems: expansion(escape s) = s for both expanders, $$ -> $, verbatim copy without the substitution character, check soundness. Tie: all templates to length 4/5 over the 14-character alphabet.'),
 'C13': ('proof', '6 C13', 'structural-induction theorems on the reference semantics + correspondence of analysis facts',
         "Theorems (all expressions, states, texts): C13_min_sound (no result shorter than min_size), C13_const_exact (exactly min_size when const_size; side conditions: single-character literals, no bare \\Z node, no usize saturation), C13_lookbehind_exact ('go back min_size, run the body' = 'some start ends exactly here'), C13_goback (fails rather than reading before the start), C13_accept_iff (look-behind rejected with the dedicated error iff a top-level alternative is not const-size), and in the engine stage (C01) the compiled look-behind computes the reference. Tie: per-node facts implementation vs model; oracle: enumerated match lengths vs facts."),
 'C14': ('proof', '6 C14', 'model theorems on flag seeding + metamorphic differential',
         'The recursive-descent parser is not modelled, so `builder option = (?i) prefix` is decided by the in-process differential; theorems cover the model side (case-insensitive matching is decided per node; options read only at the stated points).'),
 'C15': ('proof', '6 C15, 12.1', 'spec equations + compiler-correctness theorem + witness theorems + correspondence',
         'Theorems: the three conditional equations of the statement hold of the reference semantics (condition tried once; never falls back to no; no from the original position); C15_vm_correct_cond: the VM run of a compiled pattern with conditionals computes exactly that wherever s2ok allows them (loops, alternations, groups, negative look-arounds, branches of other conditionals; not inside atomic groups / positive look-arounds / other conditions: finding F8, negative witness theorems), programs without Delegate. Parser reading of the forms: expected-tree oracle + parser tie. Engine: implementation vs reference on all in-domain cases.'),
 'C16': ('proof', '6 C16', 'counting theorems on renumber/groupCount + exploration',
         'Theorems: renumber assigns pre-order numbers n..n+groupCount, captures_len of the model = 1 + groups; Captures accessors explored on the implementation.'),
 'C17': ('proof', '6 C17', 'theorems on escape/push_quoted over the extracted special set + exhaustive correspondence',
         'Theorems: escape borrows iff no special character; unescaping the result gives back the string; escaped text contains no unescaped special character; to_str of a literal tree is the escaped string. The parse of the escaped string is explored (tree equality), not proved.'),
 'C18': ('other', '6 C18', 'history-independence theorem + concurrent correspondence',
         'Theorem: model searches are functions of (regex, text, pos, flags) so any interleaving gives per-call the standalone result; no interior-mutability type in the extracted field lists. Real schedules are explored (2..16 threads), not proved.'),
 'C19': ('proof', '6 C19', 'spec lemmas + translation-validation style correspondence',
         'Theorems: singleton/flattened concat and alt have the same reference semantics; possessive = atomic(repeat) by construction. Whole-pattern spelling equivalence is decided by tree equality and identical results on the explored space (parser not modelled).'),
 'C20': ('proof', '6 C20', 'refinement proof by induction over operation sequences + correspondence',
         'Theorems: the undo-log state refines whole-state copies for every sequence of push/pop/save/cut operations (invariant + abstraction commute). Tie: full internal state after every step of exhaustive short and random long sequences.'),
}


def main():
    checks = []
    for pid in sorted(P):
        cat, ref, tech, text = P[pid]
        checks.append({
            'property_id': pid,
            'quick_cmd': './check %s --tier quick' % pid,
            'thorough_cmd': './check %s --tier thorough' % pid,
            'evidence_file': '/verif/evidence/%s.json' % pid,
            'replay_cmd_template': './check %s --replay {path}' % pid,
            'engine': 'lean-model+harness',
            'level_claimed': {'category': cat, 'text': text, 'design_ref': 'DESIGN.md §' + ref},
            'level_note': NOTE,
            'technique': 'Lean 4 machine-checked proof on a hand-written model; ' + tech,
        })
    m = {
        'version': 1,
        'setup_cmd': './setup.sh',
        'hooks': {
            'guard': 'fancy_regex_verif',
            'enable': 'RUSTFLAGS="--cfg fancy_regex_verif" (set in /verif/harness/.cargo/config.toml; the harness depends on /repo by path)',
            'baseline_off_cmd': 'cd /repo && cargo test --workspace --no-fail-fast --offline',
            'source_commits': ['499196d', 'fd0c68a'],
            'add_only': True,
        },
        'engines': [{'name': 'lean-model+harness', 'path': '/verif/lean, /verif/harness, /verif/check',
                     'serves_properties': sorted(P),
                     'kind_free_text': 'Lean 4 model/spec/proofs (lake), native Lean driver, Rust correspondence harness, Python orchestrator'}],
        'checks': checks,
        'notes': 'See DESIGN.md. known_findings.json lists genuine defects kept as known findings (F1, F8, F10) and the repaired ones (fixed:).',
        'not_applicable': [],
    }
    json.dump(m, open(os.path.join(VERIF, 'MANIFEST.json'), 'w'), indent=1, ensure_ascii=False)
    print('MANIFEST.json written with %d checks' % len(checks))


if __name__ == '__main__':
    main()
