#!/usr/bin/env python3
"""Translate the API-layer state machines of src/lib.rs (fancy-regex) into Lean: lean/FancyModel/GeneratedApi.lean.

  `codepoint_len`, `next_utf8`, `Matches::next`, `CaptureMatches::next`, `Split::next`, `SplitN::next`, the constructors
  `find_iter` / `captures_iter` / `split` / `splitn` (the initial fields), and `Regex::try_replacen` (both paths).

usage: rs2lean_api.py [LIB_RS] [-o OUT.lean] [--vm VM_RS] [--stub-on-failure]
       (LIB_RS defaults to $RS2LEAN_LIB_SRC or /repo/src/lib.rs, OUT to $RS2LEAN_API_OUT or lean/FancyModel/GeneratedApi.lean,
        VM_RS - read for the value of OPTION_SKIPPED_EMPTY_MATCH - to vm.rs next to LIB_RS, else /repo/src/vm.rs;
        --stub-on-failure, used by tools/extract.py: a failure leaves a stub that does not compile in OUT and exits 0)

Mechanical, like rs2lean_vm.py / rs2lean_state.py (whose tokenizer and parsers are reused): one Lean `let` / `match` / `if`
per Rust statement in source order. Anything outside the subset is an error (exit status 2, the construct and its line) -
nothing is guessed. What is NOT read from the Rust text is in lean/FancyModel/GenApiPrelude.lean and in the tables below;
see notes/translator-api.md.
"""
import os, re, sys

sys.path.insert(0, os.path.dirname(os.path.abspath(__file__)))
import rs2lean_analyze as ra
import rs2lean_vm as rv
import rs2lean_state as rs
import rs2lean_ints as ints
from rs2lean_analyze import Unsupported, bad, matching, top_level_positions, parse_struct, int_of, find_seq
from rs2lean_vm import tokenize, lean_id, LITERALS

VERIF = os.path.dirname(os.path.dirname(os.path.abspath(__file__)))
DEFAULT_SRC = '/repo/src/lib.rs'
DEFAULT_OUT = os.path.join(VERIF, 'lean', 'FancyModel', 'GeneratedApi.lean')


# ------------------------------------------------------------------------------------------------ parser

class Parser(rs.Parser):
    """`if` / `if let` / `match` also as expressions; patterns over Option / Result; `.0`; `break`"""

    def args(self):
        self.expect('(')
        out = []
        while not self.at(')'):
            if self.peek().kind == 'str':
                t = self.next()
                out.append(('str', t.text, t.line))
            else:
                out.append(self.expr())
            if not self.at(')'):
                self.expect(',')
        self.expect(')')
        return out

    def p_postfix(self, ns):
        e = self.p_primary(ns)
        while True:
            t = self.peek()
            if t.kind != 'op':
                break
            if t.text == '.':
                self.next()
                nt = self.next()
                if nt.kind == 'int':
                    e = ('tfield', e, int_of(nt), nt.line)
                    continue
                if nt.kind != 'id':
                    bad('`.%s`' % nt.text, nt.line)
                if self.at('('):
                    e = ('mcall', e, nt.text, self.args(), nt.line)
                elif self.at('::'):
                    bad('turbofish method call', nt.line)
                else:
                    e = ('field', e, nt.text, nt.line)
            elif t.text == '[':
                self.next()
                if self.at('..'):
                    bad('range index `[..` without a start', t.line)
                idx = self.expr()
                self.expect(']')
                e = ('index', e, idx, t.line)
            elif t.text == '?':
                self.next()
                e = ('try', e, t.line)
            else:
                break
        return e

    def p_primary(self, ns):
        t = self.peek()
        if t.kind == 'num' and re.match(r'0x[0-9a-fA-F_]+(usize|u8|u32)?$', t.text):
            self.next()
            return ('int', int(re.sub(r'(usize|u8|u32)$', '', t.text).replace('_', ''), 16), t.line)
        if t.kind == 'id' and t.text == 'if':
            return self.if_stmt()
        if t.kind == 'id' and t.text == 'match':
            return self.match_expr()
        return rs.Parser.p_primary(self, ns)

    def pattern(self):
        t = self.peek()
        if self.at('&'):
            self.next()
            return self.pattern()
        if self.at('('):
            self.next()
            items = []
            while not self.at(')'):
                items.append(self.pattern())
                if not self.at(')'):
                    self.expect(',')
            self.next()
            return ('ptuple', items, t.line)
        if t.kind != 'id':
            bad('pattern starting with `%s`' % t.text, t.line)
        name = self.ident()
        if name == '_':
            return ('pwild', t.line)
        if name == 'None':
            return ('pnone', t.line)
        if name in ('Some', 'Ok', 'Err'):
            self.expect('(')
            p = self.pattern()
            self.expect(')')
            return ({'Some': 'psome', 'Ok': 'pok', 'Err': 'perr'}[name], p, t.line)
        if name in ('ref', 'mut') or name[:1].isupper() or self.at('::') or self.at('(') or self.at('{') or self.at('@'):
            bad('pattern `%s …` (only `_`, `x`, `&x`, `None`, `Some(p)`, `Ok(p)`, `Err(p)`, `(p, q)`)' % name, t.line)
        return ('pbind', name, t.line)

    def arm_body(self):
        t = self.peek()
        if self.at('{'):
            return self.block()
        if self.at('return'):
            self.next()
            e = None if (self.at(',') or self.at('}')) else self.expr()
            return ([('return', e, t.line)], None)
        return ([], self.expr())

    def match_expr(self):
        t = self.expect('match')
        scrut = self.expr(no_struct=True)
        self.expect('{')
        arms = []
        while not self.at('}'):
            at = self.peek()
            pat = self.pattern()
            if self.at('|'):
                bad('or-pattern', at.line)
            guard = None
            if self.at('if'):
                self.next()
                guard = self.expr(no_struct=True)
            self.expect('=>')
            body = self.arm_body()
            if self.at(','):
                self.next()
            arms.append((pat, guard, body, at.line))
        self.expect('}')
        return ('match', scrut, arms, t.line)

    def if_stmt(self):
        t = self.expect('if')
        pat = None
        if self.at('let'):
            self.next()
            pat = self.pattern()
            self.expect('=')
        c = self.expr(no_struct=True)
        th = self.block()
        el = None
        if self.at('else'):
            self.next()
            if self.at('if'):
                el = ([], self.if_stmt())
            else:
                el = self.block()
        if pat is not None:
            return ('iflet', pat, c, th, el, t.line)
        return ('if', c, th, el, t.line)

    def block(self):
        """`{ stmt* [tail] }` -> (stmts, tail expression or None); `if` / `match` in last position are the tail"""
        self.expect('{')
        stmts, tail = [], None
        while not self.at('}'):
            t = self.peek()
            if tail is not None:
                if tail[0] in ('if', 'iflet', 'match'):
                    stmts.append(('expr', tail, tail[-1]))       # it was a statement after all
                    tail = None
                else:
                    bad('statement after a tail expression', t.line)
            if t.kind == 'op' and t.text == '#':
                self.attribute()
            elif t.kind == 'id' and t.text == 'let':
                self.next()
                mut = False
                if self.at('mut'):
                    self.next()
                    mut = True
                if self.peek().kind != 'id' or self.peek(1).text not in ('=', ':'):
                    bad('`let` with a pattern that is not a plain identifier', t.line)
                name = self.ident()
                ty = None
                if self.at(':'):
                    self.next()
                    ty = self.type_(['=', ';'])
                    if not (ints.is_int(ty) or ty == 'bool'):
                        bad('`let` with a type annotation other than an integer type / bool', t.line)
                self.expect('=')
                e = self.expr()
                if self.at('else'):
                    bad('`let … else`', t.line)
                self.expect(';')
                if ty is not None:
                    e = ('typed', e, ty, t.line)
                stmts.append(('let', name, mut, e, t.line))
            elif t.kind == 'id' and t.text == 'for':
                self.next()
                pat = self.pattern()
                self.expect('in')
                it = self.expr(no_struct=True)
                body, btail = self.block()
                if btail is not None:
                    if btail[0] in ('if', 'iflet', 'match'):
                        body = body + [('expr', btail, btail[-1])]
                    else:
                        bad('`for` body with a tail expression', t.line)
                stmts.append(('for', pat, it, body, t.line))
            elif t.kind == 'id' and t.text == 'return':
                self.next()
                e = None if self.at(';') else self.expr()
                self.expect(';')
                stmts.append(('return', e, t.line))
            elif t.kind == 'id' and t.text == 'break':
                self.next()
                if not self.at(';'):
                    bad('`break` with a label or a value', t.line)
                self.next()
                stmts.append(('break', t.line))
            elif t.kind == 'id' and t.text == 'while' and self.peek(1).text == 'let':
                self.next()
                self.next()
                pat = self.pattern()
                self.expect('=')
                it = self.expr(no_struct=True)
                body, btail = self.block()
                if btail is not None:
                    if btail[0] in ('if', 'iflet', 'match'):
                        body = body + [('expr', btail, btail[-1])]
                    else:
                        bad('`while let` body with a tail expression', t.line)
                stmts.append(('whilelet', pat, it, body, t.line))
            elif t.kind == 'id' and t.text in ('while', 'loop', 'unsafe', 'fn', 'struct', 'use', 'const', 'static', 'continue'):
                bad('`%s` statement%s' % (t.text, ' (no bound on the number of iterations is evident)' if t.text in ('while', 'loop') else ''),
                    t.line)
            elif t.kind == 'life':
                bad('labelled loop', t.line)
            elif t.kind == 'op' and t.text == '{':
                bad('nested block statement', t.line)
            else:
                e = self.expr()
                nt = self.peek()
                op = self.assign_op(('=', '+=', '-=', '*=', '|=', '&=', '^=', '<<=', '>>='))
                if op:
                    r = self.expr()
                    self.expect(';')
                    stmts.append(('assign', e, op, r, t.line))
                elif self.at(';'):
                    self.next()
                    stmts.append(('expr', e, t.line))
                elif self.at('}') or e[0] in ('if', 'iflet', 'match'):
                    tail = e
                else:
                    bad('unexpected `%s` after an expression' % nt.text, nt.line)
        self.expect('}')
        return stmts, tail


# ------------------------------------------------------------------------------------------------ the adaptor tables

# struct declarations of lib.rs, compared on every run: field, Rust type, what it is in the model
#   ('proj', name, type) a field of the model's record; ('param', lean text, type) a parameter of the generated function
STRUCTS = {
    'Matches': ('braced', [('re', "&'r Regex", ('param', 're', 'Regex')), ('text', "&'t str", ('param', 'text', 'Text')),
                           ('last_end', 'usize', ('proj', 'lastEnd', 'usize')),
                           ('last_match', 'Option<usize>', ('proj', 'lastMatch', ('opt', 'usize')))], 'Iter'),
    'Split': ('braced', [('matches', "Matches<'r,'h>", ('proj', 'it', 'Matches')), ('next_start', 'usize', ('proj', 'nextStart', 'usize')),
                         ('target', "&'h str", ('param', 'text', 'Text'))], 'Split'),
    'SplitN': ('braced', [('splits', "Split<'r,'h>", ('proj', 'sp', 'Split')), ('limit', 'usize', ('proj', 'limit', 'usize'))], 'SplitN'),
    'Match': ('braced', [('text', "&'t str", None), ('start', 'usize', ('proj', '1', 'usize')), ('end', 'usize', ('proj', '2', 'usize'))],
              '(Nat × Nat)'),
}
CAPTURE_MATCHES_DECL = "pub struct CaptureMatches < 'r , 't > ( Matches < 'r , 't > ) ;".split()

BASE_LEAN = {'usize': 'Nat', 'u8': 'Nat', 'u32': 'Nat', 'u16': 'Nat', 'u64': 'Nat', 'bool': 'Bool', 'Match': '(Nat × Nat)', 'Caps': 'α', 'SErr': 'SearchErr',
             'Piece': 'Item', 'Str': 'Bytes', 'Text': 'Bytes', 'Bytes': 'Bytes', 'Matches': 'Iter', 'CaptureMatches': 'Iter',
             'Split': 'Split', 'SplitN': 'SplitN'}


def lean_type(t):
    if isinstance(t, tuple):
        if t[0] == 'opt':
            return 'Option %s' % wrap(lean_type(t[1]))
        if t[0] == 'res':
            return 'Except SearchErr %s' % wrap(lean_type(t[1]))
        if t[0] == 'list':
            return 'List %s' % wrap(lean_type(t[1]))
        if t[0] == 'pair':
            return '(%s × %s)' % (lean_type(t[1]), lean_type(t[2]))
    if t not in BASE_LEAN:
        bad('internal: no Lean type for %r' % (t,))
    return BASE_LEAN[t]


def wrap(s):
    return '(%s)' % s if ' ' in s and not (s.startswith('(') and s.endswith(')')) else s


def is_path(e, *names):
    return e[0] == 'path' and e[1] == list(names)


# signatures (token by token) of the functions that are translated; `{` included
SIGS = {
    'codepoint_len': 'fn codepoint_len ( b : u8 ) -> usize {',
    'next_utf8': 'fn next_utf8 ( text : & str , i : usize ) -> usize {',
    'find_iter': "pub fn find_iter < 'r , 't > ( & 'r self , text : & 't str ) -> Matches < 'r , 't > {",
    'captures_iter': "pub fn captures_iter < 'r , 't > ( & 'r self , text : & 't str ) -> CaptureMatches < 'r , 't > {",
    'split': "pub fn split < 'r , 'h > ( & 'r self , target : & 'h str ) -> Split < 'r , 'h > {",
    'splitn': "pub fn splitn < 'r , 'h > ( & 'r self , target : & 'h str , limit : usize ) -> SplitN < 'r , 'h > {",
    'try_replacen': "pub fn try_replacen < 't , R : Replacer > ( & self , text : & 't str , limit : usize , mut rep : R , ) "
                    "-> Result < Cow < 't , str > > {",
}
IMPLS = {
    'Matches': ("impl < 'r , 't > Iterator for Matches < 'r , 't > {", "fn next ( & mut self ) -> Option < Self :: Item > {"),
    'CaptureMatches': ("impl < 'r , 't > Iterator for CaptureMatches < 'r , 't > {", "fn next ( & mut self ) -> Option < Self :: Item > {"),
    'Split': ("impl < 'r , 'h > Iterator for Split < 'r , 'h > {", "fn next ( & mut self ) -> Option < Result < & 'h str > > {"),
    'SplitN': ("impl < 'r , 'h > Iterator for SplitN < 'r , 'h > {", "fn next ( & mut self ) -> Option < Result < & 'h str > > {"),
}
ITEM_TYPES = {'Matches': "type Item = Result < Match < 't > > ;", 'CaptureMatches': "type Item = Result < Captures < 't > > ;",
              'Split': "type Item = Result < & 'h str > ;", 'SplitN': "type Item = Result < & 'h str > ;"}
# fuel handed to the inner `self.matches.next()` of `Split::next`, and the bound on the number of items of an iterator handed
# to `for` (both as in Model/Api.lean; Proofs/C08 proves them sufficient for a well-formed engine)
INNER_NEXT_FUEL = '(text.length + 2)'
ITER_ITEMS_BOUND = '(text.length + 3)'
RESERVED = {'fuel', 're', 'span', 'acc', 'rest_', 'find', 'caps', 'r_', 'e_', 'cap_', 'x_', 'y_'}


def vid(name):
    """the Lean identifier of a Rust variable: a name that the generated code uses for itself (RESERVED, `t1`, `t2`, …) is
    renamed apart (`n` -> `n_rs`), so that a local may be called anything"""
    return lean_id(name + '_rs') if (name in RESERVED or re.match(r't[0-9]+$', name)) else lean_id(name)


def clash_rs(name):
    return name.endswith('_rs') and (name[:-3] in RESERVED or re.match(r't[0-9]+$', name[:-3]) is not None)


class Ctx:
    def __init__(self):
        self.types = {}
        self.mutable = set()
        self.kind = None        # 'next' | 'split' | 'splitn' | 'value' | 'replace'
        self.fn = None
        self.self_type = None
        self.loop = None        # None | (loop call text, acc pattern)
        self.oracle = 're'      # Lean name of the oracle for `self.re`
        self.item = 'Match'     # what the engine call yields: 'Match' | 'Caps'

    def copy(self):
        c = Ctx()
        c.__dict__.update(self.__dict__)
        c.types, c.mutable = dict(self.types), set(self.mutable)
        return c


NUM = ('usize', 'u8', 'u16', 'u32', 'u64', 'int')


def width_of(t):
    """the integer type whose width an operation on a value tagged `t` has (an unsuffixed literal: the type it is read at)"""
    return 'usize' if t == 'int' else t


def same_type(a, b):
    if a in NUM and b in NUM:
        return True
    if isinstance(a, tuple) and isinstance(b, tuple) and a[0] == b[0] and len(a) == len(b):
        return all(x is None or y is None or same_type(x, y) for x, y in zip(a[1:], b[1:]))
    return a == b


def join_type(a, b):
    if a == 'int':
        return b
    if isinstance(a, tuple) and isinstance(b, tuple) and a[0] == b[0]:
        return (a[0],) + tuple(y if x is None else x if y is None else join_type(x, y) for x, y in zip(a[1:], b[1:]))
    return a


class Translator:
    def __init__(self, toks, vm_toks):
        self.toks, self.vm_toks = toks, vm_toks
        self.defs = []
        self.names = set()
        self.tmpn = 0
        self.have = set()          # generated functions so far

    def fresh(self):
        self.tmpn += 1
        return 't%d' % self.tmpn

    @staticmethod
    def emit_pre(pre, ind):
        out = []
        for h in pre:
            if h[0] == 'let':
                out.append(ind + 'let %s := %s' % (h[1], h[2]))
            elif h[0] == 'match1':
                out += [ind + 'match %s with' % h[1], ind + '| %s =>' % h[2]]
                ind += '  '
            else:
                _, scrut, failpat, failres, okpat = h
                out += [ind + 'match %s with' % scrut, ind + '| %s => %s' % (failpat, failres), ind + '| %s =>' % okpat]
                ind += '  '
        return out, ind

    # ---- pure expressions -> (lean text, type)
    def place_type(self, e, c):
        """`self`, `self.0`, `self.matches`, `self.splits` … -> (lean text, struct name)"""
        if is_path(e, 'self'):
            if c.self_type is None:
                bad('`self` in a function whose receiver is not an iterator', e[-1])
            return 'self', c.self_type
        return self.vex(e, c)

    def vex(self, e, c):
        k, line = e[0], e[-1]
        if k == 'int':
            return str(e[1]), 'int'
        if k == 'tint':
            if not ints.is_int(e[2]) or not ints.fits(e[1], e[2]):
                bad('integer literal of type %s' % e[2], line)
            return str(e[1]), e[2]
        if k == 'cast':
            s, t = self.vex(e[1], c)
            if e[2] in ints.SIGNED:
                bad('cast to the signed / 128-bit type %s (not in the subset)' % e[2], line)
            if t not in NUM or not ints.is_int(e[2]):
                bad('cast from %s to %s' % (t, e[2]), line)
            if t == 'int':
                if not ints.fits(int(s), e[2]) if s.isdigit() else True:
                    bad('cast of a literal expression', line)
                return s, e[2]
            return ints.cast(s, t, e[2]), e[2]
        if k == 'typed':                     # `let x: T = e`
            s, t = self.vex(e[1], c)
            if ints.is_int(e[2]):
                if t not in NUM:
                    bad('`let _: %s` of a value of type %s' % (e[2], t), line)
                if t == 'int' and s.isdigit() and not ints.fits(int(s), e[2]):
                    bad('the literal %s does not fit the type %s' % (s, e[2]), line)
                if t not in ('int', e[2]):
                    bad('`let _: %s` of a value of type %s' % (e[2], t), line)
                return s, e[2]
            if t != e[2]:
                bad('`let _: %s` of a value of type %s' % (e[2], t), line)
            return s, t
        if k == 'matches':
            _, scrut, pats, _ = e
            if scrut[0] == 'mcall' and scrut[2] == 'peek' and not scrut[3]:
                s, t = self.vex(scrut[1], c)
                if not (isinstance(t, tuple) and t[0] == 'list'):
                    bad('`.peek()` on a value of type %s' % (t,), line)
                s, t = '(List.head? %s)' % s, ('opt', t[1])
            else:
                s, t = self.vex(scrut, c)
            arms = []
            for p in pats:
                pl, binds = self.pat_lean(p, t, line)
                arms.append('| %s => true' % pl)
                if self.irrefutable(p):
                    bad('`matches!` with an irrefutable pattern', line)
            return '(match %s with %s | _ => false)' % (s, ' '.join(arms)), 'bool'
        if k == 'bool':
            return ('true' if e[1] else 'false'), 'bool'
        if k == 'paren':
            return self.vex(e[1], c)
        if k == 'path':
            if len(e[1]) == 2 and e[1][1] == 'MAX' and ints.is_int(e[1][0]):
                return str(ints.modulus(e[1][0]) - 1), e[1][0]
            if len(e[1]) != 1:
                bad('path `%s` as a value' % '::'.join(e[1]), line)
            n = e[1][0]
            if n == 'None':
                return 'none', ('opt', None)
            if n == 'OPTION_SKIPPED_EMPTY_MATCH':
                return 'OPTION_SKIPPED_EMPTY_MATCH', 'u32'
            if n not in c.types:
                bad('unknown variable `%s`' % n, line)
            if c.types[n] in ('Replacer',):
                bad('`%s` used as a value' % n, line)
            return vid(n), c.types[n]
        if k == 'tfield':
            s, t = self.place_type(e[1], c)
            if t == 'CaptureMatches' and e[2] == 0:
                return s, 'Matches'
            bad('`.%d` on a value of type %s' % (e[2], t), line)
        if k == 'field':
            s, t = self.place_type(e[1], c)
            if t not in STRUCTS:
                bad('field `.%s` of a value of type %s' % (e[2], t), line)
            for f, _, m in STRUCTS[t][1]:
                if f == e[2]:
                    if m is None:
                        bad('field `%s.%s` has no counterpart in the model' % (t, f), line)
                    if m[0] == 'param':
                        return (c.oracle if m[1] == 're' else m[1]), m[2]
                    return '%s.%s' % (s, m[1]), m[2]
            bad('`%s` has no field `%s`' % (t, e[2]), line)
        if k == 'not':
            s, t = self.vex(e[1], c)
            if t in NUM and t != 'int':
                return ints.bitnot(s, t), t
            if t != 'bool':
                bad('operand of `!` has type %s' % (t,), line)
            return '(!%s)' % s, 'bool'
        if k == 'bin':
            _, op, a, b, _ = e
            (l, tl), (r, tr) = self.vex(a, c), self.vex(b, c)
            if op in ('&&', '||'):
                if tl != 'bool' or tr != 'bool':
                    bad('`%s` between %s and %s' % (op, tl, tr), line)
                return '(%s %s %s)' % (l, op, r), 'bool'
            if op in ('==', '!='):
                if not same_type(tl, tr) or not (tl in NUM or tl == 'bool' or (isinstance(tl, tuple) and tl[0] == 'opt')):
                    bad('`%s` between %s and %s' % (op, tl, tr), line)
                return '(%s %s %s)' % (l, op, r), 'bool'
            if op in ('<', '<=', '>', '>='):
                if tl not in NUM or tr not in NUM:
                    bad('`%s` between %s and %s' % (op, tl, tr), line)
                return '(decide (%s %s %s))' % (l, {'<': '<', '<=': '≤', '>': '>', '>=': '≥'}[op], r), 'bool'
            if op == '+':
                if tl not in NUM or tr not in NUM:
                    bad('`+` between %s and %s' % (tl, tr), line)
                rt = join_type(tl, tr) if tl == 'int' else tl
                return (ints.arith('+', l, r, rt) if rt != 'int' else '(%s + %s)' % (l, r)), rt
            if op == '*':
                if tl not in NUM or tr not in NUM:
                    bad('`*` between %s and %s' % (tl, tr), line)
                rt = join_type(tl, tr) if tl == 'int' else tl
                return ints.arith('*', l, r, width_of(rt)), rt
            if op in ('|', '&', '^') and tl in NUM and tr in NUM:
                return ints.bitop(op, l, r), join_type(tl, tr) if tl == 'int' else tl
            if op in ('|', '&') and tl == 'bool' and tr == 'bool':
                return '(%s %s %s)' % (l, '||' if op == '|' else '&&', r), 'bool'
            if op in ('<<', '>>'):
                if tl not in NUM or tr not in NUM:
                    bad('`%s` between %s and %s' % (op, tl, tr), line)
                if tl == 'int':
                    bad('`%s` on an integer literal whose type is not evident here' % op, line)
                return ints.shift(op, l, r, tl), tl
            if op == '-':
                bad('operator `-` (a subtraction that can underflow; use `saturating_sub` / `checked_sub`)', line)
            bad('operator `%s`' % op, line)
        if k == 'call':
            path, args = e[1], e[2]
            if path == ['Some'] and len(args) == 1:
                s, t = self.vex(args[0], c)
                return '(some %s)' % s, ('opt', 'usize' if t == 'int' else t)
            if path in (['next_utf8'], ['codepoint_len']):
                name = {'next_utf8': 'genNextUtf8', 'codepoint_len': 'genCodepointLen'}[path[0]]
                if name not in self.have:
                    bad('`%s` is called before it is translated' % path[0], line)
                vals = [self.vex(a, c) for a in args]
                want = ['Text', 'usize'] if path[0] == 'next_utf8' else ['u8']
                if len(vals) != len(want) or any(not same_type(t, w) for (_, t), w in zip(vals, want)):
                    bad('arguments of `%s`' % path[0], line)
                return '(%s %s)' % (name, ' '.join(v for v, _ in vals)), 'usize'
            if path == ['String', 'with_capacity'] and len(args) == 1:
                if self.capacity(args[0], c) is not None:
                    bad('`String::with_capacity(..)` whose argument can overflow / exceed isize::MAX: only as the initialiser of a `let`', line)
                return '([] : Bytes)', 'Str'
            bad('call of `%s`' % '::'.join(path), line)
        if k == 'mcall':
            return self.vex_mcall(e, c)
        if k == 'ref':
            inner = e[1]
            if inner[0] == 'index' and inner[2][0] == 'range' and c.kind in ('split', 'splitn'):
                s, t = self.vex(inner[1], c)
                if t != 'Text':
                    bad('slice of something other than the target', line)
                (a, ta), (b, tb) = self.vex(inner[2][1], c), (self.vex(inner[2][2], c) if inner[2][2] is not None else ('%s.length' % s, 'usize'))
                if ta not in NUM or tb not in NUM:
                    bad('slice bounds', line)
                return '(Item.piece %s %s)' % (a, b), 'Piece'
            s, t = self.vex(inner, c)
            if t in ('Str', 'Caps'):
                return s, t
            bad('`&` of a value of type %s here' % (t,), line)
        if k in ('if', 'iflet', 'match'):
            return self.vex_branching(e, c)
        if k == 'try':
            bad('`?` outside `let x = x?;`', line)
        bad('expression form %s' % k, line)

    def capacity(self, arg, c):
        """the argument of `String::with_capacity`: None when neither its arithmetic nor the capacity can overflow (statically, with
        the adaptor fact LEN of rs2lean_ints: a `len()` is at most isize::MAX), else the Lean text (an `Option Nat`) of its value
        with checked `usize` arithmetic"""
        def leaf(x):
            if x[0] == 'mcall' and x[2] == 'len' and not x[3]:
                try:
                    if self.vex(x[1], c)[1] in ('Text', 'Str'):
                        return ints.ISIZE_MAX
                except Unsupported:
                    pass
            return None

        def value(x):
            v, t = self.vex(x, c)
            if t not in NUM:
                bad('capacity of type %s' % (t,), x[-1])
            return v
        v, t = self.vex(arg, c)              # type check (and the usual refusals)
        if t not in NUM:
            bad('capacity of type %s' % (t,), arg[-1])
        b = ints.cap_bound(arg, leaf)
        if b is not None and b <= ints.ISIZE_MAX:
            return None
        return ints.cap_opt(arg, value)

    def vex_mcall(self, e, c):
        _, recv, m, args, line = e
        # captures.get(0).expect("…") / .unwrap()
        if m in ('expect', 'unwrap') and recv[0] == 'mcall' and recv[2] == 'get' and len(recv[3]) == 1 and recv[3][0][0] == 'int' \
                and recv[3][0][1] == 0:
            s, t = self.vex(recv[1], c)
            if t == 'Caps':
                return '(span %s)' % s, 'Match'
        # iterator chains
        if m == 'peekable' and not args:
            s, t = self.vex(recv, c)
            if isinstance(t, tuple) and t[0] == 'list':
                return s, t
            bad('`.peekable()` on a value of type %s' % (t,), line)
        if m == 'enumerate' and not args:
            s, t = self.vex(recv, c)
            if isinstance(t, tuple) and t[0] == 'list':
                return '(enumFrom 0 %s)' % s, ('list', ('pair', 'usize', t[1]))
            bad('`.enumerate()` on a value of type %s' % (t,), line)
        if is_path(recv, 'self') and c.kind == 'replace' and m in ('find_iter', 'captures_iter') and len(args) == 1:
            s, t = self.vex(args[0], c)
            if t != 'Text':
                bad('`self.%s(..)` on something other than the text' % m, line)
            if m == 'find_iter':
                return '(iterItems (genMatchesNext find text) text %s genFindIter)' % ITER_ITEMS_BOUND, ('list', ('res', 'Match'))
            return '(iterItems (genCaptureMatchesNext caps span text) text %s genCapturesIter)' % ITER_ITEMS_BOUND, ('list', ('res', 'Caps'))
        if m == 'is_none' and not args and recv[0] == 'mcall' and recv[2] == 'peek' and not recv[3]:
            s, t = self.vex(recv[1], c)
            if isinstance(t, tuple) and t[0] == 'list':
                return '(List.isEmpty %s)' % s, 'bool'
        if m == 'count' and not args and recv[0] == 'mcall' and recv[2] == 'chars' and not recv[3]:
            s, t = self.vex(recv[1], c)
            if t in ('Text', 'Str'):
                # a `&str` is valid UTF-8: its characters are its bytes that are not continuation bytes (10xxxxxx)
                return '(List.countP (fun b_ => (b_ &&& 192) != 128) %s)' % s, 'usize'
        s, t = self.vex(recv, c)
        if t in ('Text', 'Str') and m == 'len' and not args:
            return '%s.length' % s, 'usize'
        if (t in ('Text', 'Str', 'Bytes') or (isinstance(t, tuple) and t[0] == 'list')) and m == 'is_empty' and not args:
            return '(List.isEmpty %s)' % s, 'bool'
        if t == 'Text' and m in ('to_string', 'to_owned') and not args:
            return s, 'Str'
        if t in NUM and m in ints.METHODS:
            if t == 'int':
                bad('`.%s(..)` on an integer literal whose type is not evident here' % m, line)
            if len(args) != 1:
                bad('`.%s(..)` takes one argument' % m, line)
            a, ta = self.vex(args[0], c)
            if ta not in NUM:
                bad('argument of `.%s(..)` has type %s' % (m, ta), line)
            txt = ints.method(m, s, a, t)
            return txt, (('opt', t) if ints.METHODS[m][2] == 'opt' else t)
        if isinstance(t, tuple) and t[0] == 'opt' and t[1] in NUM and m == 'unwrap_or' and len(args) == 1:
            a, ta = self.vex(args[0], c)
            if ta not in NUM:
                bad('argument of `.unwrap_or(..)` has type %s' % (ta,), line)
            return '(Option.getD %s %s)' % (s, a), t[1]
        if isinstance(t, tuple) and t[0] == 'opt' and m in ('is_some', 'is_none') and not args:
            return '(Option.%s %s)' % ('isSome' if m == 'is_some' else 'isNone', s), 'bool'
        if t == 'Text' and m == 'as_bytes' and not args:
            return s, 'Bytes'
        if t == 'Bytes' and m == 'get' and len(args) == 1:
            a, ta = self.vex(args[0], c)
            if ta not in NUM:
                bad('index of `.get(..)`', line)
            return '%s[%s]?' % (s, a), ('opt', 'u8')
        if t == 'Match' and m in ('start', 'end') and not args:
            return '%s.%s' % (s, '1' if m == 'start' else '2'), 'usize'
        bad('method call `.%s(…)` on a value of type %s' % (m, t), line)

    def pure_block(self, blk, c):
        stmts, tail = blk
        if stmts or tail is None:
            return None
        return tail

    def is_pure(self, e, c):
        """an `if` / `if let` / `match` all of whose blocks are single pure expressions and whose scrutinee is pure"""
        try:
            saved = self.tmpn
            self.vex_branching(e, c)
            return True
        except Unsupported:
            return False
        finally:
            self.tmpn = saved

    def vex_branching(self, e, c):
        k, line = e[0], e[-1]
        if k == 'if':
            _, cnd, th, el, _ = e
            a = self.pure_block(th, c)
            b = self.pure_block(el, c) if el else None
            if a is None or b is None:
                bad('`if` used as a value whose branches are not single expressions', line)
            (cs, ct), (x, tx), (y, ty) = self.vex(cnd, c), self.vex(a, c), self.vex(b, c)
            if ct != 'bool' or not same_type(tx, ty):
                bad('`if` expression: condition %s, branches %s / %s' % (ct, tx, ty), line)
            return '(if %s then %s else %s)' % (cs, x, y), join_type(tx, ty)
        if k == 'iflet':
            _, pat, scrut, th, el, _ = e
            arms = [(pat, None, th, line), (('pwild', line), None, el if el else ([], None), line)]
            return self.vex_match(scrut, arms, c, line)
        _, scrut, arms, _ = e
        return self.vex_match(scrut, arms, c, line)

    def vex_match(self, scrut, arms, c, line):
        s, st = self.vex(scrut, c)
        txt, ty = self.arms_pure(arms, 0, s, st, c, line)
        return txt, ty

    def irrefutable(self, pat):
        return pat[0] in ('pwild', 'pbind')

    def arms_pure(self, arms, i, s, st, c, line):
        if i >= len(arms):
            bad('`match` used as a value does not end in an irrefutable arm', line)
        if all(self.irrefutable(a[0]) for a in arms[i:]):
            pat, guard, body, aline = arms[i]
            c2 = c.copy()
            pre = ''
            if pat[0] == 'pbind' and vid(pat[1]) != s:
                c2 = self.bind(c2, pat[1], st, aline)
                pre = 'let %s := %s; ' % (vid(pat[1]), s)
            tl = self.pure_block(body, c2)
            if tl is None:
                bad('match arm that is not a single expression, in a `match` used as a value', aline)
            x, tx = self.vex(tl, c2)
            if guard is None:
                return ('(%s%s)' % (pre, x) if pre else x), tx
            g, tg = self.vex(guard, c2)
            y, ty = self.arms_pure(arms, i + 1, s, st, c, line)
            if tg != 'bool' or not same_type(tx, ty):
                bad('guarded arm: guard %s, values %s / %s' % (tg, tx, ty), aline)
            return '(%sif %s then %s else %s)' % (pre, g, x, y), join_type(tx, ty)
        out, ty = [], None
        for j in range(i, len(arms)):
            pat, guard, body, aline = arms[j]
            p, binds = self.pat_lean(pat, st, aline)
            c2 = c.copy()
            for n, t in binds:
                c2 = self.bind(c2, n, t, aline)
            tl = self.pure_block(body, c2)
            if tl is None:
                bad('match arm that is not a single expression, in a `match` used as a value', aline)
            x, tx = self.vex(tl, c2)
            if guard is not None:
                restarms = arms[j + 1:]
                if len(restarms) != 1 or restarms[0][0][0] != 'pwild' or restarms[0][1] is not None:
                    bad('a guarded arm must be followed by exactly one `_ =>` arm', aline)
                g, tg = self.vex(guard, c2)
                fb = self.pure_block(restarms[0][2], c)
                if fb is None:
                    bad('match arm that is not a single expression', aline)
                y, ty2 = self.vex(fb, c)
                if tg != 'bool' or not same_type(tx, ty2):
                    bad('guarded arm: guard %s, values %s / %s' % (tg, tx, ty2), aline)
                x = 'if %s then %s else %s' % (g, x, y)
            if ty is not None and not same_type(ty, tx):
                bad('arms of different types %s / %s' % (ty, tx), aline)
            ty = tx if ty is None else join_type(ty, tx)
            out.append('| %s => %s' % (p, x))
            if self.irrefutable(pat):
                break
        return '(match %s with %s)' % (s, ' '.join(out)), ty

    def pat_lean(self, pat, ty, line):
        k = pat[0]
        if k == 'pwild':
            return '_', []
        if k == 'pbind':
            if ty is None:
                bad('cannot type the binding `%s`' % pat[1], line)
            return vid(pat[1]), [(pat[1], ty)]
        if k == 'pnone':
            if not (isinstance(ty, tuple) and ty[0] == 'opt'):
                bad('`None` pattern on a value of type %s' % (ty,), line)
            return 'none', []
        if k in ('psome', 'pok', 'perr'):
            want = 'opt' if k == 'psome' else 'res'
            if not (isinstance(ty, tuple) and ty[0] == want):
                bad('`%s(..)` pattern on a value of type %s' % ({'psome': 'Some', 'pok': 'Ok', 'perr': 'Err'}[k], ty), line)
            inner_t = 'SErr' if k == 'perr' else ty[1]
            p, b = self.pat_lean(pat[1], inner_t, line)
            p = '(%s)' % p if ' ' in p else p
            return {'psome': 'some %s', 'pok': '.ok %s', 'perr': '.error %s'}[k] % p, b
        if k == 'ptuple':
            if not (isinstance(ty, tuple) and ty[0] == 'pair') or len(pat[1]) != 2:
                bad('tuple pattern on a value of type %s' % (ty,), line)
            (p1, b1), (p2, b2) = self.pat_lean(pat[1][0], ty[1], line), self.pat_lean(pat[1][1], ty[2], line)
            return '(%s, %s)' % (p1, p2), b1 + b2
        bad('pattern form %s' % k, line)

    def bind(self, c, name, t, line, mut=False, allow_shadow=False):
        if (name in c.types and not allow_shadow) or clash_rs(name) or name in self.names:
            bad('`%s` shadows a name of an enclosing scope / a parameter (only an earlier `let` of the same block may be shadowed)' % name, line)
        c2 = c.copy()
        c2.types[name] = 'usize' if t == 'int' else t
        c2.mutable.discard(name)
        if mut:
            c2.mutable.add(name)
        return c2

    def may_shadow(self, c, name, stmt):
        """a `let` that repeats the name of an earlier `let` of the same block (not a parameter, not the replacer)"""
        return ints.shadow_ok(self, stmt) and name not in self.param_names and c.types.get(name) != 'Replacer'

    # ---- results
    def ret(self, e, c):
        """the Lean text of `return e` / of the tail value `e` (None: nothing)"""
        line = e[-1] if e else None
        txt = self.ret_inner(e, c, line)
        return '.ret (%s)' % txt if c.loop else txt

    def ret_inner(self, e, c, line):
        kind = c.kind
        if kind == 'value':
            if e is None:
                bad('`return` without a value', line)
            return self.vex(e, c)[0]
        if e is None:
            bad('the function ends without a value', line)
        if kind in ('next', 'split', 'splitn'):
            tailf = ', self, false)' if kind == 'next' else ', self)'
            if is_path(e, 'None'):
                return '(none' + tailf
            if e[0] == 'call' and e[1] == ['Some'] and len(e[2]) == 1 and e[2][0][0] == 'call' and e[2][0][1] in (['Ok'], ['Err']) \
                    and len(e[2][0][2]) == 1:
                inner = e[2][0]
                v, t = self.vex(inner[2][0], c)
                if inner[1] == ['Err']:
                    if t != 'SErr':
                        bad('`Some(Err(..))` of a value of type %s' % (t,), line)
                    return ('(some (.error %s)' if kind == 'next' else '(some (.err %s)') % v + tailf
                if kind == 'next':
                    if t != c.item:
                        bad('`Some(Ok(..))` of a value of type %s (the iterator yields %s)' % (t, c.item), line)
                    return '(some (.ok %s)' % v + tailf
                if t != 'Piece':
                    bad('`Some(Ok(..))` of a value of type %s (the iterator yields slices of the target)' % (t,), line)
                return '(some %s' % v + tailf
            if e[0] == 'mcall' and e[2] == 'next' and not e[3]:
                if is_path(e[1], 'self') and kind == 'next':
                    return '%s fuel self' % c.next_call
                if kind == 'splitn' and e[1][0] == 'field':
                    s, t = self.vex(e[1], c)
                    if t == 'Split':
                        if 'genSplitNext' not in self.have:
                            bad('`Split::next` is called before it is translated', line)
                        t1, t2 = self.fresh(), self.fresh()
                        return '(match genSplitNext re text %s with | (%s, %s) => (%s, %s))' % (
                            s, t1, t2, t1, self.update(e[1], t2, c, line))
            bad('returned value: expected `None`, `Some(Ok(x))`, `Some(Err(e))` or a call of the inner `next()`', line)
        if kind == 'replace':
            if e[0] == 'call' and e[1] == ['Ok'] and len(e[2]) == 1 and e[2][0][0] == 'call' and len(e[2][0][2]) == 1:
                inner = e[2][0]
                v, t = self.vex(inner[2][0], c)
                if inner[1] == ['Cow', 'Borrowed'] and t == 'Text':
                    return '.borrowed'
                if inner[1] == ['Cow', 'Owned'] and t == 'Str':
                    return '.owned %s' % v
            bad('returned value: expected `Ok(Cow::Borrowed(text))` or `Ok(Cow::Owned(new))`', line)
        bad('internal: kind %s' % kind, line)

    def update(self, place, val, c, line):
        """the Lean text of `self` after `place = val` (place = self.f / self.0.f / self.g.f)"""
        if is_path(place, 'self'):
            return val
        if place[0] == 'tfield':
            s, t = self.place_type(place[1], c)
            if t == 'CaptureMatches' and place[2] == 0:
                return self.update(place[1], val, c, line)
        if place[0] == 'field':
            s, t = self.place_type(place[1], c)
            if t in STRUCTS:
                for f, _, m in STRUCTS[t][1]:
                    if f == place[2] and m and m[0] == 'proj':
                        return self.update(place[1], '{ %s with %s := %s }' % (s, m[1], val), c, line)
        bad('this place cannot be written', line)

    def root(self, e):
        while e[0] in ('field', 'tfield', 'index', 'paren', 'ref', 'refmut'):
            e = e[1]
        return e[1][0] if e[0] == 'path' and len(e[1]) == 1 else None

    # ---- statements, continuation-passing; k(c, ind, tail) is called where the block ends
    def block(self, stmts, tail, c, ind, k):
        if not stmts:
            return k(c, ind, tail)
        ints.mark_shadow_lets(stmts, self)
        s, rest = stmts[0], stmts[1:]
        kind, line = s[0], s[-1]
        cont = lambda c2, i2: self.block(rest, tail, c2, i2, k)

        def no_value(c_inner, i2, tl):
            if tl is not None and tl[0] in ('if', 'iflet', 'match'):
                return self.cps(tl, c_inner, i2, no_value)        # a branching statement in last position of a block
            if tl is not None:
                bad('a value is dropped here', tl[-1])
            return cont(c, i2)

        if kind == 'let':
            _, name, mut, e, _ = s
            if e[0] == 'try':
                if not (is_path(e[1], name) and isinstance(c.types.get(name), tuple) and c.types[name][0] == 'res'):
                    bad('`?` outside `let x = x?;` on a `Result`', line)
                if c.kind != 'replace':
                    bad('`?` in this function', line)
                c2 = c.copy()
                c2.types[name] = c.types[name][1]
                err = '.ret (.err e_)' if c.loop else '.err e_'
                return [ind + 'match %s with' % vid(name), ind + '| .error e_ => %s' % err, ind + '| .ok %s =>' % vid(name)] \
                    + cont(c2, ind + '  ')
            if e[0] in ('if', 'iflet', 'match') and not self.is_pure(e, c):
                def kv(c_inner, i2, tl):
                    if tl is None:
                        bad('this branch of `let %s = …` has no value' % name, line)
                    v, t = self.vex(tl, c_inner)
                    c3 = self.bind(c, name, t, line, mut, allow_shadow=self.may_shadow(c, name, s))
                    for n in c_inner.types:          # what the arm bound stays visible to Lean only
                        pass
                    return [i2 + 'let %s : %s := %s' % (vid(name), lean_type(c3.types[name]), v)] + cont(c3, i2)
                return self.cps(e, c, ind, kv)
            if e[0] == 'call' and e[1] == ['String', 'with_capacity'] and len(e[2]) == 1:
                cap = self.capacity(e[2][0], c)
                if cap is not None:
                    # the argument can overflow: `usize` `+` / `*` checked, then the capacity against isize::MAX (both: a panic)
                    c2 = self.bind(c, name, 'Str', line, mut, allow_shadow=self.may_shadow(c, name, s))
                    panic = '.ret .panic' if c.loop else '.panic'
                    return [ind + 'match %s with' % cap,
                            ind + '| none => %s   -- capacity arithmetic overflow' % panic,
                            ind + '| some cap_ =>',
                            ind + '  if cap_ ≤ %d then' % ints.ISIZE_MAX,
                            ind + '    let %s : Bytes := ([] : Bytes)' % vid(name)] + cont(c2, ind + '    ') + \
                           [ind + '  else %s   -- capacity overflow' % panic]
            v, t = self.vex(e, c)
            c2 = self.bind(c, name, t, line, mut, allow_shadow=self.may_shadow(c, name, s))
            return [ind + 'let %s : %s := %s' % (vid(name), lean_type(c2.types[name]), v)] + cont(c2, ind)
        if kind == 'assign':
            _, target, op, e, _ = s
            v, t = self.vex(e, c)
            r = self.root(target)
            cur, tt = self.vex(target, c)
            if not same_type(tt, t):
                bad('assignment of a value of type %s to a place of type %s' % (t, tt), line)
            if op == '+=':
                v = ints.arith('+', cur, v, width_of(tt)) if tt in NUM else v
            elif op == '-=':
                v = '(%s - %s)' % (cur, v)
            elif op == '*=':
                v = ints.arith('*', cur, v, width_of(tt)) if tt in NUM else v
            elif op in ('|=', '&=', '^='):
                v = ints.bitop(op[0], cur, v) if tt in NUM else '(%s %s %s)' % (cur, '||' if op == '|=' else '&&', v)
                if tt == 'bool' and op != '^=':
                    tt_ok = True
                elif tt not in NUM:
                    bad('`%s` on a value of type %s' % (op, tt), line)
            elif op in ('<<=', '>>='):
                v = ints.shift(op[:2], cur, v, width_of(tt)) if tt in NUM else v
            elif op != '=':
                bad('compound assignment `%s`' % op, line)
            if op not in ('=', '|=', '&=') and tt not in NUM:
                bad('`%s` on a value of type %s' % (op, tt), line)
            if r == 'self':
                if c.loop:
                    bad('`self` is changed inside a loop', line)
                return [ind + 'let self := %s' % self.update(target, v, c, line)] + cont(c, ind)
            if target[0] == 'path' and r in c.mutable:
                return [ind + 'let %s : %s := %s' % (vid(r), lean_type(tt), v)] + cont(c, ind)
            bad('assignment to something that is not a field of `self` or a `let mut` local', line)
        if kind == 'expr':
            e = s[1]
            if e[0] in ('if', 'iflet', 'match'):
                return self.cps(e, c, ind, no_value)
            if e[0] == 'mcall' and e[2] == 'push_str' and len(e[3]) == 1 and e[1][0] == 'path':
                v = e[1][1][0]
                if c.types.get(v) != 'Str' or v not in c.mutable:
                    bad('`%s.push_str(..)` on something that is not a `let mut` String' % v, line)
                a = e[3][0]
                if a[0] == 'ref' and a[1][0] == 'index' and a[1][2][0] == 'range':
                    base, rng = a[1][1], a[1][2]
                    b, tb = self.vex(base, c)
                    if tb != 'Text':
                        bad('slice of something other than the text', line)
                    lo, tlo = self.vex(rng[1], c)
                    hi, thi = self.vex(rng[2], c) if rng[2] is not None else ('%s.length' % b, 'usize')
                    if tlo not in NUM or thi not in NUM:
                        bad('slice bounds', line)
                    t = self.fresh()
                    panic = '.ret .panic' if c.loop else '.panic'
                    return [ind + 'match slice %s %s %s with' % (b, lo, hi), ind + '| none => %s' % panic, ind + '| some %s =>' % t,
                            ind + '  let %s : Bytes := (%s ++ %s)' % (vid(v), vid(v), t)] + cont(c, ind + '  ')
                x, tx = self.vex(a, c)
                if tx != 'Str':
                    bad('`push_str` of a value of type %s' % (tx,), line)
                return [ind + 'let %s : Bytes := (%s ++ %s)' % (vid(v), vid(v), x)] + cont(c, ind)
            if e[0] == 'mcall' and e[2] == 'replace_append' and len(e[3]) == 2 and e[1][0] == 'path' \
                    and c.types.get(e[1][1][0]) == 'Replacer':
                a, ta = self.vex(e[3][0], c)
                dst = e[3][1]
                if ta != 'Caps' or dst[0] != 'refmut' or dst[1][0] != 'path' or c.types.get(dst[1][1][0]) != 'Str' \
                        or dst[1][1][0] not in c.mutable:
                    bad('`replace_append(&caps, &mut new)`', line)
                v = dst[1][1][0]
                return [ind + 'let %s : Bytes := (%s ++ replace_append %s)' % (vid(v), vid(v), a)] + cont(c, ind)
            bad('expression statement that is not `if` / `match` / `push_str` / `replace_append`', line)
        if kind == 'return':
            if rest or tail is not None:
                bad('statement after `return`', line)
            return [ind + self.ret(s[1], c)]
        if kind == 'break':
            if rest or tail is not None:
                bad('statement after `break`', line)
            if not c.loop:
                bad('`break` outside a `for` body', line)
            return [ind + '.next %s' % c.loop[1]]
        if kind == 'for':
            return self.for_loop(s, c, ind, cont)
        if kind == 'whilelet':
            # `while let Some(p) = it.next() { … }` over the items of an iterator: the bound is the list of its items; the loop
            # stops at the first item that does not match `p` (that item is consumed); `it` must not be used afterwards
            _, pat, it, body, _ = s
            if not (pat[0] == 'psome' and it[0] == 'mcall' and it[2] == 'next' and not it[3] and it[1][0] == 'path'
                    and len(it[1][1]) == 1):
                bad('`while let` other than `while let Some(p) = it.next()` on a local iterator (no bound on the number of '
                    'iterations is evident)', line)
            v = it[1][1][0]
            if v not in c.mutable or v in self.free_names([body, rest, tail], []):
                bad('`while let … = %s.next()`: `%s` is not a `let mut` iterator, or it is used inside / after the loop' % (v, v), line)
            return self.for_loop(('for', pat[1], it[1], body, line), c, ind, cont, refutable=True)
        bad('statement form %s' % kind, line)

    def scrutinee(self, e, c):
        """-> (pre, lean text, type)"""
        line = e[-1]
        if e[0] == 'mcall' and e[2] in ('find_from_pos_with_option_flags', 'captures_from_pos_with_option_flags'):
            r, tr = self.vex(e[1], c)
            if tr != 'Regex' or len(e[3]) != 3:
                bad('engine call on something other than `self.re` / with other than three arguments', line)
            (a, ta), (p, tp), (f, tf) = [self.vex(x, c) for x in e[3]]
            if ta != 'Text' or tp not in NUM or tf not in NUM:
                bad('engine call: arguments of type %s, %s, %s' % (ta, tp, tf), line)
            item = 'Match' if e[2].startswith('find') else 'Caps'
            if item != c.item:
                bad('`%s` in an iterator that yields %s' % (e[2], c.item), line)
            return [], 'engineSearch %s OPTION_SKIPPED_EMPTY_MATCH %s %s %s' % (r, a, p, f), ('res', ('opt', item))
        if e[0] == 'mcall' and e[2] == 'next' and not e[3] and e[1][0] == 'field':
            s, t = self.vex(e[1], c)
            if t == 'Matches' and c.kind == 'split':
                if 'genMatchesNext' not in self.have:
                    bad('`Matches::next` is called before it is translated', line)
                t1, t2 = self.fresh(), self.fresh()
                pre = [('match1', 'genMatchesNext re text %s %s' % (INNER_NEXT_FUEL, s), '(%s, %s, _)' % (t1, t2)),
                       ('let', 'self', self.update(e[1], t2, c, line))]
                return pre, t1, ('opt', ('res', 'Match'))
        if e[0] == 'mcall' and e[2] == 'no_expansion' and not e[3] and e[1][0] == 'path' and c.types.get(e[1][1][0]) == 'Replacer':
            return [], 'no_expansion', ('opt', 'Str')
        v, t = self.vex(e, c)
        return [], v, t

    def cps(self, e, c, ind, kv):
        k, line = e[0], e[-1]
        if k == 'if':
            _, cnd, th, el, _ = e
            cs, ct = self.vex(cnd, c)
            if ct != 'bool':
                bad('condition of type %s' % (ct,), line)
            els = el if el else ([], None)
            return [ind + 'if %s then' % cs] + self.block(th[0], th[1], c.copy(), ind + '  ', kv) + [ind + 'else'] \
                + self.block(els[0], els[1], c.copy(), ind + '  ', kv)
        if k == 'iflet':
            _, pat, scrut, th, el, _ = e
            arms = [(pat, None, th, line), (('pwild', line), None, el if el else ([], None), line)]
        else:
            _, scrut, arms, _ = e
        pre, s, st = self.scrutinee(scrut, c)
        out, i2 = self.emit_pre(pre, ind)
        return out + self.arms_cps(arms, 0, s, st, c, i2, kv, line)

    def arms_cps(self, arms, i, s, st, c, ind, kv, line):
        if all(self.irrefutable(a[0]) for a in arms[i:]):
            if i >= len(arms):
                bad('`match` without an irrefutable last arm', line)
            pat, guard, body, aline = arms[i]
            c2, out = c.copy(), []
            if pat[0] == 'pbind':
                allow = k_shadow = (st == 'Str' and c.types.get(pat[1]) == 'Replacer')
                c2 = self.bind(c2, pat[1], st, aline, allow_shadow=allow)
                if vid(pat[1]) != s:
                    out.append(ind + 'let %s : %s := %s' % (vid(pat[1]), lean_type(st), s))
            if guard is None:
                return out + self.block(body[0], body[1], c2, ind, kv)
            g, tg = self.vex(guard, c2)
            if tg != 'bool':
                bad('guard of type %s' % (tg,), aline)
            return out + [ind + 'if %s then' % g] + self.block(body[0], body[1], c2, ind + '  ', kv) + [ind + 'else'] \
                + self.arms_cps(arms, i + 1, s, st, c, ind + '  ', kv, line)
        out = [ind + 'match %s with' % s]
        for j in range(i, len(arms)):
            pat, guard, body, aline = arms[j]
            p, binds = self.pat_lean(pat, st, aline)
            c2 = c.copy()
            for n, t in binds:
                c2 = self.bind(c2, n, t, aline, allow_shadow=(t == 'Str' and c.types.get(n) == 'Replacer'))
            out.append(ind + '| %s =>' % p)
            if guard is not None:
                restarms = arms[j + 1:]
                if len(restarms) != 1 or restarms[0][0][0] != 'pwild' or restarms[0][1] is not None:
                    bad('a guarded arm must be followed by exactly one `_ =>` arm', aline)
                g, tg = self.vex(guard, c2)
                fb = restarms[0][2]
                out += [ind + '  if %s then' % g] + self.block(body[0], body[1], c2, ind + '    ', kv) + [ind + '  else'] \
                    + self.block(fb[0], fb[1], c.copy(), ind + '    ', kv)
            else:
                out += self.block(body[0], body[1], c2, ind + '  ', kv)
            if self.irrefutable(pat):
                break
        return out

    # ---- `for (i, x) in it { … }` over the list of an iterator's items
    def mutated(self, x, out):
        if isinstance(x, tuple) and x:
            if x[0] == 'assign':
                r = self.root(x[1])
                if r:
                    out.add(r)
            if x[0] == 'mcall' and x[2] == 'push_str':
                r = self.root(x[1])
                if r:
                    out.add(r)
            if x[0] == 'refmut':
                r = self.root(x[1])
                if r:
                    out.add(r)
            for y in (x[1:] if isinstance(x[0], str) else x):
                self.mutated(y, out)
        elif isinstance(x, list):
            for y in x:
                self.mutated(y, out)
        return out

    def free_names(self, x, out):
        if isinstance(x, tuple) and x:
            if x[0] == 'path' and isinstance(x[1], list) and len(x[1]) == 1 and x[1][0] not in out:
                out.append(x[1][0])
            for y in (x[1:] if isinstance(x[0], str) else x):
                self.free_names(y, out)
        elif isinstance(x, list):
            for y in x:
                self.free_names(y, out)
        return out

    def for_loop(self, s, c, ind, cont, refutable=False):
        _, pat, it, body, line = s
        if c.loop or c.kind != 'replace':
            bad('`for` loop here', line)
        v, t = self.vex(it, c)
        if not (isinstance(t, tuple) and t[0] == 'list' and isinstance(t[1], tuple) and t[1][0] == 'pair'):
            bad('`for` over a value of type %s (only over `….enumerate().peekable()`)' % (t,), line)
        p, binds = self.pat_lean(pat, t[1], line)
        name, n = 'loopTryReplacen', 1
        while name in self.names:
            n += 1
            name = 'loopTryReplacen%d' % n
        self.names.add(name)
        mut = self.mutated(body, set())
        acc = sorted(x for x in mut if x in c.types and x in c.mutable)
        for x in mut:
            if x in c.types and x not in c.mutable:
                bad('`%s` is changed in the loop but is not `let mut`' % x, line)
        if not acc:
            bad('a `for` loop that changes nothing', line)
        bound = set(n2 for n2, _ in binds)
        cap = sorted(x for x in self.free_names(body, []) if x in c.types and x not in acc and x not in bound
                     and x not in self.param_names and c.types[x] != 'Replacer')
        acc_pat = vid(acc[0]) if len(acc) == 1 else '(%s)' % ', '.join(vid(x) for x in acc)
        acc_ty = lean_type(c.types[acc[0]]) if len(acc) == 1 else '(%s)' % ' × '.join(lean_type(c.types[x]) for x in acc)
        params = self.param_text + ''.join(' (%s : %s)' % (vid(x), lean_type(c.types[x])) for x in cap)
        call = name + ''.join(' ' + x for x in self.param_names_lean) + ''.join(' ' + vid(x) for x in cap)
        cl = c.copy()
        for n2, t2 in binds:
            cl = self.bind(cl, n2, t2, line)
        cl.loop = (call, acc_pat)
        lines = ['def %s%s : %s → %s → LoopRes %s Replaced' % (name, params, wrap(lean_type(t)), acc_ty, acc_ty),
                 '  | [], acc => .next acc',
                 '  | %s :: rest_, %s =>' % ('x_' if refutable else p, acc_pat)]

        def end(c2, i2, tl):
            if tl is not None:
                bad('`for` body with a value', line)
            return [i2 + '%s rest_ %s' % (call, acc_pat)]
        if refutable:
            lines += ['    match x_ with', '    | %s =>' % p] + self.block(body, None, cl, '      ', end) + ['    | _ => .next %s' % acc_pat]
        else:
            lines += self.block(body, None, cl, '    ', end)
        self.defs.append(('a `for` loop of `%s` over the items of the iterator: the items left, the accumulators' % c.fn, lines))
        out = [ind + 'match %s %s %s with' % (call, v, acc_pat), ind + '| .ret r_ => r_', ind + '| .next %s =>' % acc_pat]
        return out + cont(c, ind + '  ')

    # ---- the functions
    def body_at(self, sig, start=0, end=None, what=''):
        toks = self.toks
        want = sig.split()
        i = find_seq(toks, want, start, end)
        if i < 0:
            bad('cannot find `%s`%s' % (sig.replace(' ', ''), what))
        if end is None and find_seq(toks, want, i + 1) >= 0:
            bad('`%s` occurs twice' % sig.replace(' ', ''))
        p = Parser(toks, i + len(want) - 1)
        stmts, tail = p.block()
        return stmts, tail, toks[i].line

    def finish(self, c, ind, tl):
        if tl is None:
            bad('`%s` ends without a value' % c.fn)
        if tl[0] in ('if', 'iflet', 'match') and not (c.kind == 'value' and self.is_pure(tl, c)):
            return self.cps(tl, c, ind, self.finish)
        return [ind + self.ret(tl, c)]

    def add(self, name, doc, lines):
        self.defs.append((doc, lines))
        self.have.add(name)
        self.names.add(name)

    def ctor(self, e, c, want):
        """the value a constructor returns -> lean text"""
        line = e[-1]
        if e[0] == 'mcall' and is_path(e[1], 'self') and len(e[3]) == 1 and e[2] in ('find_iter', 'split'):
            v, t = self.vex(e[3][0], c)
            name, ty = {'find_iter': ('genFindIter', 'Matches'), 'split': ('genSplit', 'Split')}[e[2]]
            if t != 'Text' or ty != want or name not in self.have:
                bad('`self.%s(..)` here' % e[2], line)
            return name
        if e[0] == 'call' and e[1] == ['CaptureMatches'] and len(e[2]) == 1 and want == 'CaptureMatches':
            return self.ctor(e[2][0], c, 'Matches')
        if e[0] == 'struct' and e[1] == [want] and want in STRUCTS:
            decl = STRUCTS[want][1]
            given = {}
            for f, fe, fl in e[2]:
                if f in given:
                    bad('field `%s` given twice' % f, fl)
                given[f] = fe
            if set(given) != set(f for f, _, _ in decl):
                bad('`%s { .. }` does not give every field exactly once' % want, line)
            vals = []
            for f, _, m in decl:
                fe = given[f]
                if m[0] == 'param':
                    ok = (m[1] == 're' and fe[0] == 'ref' and is_path(fe[1], 'self')) or \
                         (m[1] == 'text' and fe[0] == 'path' and c.types.get(fe[1][0]) == 'Text')
                    if not ok:
                        bad('field `%s` of `%s { .. }`: expected %s' % (f, want, '`&self`' if m[1] == 're' else 'the text'), line)
                elif m[2] in STRUCTS:
                    vals.append('%s := %s' % (m[1], self.ctor(fe, c, m[2])))
                else:
                    v, t = self.vex(fe, c)
                    if not same_type(t, m[2]):
                        bad('field `%s` of `%s { .. }` has type %s' % (f, want, t), line)
                    vals.append('%s := %s' % (m[1], v))
            return '{ %s }' % ', '.join(vals)
        bad('constructor value of an unexpected shape', line)

    def run(self):
        toks = self.toks
        # declarations
        for sname, (shape, decl, lean_name) in list(STRUCTS.items()):
            fields, sline = parse_struct(toks, sname)
            table = [(f, ty) for f, ty, _ in decl]
            same = len(fields) == len(table) and all(f == g and (a == b or (ints.is_int(a) and ints.is_int(b)))
                                                     for (f, a), (g, b) in zip(fields, table))
            if not same:
                bad('struct %s: fields %s differ from the translator\'s table %s' % (sname, fields, table), sline)
            if fields != table:         # an integer field declared with another integer type: its tag is the declared type
                STRUCTS[sname] = (shape, [(f, a, m if a == b else (m[0], m[1], a)) for (f, a), (_, b, m) in zip(fields, decl)], lean_name)
        if find_seq(toks, CAPTURE_MATCHES_DECL) < 0:
            bad("cannot find `pub struct CaptureMatches<'r, 't>(Matches<'r, 't>);`")
        # the flag constant
        vt = self.vm_toks
        i = find_seq(vt, ['const', 'OPTION_SKIPPED_EMPTY_MATCH', ':', 'u32', '='])
        if i < 0:
            bad('cannot find `const OPTION_SKIPPED_EMPTY_MATCH: u32 = …` in vm.rs')
        j = i + 5
        expr = []
        while vt[j].text != ';':
            expr.append(vt[j])
            j += 1
        if len(expr) == 1 and expr[0].kind == 'int':
            self.flag = int_of(expr[0])
        elif len(expr) == 4 and expr[0].kind == 'int' and expr[1].text == '<' and expr[2].text == '<' and expr[3].kind == 'int':
            self.flag = int_of(expr[0]) << int_of(expr[3])
        else:
            bad('OPTION_SKIPPED_EMPTY_MATCH is not `n` or `n << k`', vt[i].line)
        k = find_seq(toks, ['use', 'crate', '::', 'vm', '::', '{'])
        if k < 0 or 'OPTION_SKIPPED_EMPTY_MATCH' not in [x.text for x in toks[k:matching(toks, k + 5)]]:
            bad('`use crate::vm::{…, OPTION_SKIPPED_EMPTY_MATCH}` not found in lib.rs')
        self.param_names, self.param_text, self.param_names_lean = set(), '', []

        # fn codepoint_len, fn next_utf8
        for fn, gen, params, ptext in (('codepoint_len', 'genCodepointLen', {'b': 'u8'}, '(b : Nat)'),
                                       ('next_utf8', 'genNextUtf8', {'text': 'Text', 'i': 'usize'}, '(text : Bytes) (i : Nat)')):
            stmts, tail, line = self.body_at(SIGS[fn])
            c = Ctx()
            c.kind, c.fn, c.types = 'value', fn, dict(params)
            self.tmpn = 0
            self.add(gen, '`fn %s` (lib.rs line %d)' % (fn, line),
                     ['def %s %s : Nat :=' % (gen, ptext)] + self.block(stmts, tail, c, '  ', self.finish))

        # the two match iterators
        for sname, gen, item in (('Matches', 'genMatchesNext', 'Match'), ('CaptureMatches', 'genCaptureMatchesNext', 'Caps')):
            stmts, tail, line = self.impl_next(sname)
            c = Ctx()
            c.kind, c.fn, c.self_type, c.item = 'next', sname + '::next', sname, item
            c.next_call = gen + (' re text' if item == 'Match' else ' re span text')
            self.tmpn = 0
            if item == 'Match':
                head = 'def %s (re : Oracle (Nat × Nat)) (text : Bytes) : Nat → Iter → Option (Except SearchErr (Nat × Nat)) × Iter × Bool' % gen
            else:
                head = ('def %s {α : Type} (re : Oracle α) (span : α → Nat × Nat) (text : Bytes) : '
                        'Nat → Iter → Option (Except SearchErr α) × Iter × Bool' % gen)
            lines = [head, '  | 0, self => (none, self, true)', '  | fuel + 1, self =>'] + self.block(stmts, tail, c, '    ', self.finish)
            self.add(gen, '`%s::next` (lib.rs line %d); a recursive `self.next()` uses one unit of fuel' % (sname, line), lines)
            if sname == 'Matches':
                self.constructor('find_iter', 'genFindIter', 'Matches', 'Iter', {'text': 'Text'}, '')
            else:
                self.constructor('captures_iter', 'genCapturesIter', 'CaptureMatches', 'Iter', {'text': 'Text'}, '')

        # Split, SplitN
        for sname, gen, kind, cname, cgen, cparams, cptext in (
                ('Split', 'genSplitNext', 'split', 'split', 'genSplit', {'target': 'Text'}, ''),
                ('SplitN', 'genSplitNNext', 'splitn', 'splitn', 'genSplitn', {'target': 'Text', 'limit': 'usize'}, ' (limit : Nat)')):
            stmts, tail, line = self.impl_next(sname)
            c = Ctx()
            c.kind, c.fn, c.self_type = kind, sname + '::next', sname
            self.tmpn = 0
            lines = ['def %s (re : Oracle (Nat × Nat)) (text : Bytes) (self : %s) : Option Item × %s :=' % (gen, sname, sname)] \
                + self.block(stmts, tail, c, '  ', self.finish)
            self.add(gen, '`%s::next` (lib.rs line %d)' % (sname, line), lines)
            self.constructor(cname, cgen, sname, sname, cparams, cptext)

        # try_replacen
        stmts, tail, line = self.body_at(SIGS['try_replacen'])
        c = Ctx()
        c.kind, c.fn = 'replace', 'try_replacen'
        c.types = {'text': 'Text', 'limit': 'usize', 'rep': 'Replacer'}
        self.param_names = {'text', 'limit'}
        self.param_names_lean = ['find', 'caps', 'span', 'text', 'limit', 'no_expansion', 'replace_append']
        self.param_text = (' {α : Type} (find : Oracle (Nat × Nat)) (caps : Oracle α) (span : α → Nat × Nat) (text : Bytes) (limit : Nat)'
                           ' (no_expansion : Option Bytes) (replace_append : α → Bytes)')
        self.tmpn = 0
        lines = ['def genTryReplacen%s : Replaced :=' % self.param_text] + self.block(stmts, tail, c, '  ', self.finish)
        self.add('genTryReplacen', '`Regex::try_replacen` (lib.rs line %d): the fast path over `find_iter` if the replacer has '
                 '`no_expansion()`, else the path over `captures_iter`' % line, lines)

    def impl_next(self, sname):
        toks = self.toks
        hdr, sig = IMPLS[sname]
        i = find_seq(toks, hdr.split())
        if i < 0:
            bad('cannot find `%s`' % hdr.replace(' ', ''))
        j = i + len(hdr.split()) - 1
        end = matching(toks, j)
        if find_seq(toks, ITEM_TYPES[sname].split(), j, end) < 0:
            bad('`impl Iterator for %s`: expected `%s`' % (sname, ITEM_TYPES[sname].replace(' ', '')), toks[i].line)
        return self.body_at(sig, j, end, ' in `impl Iterator for %s`' % sname)

    def constructor(self, fn, gen, want, lean_ty, params, ptext):
        stmts, tail, line = self.body_at(SIGS[fn])
        if stmts or tail is None:
            bad('`fn %s`: expected a body that is one constructor expression' % fn, line)
        c = Ctx()
        c.kind, c.fn, c.types = 'value', fn, dict(params)
        val = self.ctor(tail, c, want)
        self.add(gen, '`Regex::%s` (lib.rs line %d): the initial fields' % (fn, line), ['def %s%s : %s :=' % (gen, ptext, lean_ty), '  ' + val])

    def render(self):
        L = ['/- generated by tools/rs2lean_api.py from src/lib.rs — do not edit -/',
             'import FancyModel.GenApiPrelude',
             '/-!',
             '# The API-layer state machines of src/lib.rs, translated statement by statement',
             '',
             '`codepoint_len`, `next_utf8`, `Matches::next`, `CaptureMatches::next`, `Split::next`, `SplitN::next`, the constructors',
             '`find_iter` / `captures_iter` / `split` / `splitn`, and `Regex::try_replacen`: the same statements in the same order, as',
             'nested `let`s (an assignment shadows; `self` is the iterator\'s record), `if` / `match` as in the source (the rest of the',
             'function is repeated in every branch that goes on), `return` as the result. `re` is the search oracle, `text` the',
             'haystack. The adaptors (what is not taken from the Rust text) are in GenApiPrelude.lean. Proofs/C08d.lean proves every',
             'definition equal to the hand-written model (Model/Api.lean).',
             '-/',
             'set_option linter.unusedVariables false',
             'namespace Fancy.GenApi',
             'open Fancy.Api Fancy.Utf8',
             '',
             '/-- `OPTION_SKIPPED_EMPTY_MATCH` (src/vm.rs) -/',
             'def OPTION_SKIPPED_EMPTY_MATCH : Nat := %d' % self.flag,
             '']
        for doc, lines in self.defs:
            L.append('/-- %s -/' % doc)
            L += lines
            L.append('')
        L.append('end Fancy.GenApi')
        return '\n'.join(L) + '\n'


def translate(src_path, vm_path):
    tr = Translator(tokenize(open(src_path).read()), tokenize(open(vm_path).read(), vm_path))
    tr.run()
    return tr.render()


def main(argv):
    src = os.environ.get('RS2LEAN_LIB_SRC', DEFAULT_SRC)
    out = os.environ.get('RS2LEAN_API_OUT', DEFAULT_OUT)
    vm = None
    args, pos, stub_on_failure = list(argv), [], False
    while args:
        a = args.pop(0)
        if a == '-o':
            out = args.pop(0)
        elif a == '--vm':
            vm = args.pop(0)
        elif a == '--stub-on-failure':
            stub_on_failure = True
        elif a in ('-h', '--help'):
            print(__doc__)
            return 0
        else:
            pos.append(a)
    if len(pos) > 1:
        print('rs2lean_api.py: too many arguments')
        return 2
    if pos:
        src = pos[0]
    if vm is None:
        sib = os.path.join(os.path.dirname(os.path.abspath(src)), 'vm.rs')
        vm = sib if os.path.exists(sib) else '/repo/src/vm.rs'
    failure = None
    try:
        text = translate(src, vm)
    except Unsupported as e:
        where = '%s:%s: ' % (src, e.line) if e.line else '%s: ' % src
        failure = 'rs2lean_api.py: NOT TRANSLATED - %s%s' % (where, e.msg)
    except Exception as e:                  # whatever goes wrong inside the translator is a refusal: never a stale file
        failure = 'rs2lean_api.py: NOT TRANSLATED - %s: %s: %r' % (src, type(e).__name__, e)
    if failure is not None:
        print(failure)
        if not stub_on_failure or out == '-':
            return 2
        stub = ('/- tools/rs2lean_api.py could not translate the API layer of src/lib.rs (exit 2):\n%s\n-/\n'
                'namespace Fancy.GenApi\n'
                'theorem translator_could_not_read_lib_rs : False := by\n'
                '  exact translation_failed   -- deliberately unresolved: see the comment above\n'
                'end Fancy.GenApi\n') % failure.replace('-/', '- /')[-1500:]
        old = open(out).read() if os.path.exists(out) else ''
        if old != stub:
            with open(out, 'w') as f:
                f.write(stub)
        print('rs2lean_api.py: src/lib.rs is not translated; %s now holds a failing stub (Proofs/C08d will not build)' % os.path.basename(out))
        return 0
    if out == '-':
        sys.stdout.write(text)
        return 0
    old = open(out).read() if os.path.exists(out) else None
    if old != text:
        with open(out, 'w') as f:
            f.write(text)
    print('rs2lean_api.py: ok (%s -> %s%s)' % (src, out, '' if old != text else ', unchanged'))
    return 0


if __name__ == '__main__':
    sys.exit(main(sys.argv[1:]))
