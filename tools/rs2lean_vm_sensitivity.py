#!/usr/bin/env python3
"""Sensitivity of the interpreter tie (tools/rs2lean_vm.py + lean/FancyModel/Proofs/C05f.lean).

For the unmutated /repo/src/vm.rs, hand-made mutations, meaning-preserving controls, one change outside the subset and every
seeded/*/*/patch.diff that changes the text of `fn run` in src/vm.rs: translate a scratch COPY of the file into a scratch
GeneratedVM.lean, compile it to a scratch .olean (module VmScratch.GeneratedVM), and elaborate a copy of Proofs/C05f.lean
in which only the import line `import FancyModel.GeneratedVM` is redirected to it. Nothing under /repo or /verif/lean is
written. Prints a markdown table.

usage: rs2lean_vm_sensitivity.py [--work DIR] [--only SUBSTRING-OF-THE-CASE-NAME]      (default /tmp/vmsens)
"""
import glob, os, re, shutil, subprocess, sys

VERIF = os.path.dirname(os.path.dirname(os.path.abspath(__file__)))
LEAN = os.path.join(VERIF, 'lean')
SRC = '/repo/src/vm.rs'
TRANSLATOR = os.path.join(VERIF, 'tools', 'rs2lean_vm.py')
PROOF = os.path.join(LEAN, 'FancyModel', 'Proofs', 'C05f.lean')


def sh(cmd, **kw):
    return subprocess.run(cmd, stdout=subprocess.PIPE, stderr=subprocess.STDOUT, text=True, **kw)


def once(text, old, new, what):
    if text.count(old) != 1:
        sys.exit('mutation %s: the text to replace occurs %d times' % (what, text.count(old)))
    return text.replace(old, new)


def run_text(src):
    """the text of `pub(crate) fn run(…) { … }`"""
    i = src.find('pub(crate) fn run(')
    if i < 0:
        return None
    j = src.find('\n}\n', i)
    return src[i:j + 3]


def mutations(src):
    yield ('(a) Any: `ix < s.len()` -> `ix <= s.len()`',
           once(src, 'Insn::Any => {\n                    if ix < s.len() {', 'Insn::Any => {\n                    if ix <= s.len() {', 'a'))
    b = '''                    state.save(repeat, repcount + 1);
                    if repcount >= lo {
                        state.push(next, ix)?;
                    }
                }
                Insn::RepeatNg {'''
    yield ('(b) RepeatGr: `repcount >= lo` -> `repcount > lo`', once(src, b, b.replace('repcount >= lo', 'repcount > lo'), 'b'))
    c = '''                    check,
                } => {
                    let repcount = state.get(repeat);
                    if repcount > lo && state.get(check) == ix {
                        // prevent zero-length match on repeat
                        break 'fail;
                    }
                    state.save(repeat, repcount + 1);
                    if repcount >= lo {
                        state.save(check, ix);
                        state.push(next, ix)?;
                    }'''
    yield ('(c) RepeatEpsilonGr: `repcount > lo` -> `repcount >= lo`',
           once(src, c, c.replace('if repcount > lo &&', 'if repcount >= lo &&'), 'c'))
    d = '''                        if ix == 0 {
                            break 'fail;
                        }
                        ix = prev_codepoint_ix(s, ix);'''
    yield ('(d) GoBack: the `if ix == 0 { break \'fail; }` test removed',
           once(src, d, '                        ix = prev_codepoint_ix(s, ix);', 'd'))
    yield ('(e) Backref: `lo > hi` -> `lo >= hi`', once(src, '                    if lo > hi {', '                    if lo >= hi {', 'e'))
    f = '''                        if state.get(0) < pos {
                            state.save(0, pos);
                        }
'''
    yield ('(f) End: the second cap (`state.get(0) < pos`) dropped', once(src, f, '', 'f'))
    yield ('(g) ContinueFromPreviousMatchEnd: `||` -> `&&`',
           once(src, 'if ix != pos || option_flags & OPTION_SKIPPED_EMPTY_MATCH != 0 {',
                'if ix != pos && option_flags & OPTION_SKIPPED_EMPTY_MATCH != 0 {', 'g'))
    yield ('(h) fail handler: `backtrack_count > limit` -> `>=`',
           once(src, 'if backtrack_count > options.backtrack_limit {', 'if backtrack_count >= options.backtrack_limit {', 'h'))
    i1 = once(src, '''                        Assertion::LeftWordBoundary => look_matcher
                            .is_word_start_unicode(s.as_bytes(), ix)
                            .unwrap(),''', '''                        Assertion::LeftWordBoundary => look_matcher
                            .is_word_end_unicode(s.as_bytes(), ix)
                            .unwrap(),''', 'i1')
    yield ('(i) Assertion: the methods of LeftWordBoundary / RightWordBoundary swapped',
           once(i1, 'look_matcher.is_word_end_unicode(s.as_bytes(), ix).unwrap()\n', 'look_matcher.is_word_start_unicode(s.as_bytes(), ix).unwrap()\n', 'i2'))
    yield ('(j) Delegate: `state.save(slot + 1, end.get())` -> `state.save(slot, end.get())`',
           once(src, 'state.save(slot + 1, end.get());', 'state.save(slot, end.get());', 'j'))
    yield ('(k) Delegate: `.anchored(Anchored::Yes)` -> `Anchored::No`', once(src, '.anchored(Anchored::Yes)', '.anchored(Anchored::No)', 'k'))
    yield ('(l) FailNegativeLookAround: `popped_pc == pc + 1` -> `popped_pc == pc`',
           once(src, 'if popped_pc == pc + 1 {', 'if popped_pc == pc {', 'l'))
    yield ('(m) Delegate: `inner_slots[(i + 1) * 2]` -> `inner_slots[i * 2]`',
           once(src, 'if let Some(start) = inner_slots[(i + 1) * 2] {', 'if let Some(start) = inner_slots[i * 2] {', 'm'))
    yield ('(n) Split: `state.push(y, ix)?; pc = x;` -> push x, go to y',
           once(src, 'state.push(y, ix)?;\n                    pc = x;', 'state.push(x, ix)?;\n                    pc = y;', 'n'))
    e1 = '''                    let count = state.stack_pop();
                    state.backtrack_cut(count);'''
    yield ('(o) EndAtomic: `backtrack_cut(count)` removed', once(src, e1, '                    let count = state.stack_pop();', 'o'))
    r1 = '''                    let ix_end = ix + val.len();
                    if !matches_literal(s, ix, ix_end, val) {
                        break 'fail;
                    }
                    ix = ix_end'''
    yield ('(control) Lit: an unused `let` of a pure value added (same meaning)',
           once(src, r1, r1.replace('let ix_end = ix + val.len();', 'let ix_end = ix + val.len();\n                    let unused_len = val.len();'), 'p'))
    s1 = '''                Insn::BeginAtomic => {
                    let count = state.backtrack_count();'''
    yield ('(control) comments and blank lines added (same meaning)',
           once(src, s1, '''                Insn::BeginAtomic => {
                    // how deep is the branch stack?

                    let count = /* now */ state.backtrack_count();''', 'q'))
    t1 = '''        backtrack_count += 1;
        #[cfg(fancy_regex_verif)]
        verif::count_backtrack();'''
    yield ('(control) a `#[cfg(..)]`-guarded tracing statement added (skipped by the translator)',
           once(src, t1, t1 + '\n        #[cfg(feature = "std")]\n        if option_flags & OPTION_TRACE != 0 {\n            println!("backtrack");\n        }', 'r'))
    yield ('(control) fail handler: the independent `pc = newpc;` / `ix = newix;` swapped (same meaning)',
           once(src, '        pc = newpc;\n        ix = newix;\n', '        ix = newix;\n        pc = newpc;\n', 't'))
    yield ('(control) Delegate: `let slot = …;` moved into the `if let` block, before the saves (same meaning)',
           once(src, '''                                let slot = (start_group + i) * 2;
                                if let Some(start) = inner_slots[(i + 1) * 2] {
                                    let end = inner_slots[(i + 1) * 2 + 1].unwrap();
''', '''                                if let Some(start) = inner_slots[(i + 1) * 2] {
                                    let end = inner_slots[(i + 1) * 2 + 1].unwrap();
                                    let slot = (start_group + i) * 2;
''', 'u'))
    # ---- the widened subset (integer types and casts, typed / reordered / renamed `let`s, integer methods)
    yield ('(control) run: the independent `let mut pc = 0;` / `let mut ix = pos;` swapped (same meaning)',
           once(src, '    let mut pc = 0;\n    let mut ix = pos;\n', '    let mut ix = pos;\n    let mut pc = 0;\n', 'w1'))
    yield ('(control) run: `let mut backtrack_count: usize = 0;` and `let mut pc: usize = 0;` (type annotations, same meaning)',
           once(once(src, '    let mut backtrack_count = 0;\n', '    let mut backtrack_count: usize = 0;\n', 'w2'),
                '    let mut pc = 0;\n', '    let mut pc: usize = 0;\n', 'w2b'))
    yield ('(control) Lit: the local `ix_end` renamed to `n` (a name the generated code uses itself: renamed apart; same meaning)',
           once(src, r1, r1.replace('ix_end', 'n'), 'w3'))
    yield ('(control) Lit: `let ix_end = ix; let ix_end = ix_end + val.len();` (a shadowing `let` in the same block, same meaning)',
           once(src, '                    let ix_end = ix + val.len();\n', '                    let ix_end = ix;\n                    let ix_end = ix_end + val.len();\n', 'w3b'))
    yield ('(control) fail handler: the limit bound to a `let` before the loop, `let limit = options.backtrack_limit;` (same meaning)',
           once(once(src, '    let mut backtrack_count = 0;\n', '    let limit = options.backtrack_limit;\n    let mut backtrack_count = 0;\n', 'w4'),
                'if backtrack_count > options.backtrack_limit {', 'if backtrack_count > limit {', 'w4b'))
    yield ('(v) fail handler: the counter is a `u32` (`let mut backtrack_count: u32 = 0;`, compared with `options.backtrack_limit as u32`)',
           once(once(src, '    let mut backtrack_count = 0;\n', '    let mut backtrack_count: u32 = 0;\n', 'w5'),
                'if backtrack_count > options.backtrack_limit {', 'if backtrack_count > options.backtrack_limit as u32 {', 'w5b'))
    yield ('(w) fail handler: `backtrack_count > options.backtrack_limit.min(1000)`',
           once(src, 'if backtrack_count > options.backtrack_limit {', 'if backtrack_count > options.backtrack_limit.min(1000) {', 'w6'))
    yield ('(x) Lit: `ix + val.len()` -> `ix.saturating_sub(1) + val.len()`',
           once(src, 'let ix_end = ix + val.len();', 'let ix_end = ix.saturating_sub(1) + val.len();', 'w7'))
    yield ('(y) fail handler: the counter counts in steps of two, `backtrack_count += 1 << 1;`',
           once(src, '        backtrack_count += 1;\n', '        backtrack_count += 1 << 1;\n', 'w8'))
    yield ('(rejected?) Any: `ix += codepoint_len_at(s, ix)` -> `ix = next_utf8(s, ix)`',
           once(src, '''                    if ix < s.len() {
                        ix += codepoint_len_at(s, ix);
                    } else {
                        break 'fail;
                    }
                }
                Insn::AnyNoNL''', '''                    if ix < s.len() {
                        ix = crate::next_utf8(s, ix);
                    } else {
                        break 'fail;
                    }
                }
                Insn::AnyNoNL''', 's'))


def locate(line):
    """the theorem of Proofs/C05f.lean that contains a line"""
    src = open(PROOF).read().split('\n')
    for k in range(min(line, len(src)) - 1, -1, -1):
        m = re.match(r'^(?:private )?(?:theorem|def|example)\s*(\S*)', src[k])
        if m:
            return '`%s`' % (m.group(1) or 'example')
    return '?'


def main():
    work = '/tmp/vmsens'
    if '--work' in sys.argv:
        work = sys.argv[sys.argv.index('--work') + 1]
    shutil.rmtree(work, ignore_errors=True)
    os.makedirs(work)
    lean_path = sh(['lake', 'env', 'printenv', 'LEAN_PATH'], cwd=LEAN).stdout.strip().split('\n')[-1]
    lean_bin = sh(['lake', 'env', 'which', 'lean'], cwd=LEAN).stdout.strip().split('\n')[-1]
    src = open(SRC).read()
    cases = [('unmutated /repo/src/vm.rs', src)] + list(mutations(src))
    only = sys.argv[sys.argv.index('--only') + 1] if '--only' in sys.argv else None
    outside = []
    for p in sorted(glob.glob(os.path.join(VERIF, 'seeded', '*', '*', 'patch.diff'))):
        if 'src/vm.rs' not in open(p).read():
            continue
        d = os.path.join(work, 'patch')
        shutil.rmtree(d, ignore_errors=True)
        shutil.copytree('/repo/src', os.path.join(d, 'src'))
        r = sh(['patch', '-p1', '-s', '-f', '-i', p], cwd=d)
        name = 'seeded/' + os.path.relpath(os.path.dirname(p), os.path.join(VERIF, 'seeded'))
        if r.returncode != 0:
            cases.append((name, None))
            continue
        text = open(os.path.join(d, 'src', 'vm.rs')).read()
        if run_text(text) == run_text(src):
            outside.append(name)
        else:
            cases.append((name, text))
    if only is not None:
        cases = cases[:1] + [x for x in cases[1:] if only in x[0]]
    base_gen = None
    rows = []
    for i, (name, text) in enumerate(cases):
        d = os.path.join(work, 'c%02d' % i)
        os.makedirs(os.path.join(d, 'lib', 'VmScratch'))
        if text is None:
            rows.append((name, 'patch does not apply', '-', ''))
            continue
        rs = os.path.join(d, 'vm.rs')
        open(rs, 'w').write(text)
        os.makedirs(os.path.join(d, 'root', 'VmScratch'))
        gen = os.path.join(d, 'root', 'VmScratch', 'GeneratedVM.lean')
        r = sh([sys.executable, TRANSLATOR, rs, '-o', gen, '--lib', '/repo/src/lib.rs'])
        if r.returncode != 0:
            rows.append((name, 'REJECTED (exit %d)' % r.returncode, '-', r.stdout.strip().split('\n')[-1].replace(rs, 'vm.rs')))
            continue
        g = open(gen).read()
        if base_gen is None:
            base_gen = g
        same = (g == base_gen)
        env = dict(os.environ, LEAN_PATH=os.path.join(d, 'lib') + ':' + lean_path)
        r = sh([lean_bin, '--root=' + os.path.join(d, 'root'), '-o', os.path.join(d, 'lib', 'VmScratch', 'GeneratedVM.olean'), gen],
               env=env, cwd=os.path.join(d, 'root'))
        if r.returncode != 0:
            rows.append((name, 'accepted', 'generated file does not compile', r.stdout.strip().split('\n')[0]))
            continue
        proof = os.path.join(d, 'root', 'VmScratch', 'C05f.lean')
        ptext = open(PROOF).read()
        if ptext.count('import FancyModel.GeneratedVM\n') != 1:
            sys.exit('C05f.lean does not import FancyModel.GeneratedVM exactly once')
        open(proof, 'w').write(ptext.replace('import FancyModel.GeneratedVM\n', 'import VmScratch.GeneratedVM\n'))
        r = sh([lean_bin, '--root=' + os.path.join(d, 'root'), proof], env=env, cwd=os.path.join(d, 'root'))
        errs = [l for l in r.stdout.split('\n') if ': error' in l]
        if r.returncode == 0 and not errs:
            rows.append((name, 'accepted' + (', generated Lean identical' if same and i else ''), 'proof HOLDS', ''))
        else:
            where = sorted({l.split(':')[1] for l in errs if l.count(':') > 2 and l.split(':')[1].isdigit()}, key=int)
            thms = []
            for w in where:
                t = locate(int(w))
                if t not in thms:
                    thms.append(t)
            rows.append((name, 'accepted', 'proof FAILS', '%d error(s): %s' % (len(errs), ', '.join(thms[:3]) + (' …' if len(thms) > 3 else ''))))
    print('| source | translator | Proofs/C05f.lean | detail |')
    print('|---|---|---|---|')
    for r in rows:
        print('| %s | %s | %s | %s |' % r)
    if outside:
        print('\nseeded patches that change src/vm.rs but not the text of `fn run` (State methods, enum, helpers): ' + ', '.join(outside))
    return 0


if __name__ == '__main__':
    sys.exit(main())
