#!/usr/bin/env python3
"""Translate the parser of fancy-regex (the non-test part of src/parse.rs) into Lean: lean/FancyModel/GeneratedParse.lean.

usage: rs2lean_parse.py [PARSE_RS] [-o OUT.lean] [--lib LIB_RS] [--stub-on-failure]
       (PARSE_RS defaults to $RS2LEAN_PARSE_SRC or /repo/src/parse.rs, OUT to $RS2LEAN_PARSE_OUT or
        lean/FancyModel/GeneratedParse.lean; LIB_RS defaults to lib.rs next to PARSE_RS, else /repo/src/lib.rs;
        --stub-on-failure, used by tools/extract.py: a failure leaves a stub that does not compile in OUT and exits 0)

Mechanical: the tokenizer / expression parser of the other translators, a statement / pattern parser for the subset
parse.rs uses, then one monadic `let` / `if` / `match` per Rust statement in source order (the model's `Res` monad), one
definition per function and per loop. Anything outside the subset is an error (exit status 2, construct + line).
What is NOT read from the Rust text (the adaptors) is in lean/FancyModel/GenParsePrelude.lean and in the tables below;
see notes/translator-parse.md.
"""
import os, re, sys

sys.path.insert(0, os.path.dirname(os.path.abspath(__file__)))
import rs2lean_analyze as ra
import rs2lean_vm as rv
import rs2lean_compile as rc
from rs2lean_analyze import Unsupported, bad, matching, top_level_positions, parse_enum, parse_struct

VERIF = os.path.dirname(os.path.dirname(os.path.abspath(__file__)))
DEFAULT_SRC = '/repo/src/parse.rs'
DEFAULT_OUT = os.path.join(VERIF, 'lean', 'FancyModel', 'GeneratedParse.lean')

# ------------------------------------------------------------------------------------------------ adaptor tables
EXPR_VARIANTS = {v[0]: v for v in ra.VARIANTS}
LOOK = {'LookAhead': 'Look.ahead', 'LookAheadNeg': 'Look.aheadNeg', 'LookBehind': 'Look.behind', 'LookBehindNeg': 'Look.behindNeg'}
ASSERTIONS = {'StartText': 'Assertion.startText', 'EndText': 'Assertion.endText', 'StartLine': 'Assertion.startLine',
              'EndLine': 'Assertion.endLine', 'LeftWordBoundary': 'Assertion.leftWord', 'RightWordBoundary': 'Assertion.rightWord',
              'WordBoundary': 'Assertion.wordB', 'NotWordBoundary': 'Assertion.notWordB'}
FLAGS = {'FLAG_CASEI': '.casei', 'FLAG_MULTI': '.multi', 'FLAG_DOTNL': '.dotnl', 'FLAG_SWAP_GREED': '.swapGreed',
         'FLAG_IGNORE_SPACE': '.ignoreSpace', 'FLAG_UNICODE': '.unicode'}
# fields of `Parser` other than `re` -> (field of the model's PState, type)
STATE = {'backrefs': ('backrefs', 'BitSet'), 'flags': ('flags', 'Flags'), 'named_groups': ('namedGroups', 'Named'),
         'numeric_backrefs': ('numericBackrefs', 'bool'), 'curr_group': ('currGroup', 'usize'),
         'last_re_had_alt': ('lastReHadAlt', 'bool')}
PARSER_FIELDS = [('re', "&'a str"), ('backrefs', 'BitSet'), ('flags', 'u32'), ('named_groups', 'NamedGroups'),
                 ('numeric_backrefs', 'bool'), ('curr_group', 'usize'), ('last_re_had_alt', 'bool')]
TREE_FIELDS = [('expr', 'Expr'), ('backrefs', 'BitSet'), ('named_groups', 'NamedGroups')]
# ParseError variant -> (model constructor, payload kind)
PARSE_ERRORS = {'UnclosedOpenParen': ('.unclosedOpenParen', None), 'InvalidRepeat': ('.invalidRepeat', None),
                'RecursionExceeded': ('.recursionExceeded', None), 'TrailingBackslash': ('.trailingBackslash', None),
                'InvalidEscape': ('.invalidEscape', 'bytes'), 'UnclosedUnicodeName': ('.unclosedUnicodeName', None),
                'InvalidHex': ('.invalidHex', None), 'InvalidCodepointValue': ('.invalidCodepointValue', None),
                'InvalidClass': ('.invalidClass', None), 'UnknownFlag': ('.unknownFlag', 'bytes'),
                'NonUnicodeUnsupported': ('.nonUnicodeUnsupported', None), 'InvalidBackref': ('.invalidBackref', None),
                'TargetNotRepeatable': ('.targetNotRepeatable', None), 'InvalidGroupName': ('.invalidGroupName', None),
                'InvalidGroupNameBackref': ('.invalidGroupNameBackref', 'bytes')}
GENERAL_MESSAGES = {'"end of string not reached"': '.endNotReached', '"expected close paren"': '.expectedCloseParen',
                    '"expected conditional to be a backreference or at least an expression for when the condition is true"':
                    '.expectedConditional'}
# `&str` parameters that are suffixes of the pattern (everything else of type `&str` is a byte list)
STR_PARAMS = {('parse_decimal', 's'), ('parse_id', 's'), ('unknown_flag', 're')}
# fuel of the loops that do not consume the descent fuel: (function, index of the loop in the function) -> Lean term
LOOP_FUEL = {('parse_decimal', 0): '(s.len + 1)', ('optional_whitespace', 0): '(re.size + 2)', ('optional_whitespace', 1): '(re.size + 1)',
             ('parse_hex', 0): '16', ('parse_escape', 0): '(re.size + 1)', ('parse_class', 0): '(re.size + 2)',
             ('parse_flags', 0): '(re.size + 2)'}
# the recursive descent: these functions (and their loops that are not in LOOP_FUEL) share one fuel
DESCENT_ENTRY = 'parse_re'
TOP_FUEL = '(descentFuel re.size)'
# labels of the panic sites: (function, operation text as written in the source, occurrence) -> the model's label
SITES = {
    ('parse_decimal', 's.as_bytes()[end]', 0): 'parse_decimal: s.as_bytes()[end]',
    ('parse_decimal', 's[ix..end]', 0): 'parse_decimal: s[ix..end]',
    ('parse_id', 'debug_assert', 0): 'parse_id: debug_assert close',
    ('parse_id', 's[id_start..]', 0): 'parse_id: s[id_start..]',
    ('parse_id', 's[id_start + id_len..]', 0): 'parse_id: s[id_start + id_len..]',
    ('parse_id', 's[id_start..id_end]', 0): 'parse_id: s[id_start..id_end]',
    ('optional_whitespace', 'bytes[ix]', 0): 'optional_whitespace: bytes[ix]',
    ('optional_whitespace', 'bytes[ix..]', 0): 'optional_whitespace: bytes[ix..] (position)',
    ('optional_whitespace', 'bytes[ix..]', 1): 'optional_whitespace: bytes[ix..] (starts_with)',
    ('optional_whitespace', 'bytes[ix]', 1): 'optional_whitespace: bytes[ix] (comment)',
    ('parse_repeat', 'bytes[ix]', 0): 'parse_repeat: bytes[ix] (lo)',
    ('parse_repeat', 'bytes[ix]', 1): 'parse_repeat: bytes[ix] (hi)',
    ('parse_repeat', 'bytes[ix]', 2): 'parse_repeat: bytes[ix] (close)',
    ('parse_named_backref', 'self.re[ix..]', 0): 'parse_named_backref: self.re[ix..]',
    ('parse_hex', 'bytes[endhex]', 0): 'parse_hex: bytes[endhex]',
    ('parse_hex', 'bytes[ix]', 0): 'parse_hex: bytes[ix]',
    ('parse_hex', 'bytes[ix..ix + digits]', 0): 'parse_hex: bytes[ix..ix + digits]',
    ('parse_hex', 'self.re[ix..end]', 0): 'parse_hex: self.re[ix..end]',
    ('parse_hex', 'self.re[starthex..endhex]', 0): 'parse_hex: self.re[starthex..endhex]',
    ('parse_hex', 'unwrap', 0): 'parse_hex: from_str_radix(..).unwrap()',
    ('parse_escape', 'bytes[end]', 1): 'parse_escape: bytes[end] (\\\\p{)',
    ('parse_escape', 'bytes[end]', 0): 'parse_escape: bytes[end] (\\\\p)',
    ('parse_escape', 'bytes[end]', 2): 'parse_escape: bytes[end] (\\\\g)',
    ('parse_escape', 'self.re[ix + 1..end]', 0): 'parse_escape: self.re[ix + 1..end] (\\\\b{)',
    ('parse_escape', 'self.re[ix + 1..end]', 1): 'parse_escape: self.re[ix + 1..end] (\\\\B{)',
    ('parse_escape', 'self.re[ix + 1..end]', 2): 'parse_escape: self.re[ix + 1..end]',
    ('parse_escape', 'self.re[ix..end]', 0): 'parse_escape: self.re[ix..end] (\\\\d\\\\s\\\\w)',
    ('parse_escape', 'self.re[ix..end]', 1): 'parse_escape: self.re[ix..end] (\\\\p)',
    ('parse_class', 'bytes[ix]', 0): 'parse_class: bytes[ix]',
    ('parse_class', 'debug_assert', 0): 'parse_class: debug_assert_eq!(val.chars().count(), 1)',
    ('parse_class', 'self.re[ix..end]', 0): 'parse_class: self.re[ix..end]',
    ('check_for_close_paren', 'self.re.as_bytes()[ix]', 0): 'check_for_close_paren: bytes[ix]',
    ('unknown_flag', 're.as_bytes()[end]', 0): 'unknown_flag: bytes[end]',
    ('unknown_flag', 're[start..after_end]', 0): 'unknown_flag: re[start..after_end]',
    ('parse_re', 'self.re[ix..]', 0): 'parse_re: self.re[ix..]',
    ('parse_re', 'self.re[ix..]', 1): 'parse_re: self.re[ix..] (loop)',
    ('parse_branch', 'unwrap', 0): 'parse_branch: children.pop().unwrap()',
    ('parse_piece', 'self.re.as_bytes()[ix]', 0): 'parse_piece: bytes[ix]',
    ('parse_piece', 'next - 1', 0): 'parse_piece: next - 1',
    ('parse_piece', 'self.re.as_bytes()[ix]', 1): 'parse_piece: bytes[ix] (lazy)',
    ('parse_piece', 'self.re.as_bytes()[ix]', 2): 'parse_piece: bytes[ix] (possessive)',
    ('parse_atom', 'self.re.as_bytes()[ix]', 0): 'parse_atom: bytes[ix]',
    ('parse_atom', 'self.re[ix..next]', 0): 'parse_atom: self.re[ix..next]',
    ('parse_group', 'self.re[ix..]', 0): 'parse_group: self.re[ix..]',
    ('parse_group', 'self.re[ix + 1..]', 0): 'parse_group: self.re[ix + 1..]',
    ('parse_group', 'self.re[ix + 2..]', 0): 'parse_group: self.re[ix + 2..]',
    ('parse_flags', 'self.re.as_bytes()[ix]', 0): 'parse_flags: bytes[ix]',
    ('parse_flags', 'self.re.as_bytes()[ix]', 1): 'parse_flags: bytes[ix] (close)',
    ('parse_conditional', 'bytes[ix]', 0): 'parse_conditional: bytes[ix]',
    ('parse_conditional', 'remove', 0): 'parse_conditional: alternatives.remove(0)',
}
KEYWORDS = set(ra.LEAN_KEYWORDS) | set(rv.EXTRA_KEYWORDS) | {'class', 'end', 'open', 'at'}


def lid(name):
    if name == 'open':
        return '«open»'
    return name + '_' if name in KEYWORDS else name


# ------------------------------------------------------------------------------------------------ parser

class P2(rc.P):
    """rs2lean_compile's parser plus: `while` / `loop` / `break`, `let … else`, byte / char / string literals, `matches!`,
    `format!`, `debug_assert!`, closures with patterns, turbofish `parse::<isize>`, literal and nested patterns"""

    def p_unary(self, ns):
        t = self.peek()
        if t.kind == 'op' and t.text == '|':
            self.next()
            params = []
            while not self.at('|'):
                params.append(self.pattern())
                if not self.at('|'):
                    self.expect(',')
            self.next()
            body = ('blockexpr', self.block(), t.line) if self.at('{') else self.expr()
            return ('closure', params, body, t.line)
        return rc.P.p_unary(self, ns)

    def p_unary_nocast(self, ns):
        t = self.peek()
        if t.kind == 'op' and t.text == '!':
            self.next()
            return ('not', self.p_unary_nocast(ns), t.line)
        if t.kind == 'op' and t.text == '&':
            self.next()
            if self.at('mut'):
                self.next()
                return ('refmut', self.p_unary_nocast(ns), t.line)
            if self.at('|'):
                return ('ref', self.p_unary(ns), t.line)
            return ('ref', self.p_unary_nocast(ns), t.line)
        if t.kind == 'op' and t.text == '*':
            self.next()
            return ('deref', self.p_unary_nocast(ns), t.line)
        if t.kind == 'op' and t.text == '-':
            bad('unary minus', t.line)
        if t.kind == 'op' and t.text in ('|', '||'):
            return self.p_unary(ns)
        return self.p_postfix(ns)

    def p_cast(self, ns):
        e = self.p_unary_nocast(ns)
        while self.at('as'):
            t = self.next()
            ty = self.ident()
            if ty not in ('usize', 'u32', 'u8', 'char'):
                bad('cast `as %s`' % ty, t.line)
            e = ('cast', e, ty, t.line)
        return e

    def p_mul(self, ns):
        l = self.p_cast(ns)
        while self.peek().kind == 'op' and self.peek().text in ('*', '/', '%'):
            t = self.next()
            if t.text == '%':
                bad('operator `%`', t.line)
            l = ('bin', t.text, l, self.p_cast(ns), t.line)
        return l

    def p_postfix(self, ns):
        e = self.p_primary(ns)
        while True:
            t = self.peek()
            if t.kind != 'op':
                break
            if t.text == '.':
                self.next()
                nt = self.next()
                if nt.kind != 'id':
                    bad('`.%s`' % nt.text, nt.line)
                turbo = None
                if self.at('::'):
                    self.next()
                    self.expect('<')
                    turbo = self.type_(['>'])
                    self.expect('>')
                if self.at('('):
                    e = ('mcall', e, nt.text + ('::<%s>' % turbo if turbo else ''), self.args(), nt.line)
                else:
                    e = ('field', e, nt.text, nt.line)
            elif t.text == '[':
                self.next()
                if self.at('..'):
                    self.next()
                    idx = ('slice', None, self.p_oror(False))
                else:
                    lo = self.p_oror(False)
                    if self.at('..'):
                        self.next()
                        idx = ('slice', lo, None if self.at(']') else self.p_oror(False))
                    else:
                        idx = lo
                self.expect(']')
                e = ('index', e, idx, t.line)
            elif t.text == '?':
                self.next()
                e = ('try', e, t.line)
            else:
                break
        return e

    def p_primary(self, ns):
        t = self.peek()
        if t.kind == 'bchr':
            self.next()
            return ('byte', rv.byte_of(t), t.line)
        if t.kind == 'chr':
            self.next()
            return ('char', t.text, t.line)
        if t.kind == 'str':
            self.next()
            return ('str', t.text, t.line)
        if t.kind == 'id' and self.peek(1).text == '!' and self.peek(2).text == '(' and self.peek(1).kind == 'op':
            name = t.text
            self.next()
            self.next()
            if name == 'matches':
                self.expect('(')
                scrut = self.expr()
                self.expect(',')
                pats = [self.pattern()]
                while self.at('|'):
                    self.next()
                    pats.append(self.pattern())
                self.expect(')')
                return ('matches', scrut, pats, t.line)
            if name in ('format', 'debug_assert', 'debug_assert_eq', 'panic', 'vec'):
                return ('macro', name, self.args(), t.line)
            bad('macro invocation `%s!`' % name, t.line)
        if t.kind == 'id' and t.text == 'vec' and self.peek(1).text == '!' and self.peek(2).text == '[':
            self.next()
            self.next()
            self.next()
            items = []
            while not self.at(']'):
                items.append(self.expr())
                if not self.at(']'):
                    self.expect(',')
            self.next()
            return ('macro', 'vec', items, t.line)
        if t.kind == 'id' and t.text == 'loop':
            bad('`loop` in expression position', t.line)
        return rc.P.p_primary(self, ns)

    def pattern(self):
        t = self.peek()
        if t.kind == 'bchr':
            self.next()
            return ('pbyte', rv.byte_of(t), t.line)
        if t.kind == 'int':
            self.next()
            return ('pint', ra.int_of(t), t.line)
        if t.kind == 'id' and t.text == 'mut':
            self.next()
            return ('bind', self.ident(), False, t.line)
        return rc.P.pattern(self)

    def simple(self):
        t = self.peek()
        if t.kind == 'id' and t.text == 'break':
            self.next()
            if self.peek().kind == 'life':
                bad('`break` with a label', t.line)
            return ('break', t.line)
        if t.kind == 'id' and t.text == 'continue':
            self.next()
            if self.peek().kind == 'life':
                bad('`continue` with a label', t.line)
            return ('continue', t.line)
        if t.kind == 'id' and t.text == 'return':
            self.next()
            return ('return', self.expr(), t.line)
        e = self.expr()
        nt = self.peek()
        if nt.kind == 'op' and nt.text in ('=', '+=', '&=', '|=', '-=', '*=', '/=', '%=', '^='):
            self.next()
            if nt.text not in ('=', '+=', '&=', '|=', '-=', '^='):
                bad('compound assignment `%s`' % nt.text, nt.line)
            return ('assign', e, nt.text, self.expr(), t.line)
        return ('expr', e, t.line)

    def block(self):
        self.expect('{')
        stmts, tail = [], None
        while not self.at('}'):
            t = self.peek()
            if t.kind == 'op' and t.text == '#':
                self.attribute()
            elif t.kind == 'id' and t.text == 'let':
                self.next()
                mut = False
                if self.at('mut'):
                    self.next()
                    mut = True
                pat = self.pattern()
                ty = None
                if self.at(':'):
                    self.next()
                    ty = self.type_(['=', ';'])
                if self.at(';'):
                    self.next()
                    stmts.append(('letdecl', pat, ty, t.line))
                    continue
                self.expect('=')
                e = self.expr()
                if self.at('else'):
                    self.next()
                    eb = self.block()
                    self.expect(';')
                    stmts.append(('letelse', pat, e, eb, t.line))
                    continue
                self.expect(';')
                stmts.append(('let', pat, mut, ty, e, t.line))
            elif t.kind == 'id' and t.text == 'while':
                self.next()
                c = self.expr(no_struct=True)
                stmts.append(('while', c, self.block(), t.line))
            elif t.kind == 'id' and t.text == 'loop':
                self.next()
                stmts.append(('while', None, self.block(), t.line))
            elif t.kind == 'id' and t.text == 'fn':
                f, self.i = parse_fn2(self.toks, self.i, None)
                stmts.append(('fn', f, t.line))
            elif t.kind == 'id' and t.text in ('if', 'match'):
                s = self.p_primary(False)
                if self.at('}'):
                    tail = s
                else:
                    if self.at(';'):
                        self.next()
                    stmts.append(s)
            elif t.kind == 'id' and t.text == 'for':
                bad('`for` loop', t.line)
            elif (t.kind == 'id' and t.text in ('unsafe', 'struct', 'use', 'const', 'static')) or t.kind == 'life':
                bad('`%s` statement' % t.text, t.line)
            elif t.kind == 'op' and t.text == '{':
                bad('nested block statement', t.line)
            else:
                s = self.simple()
                if self.at(';'):
                    self.next()
                    stmts.append(s)
                elif self.at('}'):
                    if s[0] == 'expr':
                        tail = s[1]
                    else:
                        stmts.append(s)
                else:
                    bad('unexpected `%s` after a statement' % self.peek().text, self.peek().line)
        self.expect('}')
        return (stmts, tail)


def parse_fn2(toks, k, owner):
    """like rs2lean_compile.parse_fn, with this file's block parser; lifetime / generic parameters are skipped"""
    p = P2(toks, k)
    line = p.expect('fn').line
    name = p.ident()
    if p.at('<'):
        while not p.at('>'):
            p.next()
        p.next()
    p.expect('(')
    params, selfkind = [], None
    while not p.at(')'):
        if p.at('&', 'mut', 'self'):
            p.next(); p.next(); p.next()
            selfkind = 'mut'
        elif p.at('&', 'self'):
            p.next(); p.next()
            selfkind = 'ref'
        else:
            mut = False
            if p.at('mut'):
                p.next()
                mut = True
            pn = p.ident()
            p.expect(':')
            params.append((pn, p.type_([',', ')']), mut))
        if not p.at(')'):
            p.expect(',')
    p.next()
    ret = '()'
    if p.at('->'):
        p.next()
        ret = p.type_(['{', 'where'])
    where = None
    if p.at('where'):
        p.next()
        w = []
        while not p.at('{'):
            w.append(p.next().text)
        where = ''.join(w).rstrip(',')
    body = p.block()
    return rc.Fn(owner, name, params, ret, body, line, where, selfkind), p.i


def parse_impl2(toks, type_name):
    out = []
    for i in top_level_positions(toks):
        if toks[i].text != 'impl':
            continue
        j = i + 1
        while toks[j].text != '{':
            j += 1
        if type_name not in [x.text for x in toks[i:j]]:
            continue
        end = matching(toks, j)
        k = j + 1
        while k < end:
            if toks[k].text == '#':
                close = matching(toks, k + 1)
                attr = ' '.join(x.text for x in toks[k + 2:close])
                if not attr.startswith('cfg'):
                    bad('attribute `#[%s]` on a method of %s' % (attr, type_name), toks[k].line)
                k = close + 1
                while toks[k].text != '{':
                    k += 1
                k = matching(toks, k) + 1
                continue
            while toks[k].text != 'fn':
                if toks[k].text not in ('pub', '(', ')', 'crate'):
                    bad('unexpected `%s` in impl %s' % (toks[k].text, type_name), toks[k].line)
                k += 1
            fn, k = parse_fn2(toks, k, type_name)
            out.append(fn)
    if not out:
        bad('cannot find `impl %s`' % type_name)
    return out


# ------------------------------------------------------------------------------------------------ translation

def lty(t):
    if isinstance(t, tuple):
        if t[0] == 'opt':
            return 'Option ' + (lty(t[1]) if ' ' not in lty(t[1]) else '(' + lty(t[1]) + ')')
        if t[0] == 'tuple':
            return ' × '.join(lty(x) if not (isinstance(x, tuple) and x[0] == 'tuple') else '(' + lty(x) + ')' for x in t[1])
        if t[0] == 'vec':
            return 'List ' + lty(t[1])
    return {'usize': 'Nat', 'u8': 'Nat', 'u32': 'Nat', 'bool': 'Bool', 'char': 'Char', 'int': 'Int', 'isize': 'Int', 'Str': 'Str',
            'bytes': 'List Nat', 'chars': 'List Char', 'Expr': 'Expr', 'Look': 'Look', 'PState': 'PState', 'Flags': 'Flags',
            'FlagBit': 'FlagBit', 'CharIter': 'CharIter', 'fn': 'Nat → Expr', 'Tree': 'Tree', 'PErr': 'PErr', 'Bytes': 'Bytes',
            'Assertion': 'Assertion', 'FindRes': 'Option Nat', 'Named': 'List (List Nat × Nat)', 'BitSet': 'List Nat'}[t]


def rust_str(tok):
    """bytes of a Rust string / byte-string literal token"""
    body = tok[tok.index('"') + 1:-1]
    out, i = [], 0
    while i < len(body):
        c = body[i]
        if c == '\\':
            n = body[i + 1]
            if n == 'x':
                out.append(int(body[i + 2:i + 4], 16))
                i += 4
                continue
            if n not in 'nrt0\\"\'':
                bad('escape `\\%s` in a string literal' % n)
            out.append({'n': 10, 'r': 13, 't': 9, '0': 0, '\\': 92, '"': 34, "'": 39}[n])
            i += 2
            continue
        out += list(c.encode('utf-8'))
        i += 1
    return out


def chb(n):
    """a byte as the model writes it: `ch 'x'`"""
    esc = {10: "\\n", 13: "\\r", 9: "\\t", 92: "\\\\", 39: "\\'"}
    if n in esc:
        return "ch '%s'" % esc[n]
    if 32 <= n < 127:
        return "ch '%s'" % chr(n)
    return str(n)


def lean_char(tok):
    return tok          # Rust and Lean agree on 'x', '\n', '\'', '\\', '_'


is_path, strip_ref, walk = rc.is_path, rc.strip_ref, rc.walk


class Ctx:
    def __init__(self, fn):
        self.fn = fn
        self.vars = {}
        self.tmp = [0]
        self.loops = [0]
        self.sv = None          # name of the threaded parser state (None: a free function)
        self.mutself = False
        self.rets = None        # return type tag of the function
        self.inloop = False
        self.lets = {}          # variable -> expression AST it abbreviates (`let bytes = self.re.as_bytes();`)

    def fresh(self):
        self.tmp[0] += 1
        return 't%d' % (self.tmp[0] - 1)

    def child(self):
        c = Ctx(self.fn)
        c.__dict__.update(self.__dict__)
        c.vars, c.lets = dict(self.vars), dict(self.lets)
        return c

    def declare(self, name, ty):
        self.vars.pop(name, None)
        self.vars[name] = ty
        self.lets.pop(name, None)


class T:
    def __init__(self, toks, lib):
        self.toks, self.lib = toks, lib
        self.funcs = {}
        self.extra = {}          # function name -> loop definitions
        self.alnum = set()       # functions that need the `isAlnum` parameter
        self.descent = set()
        self.fallible = {}
        self.sites = []          # (fn, text, line) in order of emission

    # ---------------------------------------------------------------- sites
    def site(self, c, text, line):
        key = (c.fn.name, text, line)
        if key not in self.sites:
            self.sites.append(key)
        return '@@SITE%d@@' % self.sites.index(key)

    def resolve_sites(self, out):
        groups = {}
        for fn, text, line in self.sites:
            groups.setdefault((fn, text), []).append(line)
        for i, (fn, text, line) in enumerate(self.sites):
            k = sorted(set(groups[(fn, text)])).index(line)
            label = SITES.get((fn, text, k), '%s: %s%s' % (fn, text, ' #%d' % k if k else ''))
            out = out.replace('@@SITE%d@@' % i, '"%s"' % label)
        return out

    def src_text(self, e):
        """the source text of a small expression (for site labels)"""
        k = e[0]
        if k == 'path':
            return '::'.join(e[1])
        if k == 'int':
            return str(e[1])
        if k in ('ref', 'refmut', 'paren', 'deref'):
            return self.src_text(e[1])
        if k == 'field':
            return self.src_text(e[1]) + '.' + e[2]
        if k == 'bin':
            return '%s %s %s' % (self.src_text(e[2]), e[1], self.src_text(e[3]))
        if k == 'mcall':
            return '%s.%s(%s)' % (self.src_text(e[1]), e[2], ', '.join(self.src_text(a) for a in e[3]))
        if k == 'index':
            i = e[2]
            if i[0] == 'slice':
                return '%s[%s..%s]' % (self.src_text(e[1]), self.src_text(i[1]) if i[1] else '', self.src_text(i[2]) if i[2] else '')
            return '%s[%s]' % (self.src_text(e[1]), self.src_text(i))
        return '?'

    # ---------------------------------------------------------------- expressions
    def arg(self, r):
        return r[0] if r[2] else '(' + r[0] + ')'

    def bytes_lit(self, tok, as_ch):
        bs = rust_str(tok)
        return '[' + ', '.join(chb(b) if as_ch else str(b) for b in bs) + ']'

    def is_re(self, e, c):
        """self.re / self.re.as_bytes() / a variable bound to it"""
        e = strip_ref(e)
        if e[0] == 'field' and is_path(strip_ref(e[1]), 'self') and e[2] == 're':
            return True
        if e[0] == 'mcall' and e[2] == 'as_bytes' and not e[3]:
            return self.is_re(e[1], c)
        if e[0] == 'path' and len(e[1]) == 1 and e[1][0] in c.lets:
            return self.is_re(c.lets[e[1][0]], c)
        if e[0] == 'path' and len(e[1]) == 1 and c.vars.get(e[1][0]) == 'Bytes' and e[1][0] == 're':
            return True
        return False

    def is_strvar(self, e, c):
        e = strip_ref(e)
        if e[0] == 'mcall' and e[2] == 'as_bytes' and not e[3]:
            return self.is_strvar(e[1], c)
        if e[0] == 'path' and len(e[1]) == 1 and c.vars.get(e[1][0]) == 'Str':
            return lid(e[1][0])
        return None

    def closure1(self, cl, c, pty, pre):
        """one-parameter closure `|p| e` (p: `x`, `&x`, `_`, `(_, x)`, `(x, _)`) -> (param name, body result)"""
        cl = strip_ref(cl)
        if cl[0] != 'closure' or len(cl[1]) != 1 or cl[2][0] == 'blockexpr' and cl[2][1][0]:
            bad('closure that is not `|x| expr`', cl[-1])
        p = cl[1][0]
        if p[0] == 'ptuple':
            names = [x for x in p[1] if x[0] == 'bind']
            if len(names) != 1:
                bad('closure tuple pattern', cl[-1])
            p = names[0]
        name = p[1] if p[0] == 'bind' else '_'
        cc = c.child()
        if name != '_':
            cc.declare(name, pty)
        body = cl[2][1][1] if cl[2][0] == 'blockexpr' else cl[2]
        n0 = len(pre)
        r = self.ex(body, cc, pre)
        if len(pre) != n0:
            bad('closure body with an operation that can panic', cl[-1])
        return lid(name), r

    def ex(self, e, c, pre, want=None):
        k, line = e[0], e[-1]
        if k == 'int':
            return (str(e[1]), 'int' if want == 'int' else 'usize', True)
        if k == 'bool':
            return ('true' if e[1] else 'false', 'bool', True)
        if k == 'byte':
            return (chb(e[1]), 'u8', False)
        if k == 'char':
            return (lean_char(e[1]), 'char', True)
        if k == 'str':
            return (self.bytes_lit(e[1], want == 'pat'), 'bytes', True)
        if k in ('ref', 'refmut', 'paren', 'deref'):
            return self.ex(e[1], c, pre, want)
        if k == 'tuple':
            rs = [self.ex(x, c, pre) for x in e[1]]
            return ('(' + ', '.join(r[0] for r in rs) + ')', ('tuple', [r[1] for r in rs]), True)
        if k == 'path':
            p = e[1]
            if len(p) == 1:
                x = p[0]
                if x in c.lets and x not in c.vars:
                    return self.ex(c.lets[x], c, pre, want)
                if x in c.vars:
                    return (lid(x), c.vars[x], True)
                if x in LOOK:
                    return (LOOK[x], 'Look', True)
                if x in FLAGS:
                    return (FLAGS[x], 'FlagBit', True)
                if x == 'None':
                    return ('none', ('opt', None), True)
                if x == 'MAX_RECURSION':
                    return ('Generated.maxRecursion', 'usize', True)
                bad('unknown name `%s`' % x, line)
            if p == ['usize', 'MAX']:
                return ('usizeMax', 'usize', True)
            if p[0] == 'Expr' and len(p) == 2:
                return self.mk_expr(p[1], 'unit', [], c, pre, line)
            if p[0] == 'Assertion' and len(p) == 2 and p[1] in ASSERTIONS:
                return (ASSERTIONS[p[1]], 'Assertion', True)
            bad('path `%s`' % '::'.join(p), line)
        if k == 'not':
            r = self.ex(e[1], c, pre)
            if r[1] != 'bool':
                bad('`!` on a non-boolean', line)
            return ('(!%s)' % self.arg(r), 'bool', True)
        if k == 'bin':
            return self.binop(e, c, pre)
        if k == 'field':
            b = strip_ref(e[1])
            if b[0] == 'path' and len(b[1]) == 1 and (b[1][0] == 'self' or c.vars.get(b[1][0]) == 'PState'):
                sv = c.sv if b[1][0] == 'self' else lid(b[1][0])
                if e[2] == 're':
                    return ('re', 'Bytes', True)
                if e[2] not in STATE:
                    bad('unknown field `%s` of the parser' % e[2], line)
                return ('%s.%s' % (sv, STATE[e[2]][0]), STATE[e[2]][1], True)
            bad('field access `.%s`' % e[2], line)
        if k == 'index':
            return self.index(e, c, pre, want)
        if k == 'call':
            return self.call(e, c, pre, want)
        if k == 'mcall':
            return self.mcall(e, c, pre, want)
        if k == 'struct':
            p = e[1]
            if p[0] == 'Expr' and len(p) == 2:
                return self.mk_expr(p[1], 'struct', e[2], c, pre, line)
            if p[0] == 'Assertion' and len(p) == 2 and p[1] in ASSERTIONS:
                v = self.ex(e[2][0][1], c, pre)
                return ('%s %s' % (ASSERTIONS[p[1]], self.arg(v)), 'Assertion', False)
            if p == ['ExprTree']:
                g = {f: v for f, v, _ in e[2]}
                if list(g) != [f for f, _ in TREE_FIELDS]:
                    bad('`ExprTree { .. }` fields', line)
                a, b, d = (self.ex(g[f], c, pre) for f, _ in TREE_FIELDS)
                return ('{ expr := %s, backrefs := %s, namedGroups := %s }' % (a[0], b[0], d[0]), 'Tree', True)
            if p == ['Parser']:
                g = {f: v for f, v, _ in e[2]}
                if set(g) != {f for f, _ in PARSER_FIELDS}:
                    bad('`Parser { .. }` fields', line)
                parts = []
                for f, v, _ in e[2]:
                    if f == 're':
                        continue
                    v = strip_ref(v)
                    if v[0] == 'call' and v[1] == ['Default', 'default']:
                        t = '[]'
                    elif f == 'flags':
                        if not (v[0] == 'path' and v[1][0] in FLAGS):
                            bad('initial flags that are not one `FLAG_*` constant', line)
                        t = '(flagOnly %s)' % FLAGS[v[1][0]]
                    else:
                        t = self.arg(self.ex(v, c, pre))
                    parts.append('%s := %s' % (STATE[f][0], t))
                return ('{ ' + ', '.join(parts) + ' }', 'PState', True)
            bad('struct literal `%s`' % '::'.join(p), line)
        if k == 'matches':
            s = self.ex(e[1], c, pre)
            if s[1] != 'u8':
                bad('`matches!` on a value of type %s' % (s[1],), line)
            alts = []
            for p in e[2]:
                if p[0] != 'pbyte':
                    bad('`matches!` pattern that is not a byte literal', line)
                alts.append('(%s == %s)' % (self.arg(s), chb(p[1])))
            return (alts[0] if len(alts) == 1 else '(' + ' || '.join(alts) + ')', 'bool', True)
        if k == 'macro':
            if e[1] == 'format' and len(e[2]) == 2 and e[2][0][0] == 'str':
                fmt = e[2][0][1]
                if not fmt.endswith('{}"') or '{' in fmt[:-3]:
                    bad('`format!` other than a literal prefix followed by `{}`', line)
                a = self.ex(e[2][1], c, pre)
                if a[1] != 'bytes':
                    bad('`format!` argument of type %s' % (a[1],), line)
                return ('(%s ++ %s)' % (self.bytes_lit(fmt[:-3] + '"', False), self.arg(a)), 'bytes', True)
            if e[1] == 'vec':
                rs = [self.ex(x, c, pre) for x in e[2]]
                return ('[' + ', '.join(r[0] for r in rs) + ']', ('vec', rs[0][1]), True)
            bad('macro `%s!` in expression position' % e[1], line)
        if k == 'cast':
            r = self.ex(e[1], c, pre)
            src, dst = r[1], e[2]
            wide = {'u8': 8, 'u32': 32, 'usize': 64}
            if src in wide and dst in wide:
                if wide[src] <= wide[dst]:          # widening: the identity
                    return (r[0], dst, r[2])
                return ('(%s %s)' % ({'u8': 'asU8', 'u32': 'asU32'}[dst], self.arg(r)), dst, True)
            if src == 'u8' and dst == 'char':
                return ('(u8AsChar %s)' % self.arg(r), 'char', True)
            if src == 'char' and dst in ('u32', 'usize'):
                return ('%s.toNat' % self.arg(r), dst, True)
            bad('cast of a %s `as %s`' % (src, dst), line)
        if k == 'closure':
            name, r = self.closure1(e, c, 'usize', pre)
            if r[1] != 'Expr':
                bad('closure that is not `|group| Expr::V(group)`', line)
            return ('(fun %s => %s)' % (name, self.arg(r)), 'fn', True)
        if k == 'if':
            if e[1] is None and e[4] is not None and not e[3][0] and not e[4][0]:
                n0 = len(pre)
                cd = self.ex(e[2], c, pre)
                a, b = self.ex(e[3][1], c, pre), self.ex(e[4][1], c, pre)
                if len(pre) != n0 or cd[1] != 'bool' or a[1] != b[1]:
                    bad('`if` expression that is not total / well typed', line)
                return ('(if %s then %s else %s)' % (cd[0], a[0], b[0]), a[1], True)
            return self.value_join(e, c, pre)
        if k == 'match':
            return self.value_join(e, c, pre)
        bad('expression `%s`' % k, line)

    def value_join(self, e, c, pre):
        """an `if` / `match` used for its value inside an expression: bound first"""
        self.valtypes = None
        cc = c.child()
        cc.erronly = True
        body = self.tailx(e, cc, ('join', [], ['$v']))
        c.tmp = cc.tmp
        if not self.valtypes:
            bad('cannot determine the type of this `%s`' % e[0], e[-1])
        vt = self.valtypes[0]
        t = c.fresh()
        i0 = 0
        while i0 < len(body) and not body[i0].startswith(('if ', 'match ')):
            i0 += 1
        if i0 == len(body):
            i0 = 0
        pre.extend(body[:i0])
        body = body[i0:]
        body[0] = 'let %s ← (%s' % (t, body[0])
        body[-1] += ' : Res %s)' % (lty(vt) if ' ' not in lty(vt) else '(' + lty(vt) + ')')
        pre.append('\n'.join([body[0]] + ['  ' + x for l in body[1:] for x in l.split('\n')]))
        return (t, vt, True)

    def binop(self, e, c, pre):
        op, line = e[1], e[-1]
        if op == '!=' and strip_ref(e[3])[0] == 'int' and strip_ref(e[3])[1] == 0:
            l0 = strip_ref(e[2])
            if l0[0] == 'bin' and l0[1] == '&':
                a, b = self.ex(l0[2], c, pre), self.ex(l0[3], c, pre)
                if a[1] == 'Flags' and b[1] == 'FlagBit':
                    return ('(flagGet %s %s)' % (self.arg(a), self.arg(b)), 'bool', True)
                bad('`(x & y) != 0` other than on the flag word', line)
        if op in ('&&', '||'):
            l = self.ex(e[2], c, pre)
            # `a && iter.next_if(p).is_some()`: the one operand with an effect (on `iter`)
            r0 = strip_ref(e[3])
            if op == '&&' and r0[0] == 'mcall' and r0[2] == 'is_some' and strip_ref(r0[1])[0] == 'mcall' and strip_ref(r0[1])[2] == 'next_if':
                it = strip_ref(strip_ref(r0[1])[1])
                if not (it[0] == 'path' and c.vars.get(it[1][0]) == 'CharIter'):
                    bad('`next_if` on something that is not the character iterator', line)
                name, body = self.closure1(strip_ref(r0[1])[3][0], c, 'char', pre)
                t, itn = c.fresh(), lid(it[1][0])
                pre.append('let (%s, %s) := (if %s then %s.nextIf (fun %s => %s) else (false, %s))' % (t, itn, l[0], itn, name, body[0], itn))
                return (t, 'bool', True)
            sub = []
            r = self.ex(e[3], c, sub)
            if l[1] != 'bool' or r[1] != 'bool':
                bad('`%s` on non-boolean operands' % op, line)
            if sub:     # the right operand can panic: evaluate it only when Rust does
                t = c.fresh()
                inner = ['    ' + x for x in sub] + ['    pure %s' % r[0]]
                if op == '&&':
                    pre.append('let %s ← (if %s then do\n%s\n  else\n    pure false : Res Bool)' % (t, l[0], '\n'.join(inner)))
                else:
                    pre.append('let %s ← (if %s then\n    pure true\n  else do\n%s : Res Bool)' % (t, l[0], '\n'.join(inner)))
                return (t, 'bool', True)
            return ('(%s %s %s)' % (self.arg(l), op, self.arg(r)), 'bool', True)
        l = self.ex(e[2], c, pre)
        r = self.ex(e[3], c, pre, want='int' if l[1] in ('int', 'isize') else None)
        num = ('usize', 'u8', 'int', 'isize', 'u32')
        if op in ('+', '*', '/'):
            if l[1] not in num or (r[1] != l[1] and not (l[1] in ('int', 'isize') and r[1] in ('int', 'usize'))):
                bad('`%s` on operands of type %s / %s' % (op, l[1], r[1]), line)
            return ('(%s %s %s)' % (self.arg(l), op, self.arg(r)), l[1], True)
        if op == '-':
            if l[1] in ('int', 'isize'):
                return ('(%s - %s)' % (self.arg(l), self.arg(r)), l[1], True)
            if l[1] != 'usize' or r[1] != 'usize':
                bad('`-` on operands of type %s / %s' % (l[1], r[1]), line)
            t = c.fresh()
            pre.append('let %s ← checkedSub %s %s %s' % (t, self.arg(l), self.arg(r), self.site(c, self.src_text(e), line)))
            return (t, 'usize', True)
        if op == '|':
            if l[1] == 'u8' and r[1] in ('usize', 'u8'):
                return ('(%s ||| %s)' % (self.arg(l), self.arg(r)), 'u8', True)
            if l[1] == 'bool' and r[1] == 'bool':
                return ('(%s || %s)' % (self.arg(l), self.arg(r)), 'bool', True)
            bad('`|` on operands of type %s / %s' % (l[1], r[1]), line)
        if op in ('==', '!='):
            if isinstance(l[1], tuple) and l[1][0] == 'opt' and isinstance(r[1], tuple) and r[1][0] == 'opt':
                return ('(%s %s %s)' % (self.arg(l), op, self.arg(r)), 'bool', True)
            if l[1] == 'Expr' and r[0] == 'Expr.empty':
                return ('(isEmptyExpr %s)' % self.arg(l) if op == '==' else '(!(isEmptyExpr %s))' % self.arg(l), 'bool', True)
            if not (l[1] == r[1] or {l[1], r[1]} <= {'u8', 'usize'} or {l[1], r[1]} <= {'int', 'usize'}) or l[1] not in num + ('bool', 'char'):
                bad('`%s` on operands of type %s / %s' % (op, l[1], r[1]), line)
            return ('(%s %s %s)' % (self.arg(l), op, self.arg(r)), 'bool', True)
        if op in ('<', '<=', '>', '>='):
            if l[1] not in num or not (l[1] == r[1] or {l[1], r[1]} <= {'u8', 'usize'}):
                bad('`%s` on operands of type %s / %s' % (op, l[1], r[1]), line)
            return ('(decide (%s %s %s))' % (self.arg(l), {'<': '<', '<=': '≤', '>': '>', '>=': '≥'}[op], self.arg(r)), 'bool', True)
        bad('operator `%s`' % op, line)

    def index(self, e, c, pre, want):
        base, idx, line = strip_ref(e[1]), e[2], e[-1]
        text = self.src_text(e)
        sv = self.is_strvar(base, c)
        raw = base[0] == 'path' and base[1][0] in c.lets or (base[0] == 'mcall' and base[2] == 'as_bytes')   # a `&[u8]` view
        if idx[0] != 'slice':
            i = self.ex(idx, c, pre)
            if i[1] != 'usize':
                bad('index of type %s' % (i[1],), line)
            name = want[1:] if isinstance(want, str) and want.startswith('$') else c.fresh()
            if self.is_re(base, c):
                pre.append('let %s ← byteAt re %s %s' % (lid(name), self.arg(i), self.site(c, text, line)))
            elif sv and raw:
                pre.append('let %s ← %s.byteAt %s %s' % (lid(name), sv, self.arg(i), self.site(c, text, line)))
            else:
                bad('indexing `%s`' % text, line)
            return (lid(name), 'u8', True)
        lo = self.ex(idx[1], c, pre) if idx[1] is not None else None
        hi = self.ex(idx[2], c, pre) if idx[2] is not None else None
        if any(x is not None and x[1] != 'usize' for x in (lo, hi)) or lo is None:
            bad('slice bounds of `%s`' % text, line)
        if self.is_re(base, c):
            if raw:         # bytes[a..] / bytes[a..b] on the `&[u8]` view: no boundary condition
                if hi is None:
                    pre.append('bytesFrom re %s %s' % (self.arg(lo), self.site(c, text, line)))
                    return (self.arg(lo), 'RawSuffix', True)
                t = c.fresh()
                pre.append('let %s ← bytesRange re %s %s %s' % (t, self.arg(lo), self.arg(hi), self.site(c, text, line)))
                return (t, 'bytes', True)
            if hi is None:
                if want == 'arg':
                    t = c.fresh()
                    pre.append('let %s ← strFrom re %s %s' % (t, self.arg(lo), self.site(c, text, line)))
                    return (t, 'Str', True)
                pre.append('sliceFrom re %s %s' % (self.arg(lo), self.site(c, text, line)))
                return (self.arg(lo), 'ReSuffix', True)
            t = c.fresh()
            pre.append('let %s ← slice re %s %s %s' % (t, self.arg(lo), self.arg(hi), self.site(c, text, line)))
            return (t, 'bytes', True)
        if sv:
            t = c.fresh()
            if hi is None:
                if want == 'chars':
                    return ((sv, self.arg(lo), self.site(c, text, line)), 'StrSuffixLazy', True)
                pre.append('let %s ← %s.suffix %s %s' % (t, sv, self.arg(lo), self.site(c, text, line)))
                return (t, 'Str', True)
            pre.append('let %s ← %s.slice %s %s %s' % (t, sv, self.arg(lo), self.arg(hi), self.site(c, text, line)))
            return (t, 'bytes', True)
        bad('slicing `%s`' % text, line)

    def mk_expr(self, v, shape, fields, c, pre, line):
        if v not in EXPR_VARIANTS:
            bad('unknown `Expr::%s`' % v, line)
        _, vshape, vfields, templ = EXPR_VARIANTS[v]
        if vshape != shape:
            bad('`Expr::%s` used as a %s variant' % (v, shape), line)
        ctor = 'Expr' + templ.split()[0]
        if shape == 'unit':
            return (ctor, 'Expr', True)
        vals = {}
        if shape == 'tuple':
            if len(fields) != len(vfields):
                bad('`Expr::%s` with %d arguments' % (v, len(fields)), line)
            for i, a in enumerate(fields):
                vals[str(i)] = (self.ex(a, c, pre), vfields[i])
        else:
            g = {f: x for f, x, _ in fields}
            if set(g) != {f for f, _ in vfields}:
                bad('`Expr::%s { .. }` does not give every field exactly once' % v, line)
            for f, ty in vfields:
                vals[f] = (self.ex(g[f], c, pre), ty)
        args = []
        for slot in templ.split()[1:]:
            m = re.fullmatch(r'\{(\w+)\}', slot)
            if not m:
                args.append('0')            # the model's group number: the parser assigns none
                continue
            r, ty = vals[m.group(1)]
            want = {'bool': 'bool', 'usize': 'usize', 'String': 'str', 'Box<Expr>': 'Expr', 'Vec<Expr>': ('vec', 'Expr'),
                    'Assertion': 'Assertion', 'LookAround': 'Look'}[ty]
            a = self.arg(r)
            if want == 'str':
                if r[1] == 'bytes':
                    a = '(decodeList %s)' % a
                elif r[1] != 'chars':
                    bad('`Expr::%s`: field %s gets a value of type %s' % (v, m.group(1), r[1]), line)
            elif r[1] != want:
                bad('`Expr::%s`: field %s gets a value of type %s' % (v, m.group(1), r[1]), line)
            if (v, m.group(1)) in ra.FIELD_ADAPTORS:
                a = '(hiOf %s)' % a
            args.append(a)
        return (ctor + ''.join(' ' + a for a in args), 'Expr', False)

    def call(self, e, c, pre, want):
        p, args, line = e[1], e[2], e[-1]
        if p == ['Some'] and len(args) == 1:
            r = self.ex(args[0], c, pre)
            return ('some %s' % self.arg(r), ('opt', r[1]), False)
        if p in (['String', 'new'], ['String', 'with_capacity']):
            return ('([] : List Char)', 'chars', True)
        if p == ['Vec', 'new'] and not args:
            return ('([] : List Expr)', ('vec', 'Expr'), True)
        if p == ['String', 'from'] and len(args) == 1:
            r = self.ex(args[0], c, pre)
            if r[1] != 'bytes':
                bad('`String::from` of a %s' % (r[1],), line)
            return r
        if p == ['Box', 'new'] and len(args) == 1:
            return self.ex(args[0], c, pre)
        if p[0] == 'Expr' and len(p) == 2:
            return self.mk_expr(p[1], 'tuple', args, c, pre, line)
        if p == ['codepoint_len'] and len(args) == 1:
            r = self.ex(args[0], c, pre)
            if r[1] != 'u8':
                bad('`codepoint_len` of a %s' % (r[1],), line)
            return ('(codepointLen %s)' % self.arg(r), 'usize', True)
        if p == ['char', 'from_u32'] and len(args) == 1:
            r = self.ex(args[0], c, pre)
            return ('charFromU32 %s' % self.arg(r), ('opt', 'char'), False)
        if p in (['u32', 'from_str_radix'], ['usize', 'from_str_radix']) and len(args) == 2 and args[1][0] == 'int':
            r = self.ex(args[0], c, pre)
            if r[1] != 'bytes' or (p[0], args[1][1]) not in (('u32', 16), ('usize', 10)):
                bad('`%s::from_str_radix` arguments' % p[0], line)
            return ('%s %s' % ('parseHexU32' if p[0] == 'u32' else 'fromStrRadix10', self.arg(r)), ('result', ('opt', 'u32' if p[0] == 'u32' else 'usize')), False)
        if len(p) == 1 and c.vars.get(p[0]) == 'fn' and len(args) == 1:
            r = self.ex(args[0], c, pre)
            return ('(%s %s)' % (lid(p[0]), self.arg(r)), 'Expr', True)
        if self.user_call(e, c):
            return self.bound_call(e, c, pre)
        bad('call of `%s`' % '::'.join(p), line)

    def fcall(self, name, recv, args, c, pre, line):
        """call of a translated function -> (text, type); a fallible callee is bound (`←`) by the caller through `pre`"""
        f = self.funcs[name]
        if len(args) != len(f.params):
            bad('call of `%s` with %d arguments' % (name, len(args)), line)
        texts = []
        if name in self.alnum:
            texts.append('isAlnum')
        if name in self.descent:
            texts.append(c.__dict__.get('fuel') or bad('call of the recursive descent from outside', line))
        if f.selfkind is not None:
            sv = c.sv if recv is None else recv
            texts += ['re', sv]
        for a, (pn, pt, _) in zip(args, f.params):
            ty = self.ptype(name, pn, pt)
            if ty == 'Str':
                a0 = strip_ref(a)
                if self.is_re(a0, c):
                    texts.append('⟨re, 0⟩')
                    continue
                r = self.ex(a0, c, pre, want='arg')
            else:
                r = self.ex(strip_ref(a), c, pre, want='pat' if ty == 'bytes' else None)
            if r[1] != ty and not (ty == 'u8' and r[1] == 'usize'):
                bad('argument `%s` of `%s` gets a value of type %s' % (pn, name, r[1]), line)
            texts.append(self.arg(r))
        rt = self.rtype(name)
        return ('%s%s' % ('Parser.new' if name == 'new' else name, ''.join(' ' + t for t in texts)), rt, False)

    def ptype(self, fname, pn, pt):
        p = pt.replace(' ', '')
        if p in ('usize', 'bool', 'char', 'u8', 'u32'):
            return {'u32': 'FlagBit'}.get(p, p)
        if p == '&str' and self.funcs[fname].owner and self.funcs[fname].selfkind is None:
            return 'Bytes'          # the pattern itself
        if p in ("&str", "&'astr", "&'_str"):
            return 'Str' if (fname, pn) in STR_PARAMS else 'bytes'
        if p == '&Expr':
            return 'Expr'
        if p == 'F':
            return 'fn'
        bad('%s: parameter type `%s`' % (fname, pt), self.funcs[fname].line)

    def rtype(self, fname):
        """(value type tag, fallible, returns state)"""
        f = self.funcs[fname]
        r = f.ret.replace(' ', '')
        res = r.startswith('Result<')
        inner = r[len('Result<'):-1] if res else r
        tab = {'()': None, 'bool': 'bool', 'Expr': 'Expr', 'usize': 'usize', '(usize,Expr)': ('tuple', ['usize', 'Expr']),
               '(usize,usize,usize)': ('tuple', ['usize', 'usize', 'usize']), 'Option<(usize,usize)>': ('opt', ('tuple', ['usize', 'usize'])),
               "Option<(&'astr,usize)>": ('opt', ('tuple', ['bytes', 'usize'])), 'ExprTree': 'Tree', "Parser<'_>": 'PState',
               'Error': ('tuple', ['PErr', 'usize'])}
        if inner not in tab:
            bad('%s: return type `%s`' % (fname, f.ret), f.line)
        return (tab[inner], res or self.fallible.get(fname, False), f.selfkind == 'mut')

    def user_call(self, e, c):
        """is e (after `?`) a call of a translated function? -> (name, recv state var or None, args) or None"""
        e = strip_ref(e)
        if e[0] == 'try':
            e = strip_ref(e[1])
        if e[0] == 'mcall' and e[2] in self.funcs and self.funcs[e[2]].selfkind is not None:
            r = strip_ref(e[1])
            if is_path(r, 'self'):
                return (e[2], None, e[3])
            if r[0] == 'path' and c.vars.get(r[1][0]) == 'PState':
                return (e[2], lid(r[1][0]), e[3])
        if e[0] == 'call' and len(e[1]) == 1 and e[1][0] in self.funcs and self.funcs[e[1][0]].selfkind is None and c.vars.get(e[1][0]) != 'fn':
            return (e[1][0], None, e[2])
        if e[0] == 'call' and len(e[1]) == 2 and e[1][0] in ('Self', 'Parser') and e[1][1] in self.funcs:
            return (e[1][1], None, e[2])
        return None

    def bound_call(self, e, c, pre, names=None):
        """translate a call of a translated function; fallible / state-returning calls are bound through `pre`.
        names: binder names for the value components (a list for a tuple value, one name otherwise)"""
        line = e[-1]
        istry = strip_ref(e)[0] == 'try'
        name, recv, args = self.user_call(e, c)
        text, (vt, fallible, state), _ = self.fcall(name, recv, args, c, pre, line)
        f = self.funcs[name]
        if istry != f.ret.replace(' ', '').startswith('Result<'):
            bad('`?` does not fit the callee `%s`' % name, line)
        sv = recv or c.sv
        if state and not fallible:          # update_flag
            if vt is not None:
                bad('state-changing infallible function with a value', line)
            pre.append('let %s := %s' % (sv, text))
            return ('()', None, True)
        if not fallible:
            return ('(%s)' % text, vt, True)
        comps = vt[1] if isinstance(vt, tuple) and vt[0] == 'tuple' else ([vt] if vt is not None else [])
        if names is None or len(names) != len(comps):
            names = [c.fresh() for _ in comps]
        binders = [lid(n) if n else '_' for n in names] + ([sv] if state else [])
        if not binders:
            pre.append(text)
            return ('()', None, True)
        pre.append('let %s ← %s' % (binders[0] if len(binders) == 1 else '(' + ', '.join(binders) + ')', text))
        vals = binders[:len(comps)]
        if isinstance(vt, tuple) and vt[0] == 'tuple':
            return ('(' + ', '.join(vals) + ')', vt, True)
        return (vals[0] if vals else '()', vt, True)

    def mcall(self, e, c, pre, want):
        recv, name, args, line = strip_ref(e[1]), e[2], e[3], e[-1]
        if self.user_call(e, c):
            return self.bound_call(e, c, pre)
        if name == 'clone' and not args or name in ('to_string', 'copied', 'peekable') and not args:
            return self.ex(recv, c, pre, want)
        if name == 'as_bytes' and not args and (self.is_re(recv, c) or self.is_strvar(recv, c)):
            return ('re', 'Bytes', True) if self.is_re(recv, c) else (self.is_strvar(recv, c), 'Str', True)
        if name == 'len' and not args and self.is_re(recv, c):
            return ('re.size', 'usize', True)
        # bytes.get(i)
        if name == 'get' and len(args) == 1 and self.is_re(recv, c):
            i = self.ex(args[0], c, pre)
            return ('re[%s]?' % self.arg(i), ('opt', 'u8'), True)
        # suffix views
        if name == 'starts_with' and len(args) == 1:
            a0 = strip_ref(args[0])
            r = self.ex(recv, c, pre)
            if r[1] in ('ReSuffix', 'RawSuffix'):
                if a0[0] == 'char':
                    lit = '[%s]' % chb(ord(eval(a0[1])))
                elif a0[0] == 'str':
                    lit = self.bytes_lit(a0[1], True)
                else:
                    bad('`starts_with` argument', line)
                return ('(startsWithAt re %s %s)' % (r[0], lit), 'bool', True)
            if r[1] == 'Str':
                a = self.ex(a0, c, pre, want='pat')
                if a[1] != 'bytes':
                    bad('`starts_with` argument of type %s' % (a[1],), line)
                return ('(%s.startsWith %s)' % (r[0], self.arg(a)), 'bool', True)
            if r[1] == 'bytes' and a0[0] == 'path' and a0[1][0] in self.funcs:
                self.alnum_use(c)
                return ('(startsWithPred %s (fun t0 => %s %st0))' % (r[0], a0[1][0], 'isAlnum ' if a0[1][0] in self.alnum else ''), 'bool', True)
            bad('`starts_with` on a value of type %s' % (r[1],), line)
        # iterator chains over raw bytes
        if name == 'position' and recv[0] == 'mcall' and recv[2] == 'iter':
            r = self.ex(recv[1], c, pre)
            pn, body = self.closure1(args[0], c, 'u8', pre)
            m = re.fullmatch(r'\((\w+) == (.*)\)', body[0])
            if r[1] != 'RawSuffix' or not m or m.group(1) != pn:
                bad('`.iter().position(..)` other than `bytes[a..].iter().position(|&c| c == x)`', line)
            return ('(bytesPosition re %s (%s))' % (r[0], m.group(2)), ('opt', 'usize'), True)
        if name == 'all' and recv[0] == 'mcall' and recv[2] == 'iter':
            r = self.ex(recv[1], c, pre)
            pn, body = self.closure1(args[0], c, 'u8', pre)
            if r[1] != 'bytes' or body[1] != 'bool':
                bad('`.iter().all(..)` on a value of type %s' % (r[1],), line)
            return ('(%s.all (fun %s => %s))' % (r[0], pn, body[0]), 'bool', True)
        if name == 'char_indices' and not args and recv[0] == 'index':
            r = self.index(recv, c, pre, 'chars')
            if r[1] != 'StrSuffixLazy':
                bad('`char_indices` on something that is not `s[a..]`', line)
            t = c.fresh()
            pre.append('let %s ← %s.charIndices %s %s' % (t, r[0][0], r[0][1], r[0][2]))
            return (t, 'CharIter', True)
        r = self.ex(recv, c, pre)
        ty = r[1]
        if ty == 'CharIter' and name == 'find' and len(args) == 1:
            pn, body = self.closure1(args[0], c, 'char', pre)
            t = c.fresh()
            pre.append('let %s ← %s.findIdx (fun %s => %s)' % (t, r[0], pn, body[0]))
            return (t, 'FindRes', True)
        if ty == 'FindRes' and name == 'map' and len(args) == 1:
            cl = strip_ref(args[0])
            if cl[0] == 'closure' and cl[1][0][0] == 'ptuple' and cl[1][0][1][0][0] == 'bind' and is_path(cl[2], cl[1][0][1][0][1]):
                return (r[0], ('opt', 'usize'), True)
            bad('`.map(..)` on the result of `find` other than `|(i, _)| i`', line)
        if ty == 'Str' and name == 'len' and not args:
            return ('%s.len' % r[0], 'usize', True)
        if ty in ('bytes', 'chars') and name == 'len' and not args or isinstance(ty, tuple) and ty[0] == 'vec' and name == 'len':
            return ('%s.length' % self.arg(r), 'usize', True)
        if (ty == 'bytes' or ty == 'Named') and name == 'is_empty' and not args:
            return ('%s.isEmpty' % self.arg(r), 'bool', True)
        if ty == 'chars' and name == 'count' and recv[0] == 'mcall' and recv[2] == 'chars':
            return ('(charsCount %s)' % self.arg(r), 'usize', True)
        if ty == 'chars' and name == 'chars' and not args:
            return r
        if ty == 'u8' and name == 'is_ascii_alphabetic':
            return ('(isAsciiAlphabetic %s)' % self.arg(r), 'bool', True)
        if ty == 'char' and name == 'is_ascii_digit':
            return ('(isAsciiDigitChar %s)' % self.arg(r), 'bool', True)
        ASCII = {'is_ascii_alphabetic': 'isAsciiAlphabetic', 'is_ascii_digit': 'isDigit', 'is_ascii_alphanumeric': 'isAsciiAlphanumeric',
                 'is_ascii': 'isAscii', 'is_ascii_uppercase': 'isAsciiUppercase', 'is_ascii_lowercase': 'isAsciiLowercase',
                 'is_ascii_hexdigit': 'isHexDigit'}
        if ty in ('u8', 'char') and name in ASCII and not args:     # exact std definitions on the byte / scalar value
            return ('(%s %s)' % (ASCII[name], self.arg(r) if ty == 'u8' else '%s.toNat' % self.arg(r)), 'bool', True)
        if ty == 'usize' and name in ('min', 'max') and len(args) == 1:
            a = self.ex(args[0], c, pre)
            if a[1] != 'usize':
                bad('`%s` argument' % name, line)
            return ('(%s %s %s)' % (name, self.arg(r), self.arg(a)), 'usize', True)
        if ty == 'usize' and name in ('saturating_sub', 'checked_sub', 'checked_add') and len(args) == 1:
            a = self.ex(args[0], c, pre)
            if a[1] != 'usize':
                bad('`%s` argument' % name, line)
            f = {'saturating_sub': ('saturatingSub', 'usize'), 'checked_sub': ('checkedSubUsize', ('opt', 'usize')),
                 'checked_add': ('checkedAddUsize', ('opt', 'usize'))}[name]
            return ('(%s %s %s)' % (f[0], self.arg(r), self.arg(a)), f[1], True)
        if ty == 'char' and name == 'is_alphanumeric':
            self.alnum_use(c)
            return ('(isAlnum %s)' % self.arg(r), 'bool', True)
        if ty == 'Named' and name == 'get' and len(args) == 1:
            a = self.ex(args[0], c, pre)
            return ('(namedGet %s %s)' % (r[0], self.arg(a)), ('opt', 'usize'), True)
        if ty == 'bytes' and name == 'parse::<isize>' and not args:
            return ('(parseIsize %s)' % self.arg(r), ('result', ('opt', 'isize')), True)
        if isinstance(ty, tuple) and ty[0] == 'result' and name == 'ok' and not args:
            return (r[0], ty[1], r[2])
        if isinstance(ty, tuple) and ty[0] == 'result' and name == 'unwrap' and not args:
            t = want[1:] if isinstance(want, str) and want.startswith('$') else c.fresh()
            pre.append('let %s ← expect (%s) %s' % (lid(t), r[0], self.site(c, 'unwrap', line)))
            return (lid(t), ty[1][1], True)
        if isinstance(ty, tuple) and ty[0] == 'opt':
            if name in ('unwrap', 'expect'):
                t = want[1:] if isinstance(want, str) and want.startswith('$') else c.fresh()
                site = self.site(c, 'unwrap', line) if name == 'unwrap' else args[0][1]
                pre.append('let %s ← expect %s %s' % (lid(t), self.arg(r), site))
                return (lid(t), ty[1], True)
            if name == 'filter' and len(args) == 1:
                pn, body = self.closure1(args[0], c, ty[1], pre)
                return ('(%s.filter (fun %s => %s))' % (self.arg(r), pn, body[0]), ty, True)
            if name == 'map' and len(args) == 1:
                pn, body = self.closure1(args[0], c, ty[1], pre)
                return ('(%s.map (fun %s => %s))' % (self.arg(r), pn, body[0]), ('opt', body[1]), True)
            if name == 'is_some' and not args:
                return ('%s.isSome' % self.arg(r), 'bool', True)
        if ty == 'isize' and name == 'try_into' and not args:
            return ('(tryIntoUsize %s)' % self.arg(r), ('result', ('opt', 'usize')), True)
        if isinstance(ty, tuple) and ty[0] == 'result' and name == 'map_or_else' and len(args) == 2:
            a_ = strip_ref(args[0])
            if a_[0] != 'closure' or a_[1][0][0] != 'wild':
                bad('`map_or_else` whose first closure is not `|_| ..`', line)
            body = a_[2][1][1] if a_[2][0] == 'blockexpr' else a_[2]
            n0 = len(pre)
            d = self.ex(body, c, pre)
            pn, b = self.closure1(args[1], c, ty[1][1], pre)
            if len(pre) != n0:
                bad('`map_or_else` closure that can panic', line)
            return ('(match %s with\n          | none => %s\n          | some %s => %s)' % (r[0], d[0], pn, b[0]), b[1], True)
        if ty == 'usize' and name == 'checked_add_signed' and len(args) == 1:
            a = self.ex(args[0], c, pre)
            if a[1] not in ('isize', 'int'):
                bad('`checked_add_signed` argument', line)
            return ('(checkedAddSigned %s %s)' % (self.arg(r), self.arg(a)), ('opt', 'usize'), True)
        if isinstance(ty, tuple) and ty[0] == 'vec' and name == 'pop' and not args and r[2]:
            t = c.fresh()
            pre.append('let (%s, %s) := popLast %s' % (t, r[0], r[0]))
            return (t, ('opt', ty[1]), True)
        if isinstance(ty, tuple) and ty[0] == 'vec' and name == 'remove' and len(args) == 1 and args[0][0] == 'int' and args[0][1] == 0 and r[2]:
            t = want[1:] if isinstance(want, str) and want.startswith('$') else c.fresh()
            pre.append('let (%s, %s) ← remove0 %s %s' % (lid(t), r[0], r[0], self.site(c, 'remove', line)))
            return (lid(t), ty[1], True)
        bad('method `.%s()` on a value of type %s' % (name, ty), line)

    def alnum_use(self, c):
        self.alnum.add(c.fn.name)

    # ---------------------------------------------------------------- statements
    def ind(self, lines, n):
        out = []
        for l in lines:
            out += [' ' * n + x for x in l.split('\n')]
        return out

    def has_exit(self, node):
        """does the AST contain a `break`, or a `return` of something else than `Err(..)`?"""
        found = []

        def f(n):
            if n[0] in ('break', 'continue'):
                found.append(n)
            if n[0] == 'return' and not (n[1][0] == 'call' and n[1][1] == ['Err']):
                found.append(n)
            if n[0] == 'call' and n[1] == ['Err'] and False:
                pass
        walk(node, f)
        return bool(found)

    def assigned(self, node, c):
        names, local = [], set()

        def root(e):
            e = strip_ref(e)
            while e[0] == 'field':
                e = strip_ref(e[1])
            if e[0] == 'path' and len(e[1]) == 1:
                return 'self' if e[1][0] == 'self' else e[1][0]
            return None

        def add(x):
            if x == 'self':
                x = '@state'
            if x is not None and x not in names and (x == '@state' or (x in c.vars and x not in local)):
                names.append(x)

        def f(n):
            if n[0] == 'let':
                pass
            if n[0] == 'assign':
                add(root(n[1]))
            if n[0] == 'mcall':
                r = root(n[1])
                if n[2] in ('push', 'push_str', 'insert', 'pop', 'remove', 'next_if', 'find'):
                    add(r)
                if n[2] in self.funcs and self.funcs[n[2]].selfkind == 'mut' and r == 'self':
                    add('self')
                if n[2] in self.funcs and self.funcs[n[2]].selfkind == 'mut' and r and c.vars.get(r) == 'PState':
                    add(r)
            if n[0] == 'call' and n[1] == ['escape_into']:
                add(root(n[2][1]))
        walk(node, f)
        order = ['@state'] + list(c.vars)
        return sorted(names, key=lambda x: order.index(x) if x in order else 999)

    def vname(self, c, n):
        return c.sv if n == '@state' else lid(n)

    def vtype(self, c, n):
        return 'PState' if n == '@state' else c.vars[n]

    def tup(self, xs):
        return xs[0] if len(xs) == 1 else '(' + ', '.join(xs) + ')'

    def ret_ok(self, c, comps):
        comps = list(comps) + ([c.sv] if c.mutself else [])
        if len(comps) == 1:
            return '.ok %s' % (comps[0] if re.fullmatch(r"[\w.«»']+", comps[0]) or comps[0].startswith(('(', '{', '[')) else '(' + comps[0] + ')')
        return '.ok (' + ', '.join(comps) + ')'

    def fin_lines(self, fin, c, val):
        if fin[0] == 'ret':
            if val is None:
                if c.rets is None:
                    return [c.sv] if not c.fallible else [self.ret_ok(c, [])]
                bad('missing value at the end of `%s`' % c.fn.name, c.fn.line)
            comps = val[3] if len(val) > 3 else [self.arg(val) if not (isinstance(val[1], tuple) and val[1][0] == 'tuple') else val[0]]
            if isinstance(val[1], tuple) and val[1][0] == 'tuple' and len(val) <= 3 and c.mutself:
                bad('tuple value that is not written as a tuple', c.fn.line)
            if not c.fallible:
                return [val[0]]
            return [self.ret_ok(c, comps)]
        if fin[0] in ('join', 'rest'):
            pat = list(fin[2]) if len(fin) > 2 and fin[2] else []
            vals = []
            if pat:
                if val is None:
                    bad('branch without a value', c.fn.line)
                vals = val[3] if len(val) > 3 else [val[0]]
            elif val is not None:
                bad('branch with a value where none is expected', c.fn.line)
            vals = list(vals) + [self.vname(c, n) for n in fin[1]]
            if fin[0] == 'rest':
                return ['rest ' + ' '.join(v if re.fullmatch(r"[\w.«»']+", v) or v.startswith('(') else '(' + v + ')' for v in vals)]
            return ['pure ' + (vals[0] if len(vals) == 1 and re.fullmatch(r"[\w.«»'\[\]]+", vals[0]) else '(' + ', '.join(vals) + ')')]
        if fin[0] == 'loop':
            if val is not None:
                bad('loop body with a value', c.fn.line)
            return [fin[1](c)]
        bad('internal: fin')

    def tuple_val(self, e, c, pre):
        """value of a tail expression; a tuple literal keeps its components: (text, type, atom, components)"""
        e0 = strip_ref(e)
        if e0[0] == 'tuple':
            rs = [self.ex(x, c, pre) for x in e0[1]]
            comps = []
            for r in rs:
                comps.append(r[0] if r[2] and not r[0].startswith('ch ') else '(' + r[0] + ')')
            return ('(' + ', '.join(comps) + ')', ('tuple', [r[1] for r in rs]), True, comps)
        r = self.ex(e0, c, pre)
        return r

    def seq(self, stmts, tail, c, fin):
        if not stmts:
            return self.tailx(tail, c, fin) if tail is not None else self.fin_lines(fin, c, None)
        s, rest = stmts[0], stmts[1:]
        k = lambda: self.seq(rest, tail, c, fin)
        last = not rest and tail is None
        line = s[-1]
        kind = s[0]
        if kind == 'return':
            return self.tailx(s[1], c, ('ret',), returning=True)
        if kind == 'break':
            if fin[0] != 'loop' and not c.__dict__.get('brk'):
                bad('`break` outside a loop', line)
            return [c.brk(c)]
        if kind == 'continue':      # the next iteration: the loop function calls itself with the current values
            if not c.__dict__.get('cont'):
                bad('`continue` outside a loop', line)
            return [c.cont(c)]
        if kind == 'fn':
            self.nested.append(s[1])
            return k()
        if kind == 'letdecl':
            c.declare(s[1][1], {'Expr': 'Expr'}.get(s[2]) or bad('declaration `let x: %s;`' % s[2], line))
            return k()
        if kind == 'let':
            return self.let(s, c, k, rest, tail, fin)
        if kind == 'letelse':
            pat, e, eb = s[1], s[2], s[3]
            pre = []
            r = self.ex(e, c, pre)
            if not (pat[0] == 'ptuplev' and pat[1] == ['Some'] and pat[2][0][0] == 'bind' and isinstance(r[1], tuple) and r[1][0] == 'opt'):
                bad('`let … else` other than `let Some(x) = opt else { .. }`', line)
            els = self.seq(eb[0], eb[1], c.child(), fin)
            c.declare(pat[2][0][1], r[1][1])
            return pre + ['match %s with' % r[0], '| none =>'] + self.ind(els, 2) + ['| some %s => do' % lid(pat[2][0][1])] + self.ind(k(), 0)
        if kind == 'assign':
            return self.assign(s, c) + k()
        if kind == 'expr':
            e = s[1]
            if e[0] in ('if', 'match'):
                return self.branching(e, None, c, rest, tail, fin)
            lines = self.effect(e, c)
            if lines and lines[-1].startswith('@@GUARD '):
                g = lines.pop()[8:].split('\n')
                return lines + g + self.ind(k(), 2)
            return lines + k()
        if kind in ('if', 'match'):
            return self.branching(s, None, c, rest, tail, fin)
        if kind == 'while':
            return self.loop(s, c, rest, tail, fin)
        bad('statement `%s`' % kind, line)

    def rename_last(self, pre, r, name, c):
        """`let x = <expr hoisted as let tN ← op>` binds x directly"""
        if pre and re.fullmatch(r't\d+', r[0]) and pre[-1].startswith('let %s ← ' % r[0]):
            pre[-1] = 'let %s ← ' % lid(name) + pre[-1][len('let %s ← ' % r[0]):]
            return True
        return False

    def let(self, s, c, k, rest, tail, fin):
        pat, mut, ty, e, line = s[1], s[2], s[3], s[4], s[-1]
        e0 = strip_ref(e)
        if e0[0] in ('if', 'match'):
            return self.branching(e0, pat, c, rest, tail, fin)
        names = [pat[1]] if pat[0] == 'bind' else [(x[1] if x[0] == 'bind' else None) for x in pat[1]] if pat[0] == 'ptuple' else bad('`let` pattern', line)
        pre = []
        if pat[0] == 'bind' and e0[0] == 'mcall' and e0[2] == 'as_bytes' and self.is_re(e0[1], c):
            c.lets[pat[1]] = e0
            return k()
        if self.user_call(e0, c):
            r = self.bound_call(e, c, pre, names)
            comps = r[1][1] if isinstance(r[1], tuple) and r[1][0] == 'tuple' else [r[1]]
            direct = pre and pre[-1].startswith('let ') and '←' in pre[-1]
            for n, t in zip(names, comps):
                if n:
                    c.declare(n, t)
            if direct:
                return pre + k()
            return pre + ['let %s := %s' % (self.tup([lid(n) if n else '_' for n in names]), r[0])] + k()
        want = None
        if pat[0] == 'bind':
            want = '$' + pat[1]
        if mut and ty is None and e0[0] == 'int' and pat[0] == 'bind' and self.int_var(c, pat[1]):
            c.declare(pat[1], 'int')
            return ['let %s : Int := %d' % (lid(pat[1]), e0[1])] + k()
        r = self.ex(e, c, pre, want)
        rt = r[1]
        if isinstance(rt, tuple) and rt[0] == 'result':
            rt = rt[1]
        if pat[0] == 'ptuple':
            if not (isinstance(rt, tuple) and rt[0] == 'tuple' and len(rt[1]) == len(names)):
                bad('tuple `let` from a value of type %s' % (rt,), line)
            for n, t in zip(names, rt[1]):
                if n:
                    c.declare(n, t)
            return pre + ['let %s := %s' % (self.tup([lid(n) if n else '_' for n in names]), r[0])] + k()
        c.declare(pat[1], rt)
        if rt == 'PState':
            c.sv = lid(pat[1])
        if r[0] == lid(pat[1]) and pre:
            return pre + k()
        if self.rename_last(pre, r, pat[1], c):
            return pre + k()
        return pre + ['let %s := %s' % (lid(pat[1]), r[0])] + k()

    def int_var(self, c, name):
        found = []
        walk(c.fn.body, lambda n: found.append(n) if n[0] == 'assign' and n[2] == '-=' and is_path(n[1], name) else None)
        return bool(found)

    def assign(self, s, c):
        lhs, op, rhs, line = strip_ref(s[1]), s[2], s[3], s[-1]
        pre = []
        if lhs[0] == 'field' and is_path(strip_ref(lhs[1]), 'self'):
            f = lhs[2]
            if f == 'flags' and op in ('&=', '|='):
                r0 = strip_ref(rhs)
                neg = r0[0] == 'not'
                fl = self.ex(r0[1] if neg else r0, c, pre)
                if fl[1] != 'FlagBit' or neg != (op == '&='):
                    bad('flag update other than `self.flags |= F` / `self.flags &= !F`', line)
                return pre + ['let %s := { %s with flags := (flagSet %s.flags %s %s) }' % (c.sv, c.sv, c.sv, fl[0], 'false' if neg else 'true')]
            if f not in STATE:
                bad('assignment to `self.%s`' % f, line)
            r = self.ex(rhs, c, pre)
            cur = '%s.%s' % (c.sv, STATE[f][0])
            new = {'=': r[0], '+=': '(%s + %s)' % (cur, self.arg(r))}.get(op) or bad('`self.%s %s ..`' % (f, op), line)
            return pre + ['let %s := { %s with %s := %s }' % (c.sv, c.sv, STATE[f][0], new)]
        if lhs[0] == 'path' and len(lhs[1]) == 1 and lhs[1][0] in c.vars:
            x = lhs[1][0]
            t = c.vars[x]
            if op == '=' and self.user_call(rhs, c):
                r = self.bound_call(rhs, c, pre, [x])
                if pre and pre[-1].startswith('let ') and '←' in pre[-1]:
                    return pre
                return pre + ['let %s := %s' % (lid(x), r[0])]
            r = self.ex(rhs, c, pre, want='$' + x if op == '=' else ('int' if t == 'int' else None))
            if op == '=':
                if r[0] == lid(x) and pre:
                    return pre
                if self.rename_last(pre, r, x, c):
                    return pre
                return pre + ['let %s := %s' % (lid(x), r[0])]
            if op == '+=':
                return pre + ['let %s := (%s + %s)' % (lid(x), lid(x), self.arg(r))]
            if op == '-=' and t == 'int':
                return pre + ['let %s := (%s - %s)' % (lid(x), lid(x), self.arg(r))]
            if op == '^=' and t == 'bool':
                return pre + ['let %s := (%s ^^ %s)' % (lid(x), lid(x), self.arg(r))]
        bad('assignment `%s %s ..`' % (self.src_text(lhs), op), line)

    def effect(self, e, c):
        """an expression statement"""
        line = e[-1]
        pre = []
        e0 = strip_ref(e)
        if self.user_call(e0, c):
            self.bound_call(e0, c, pre, None)
            return pre
        if e0[0] == 'macro' and e0[1] in ('debug_assert', 'debug_assert_eq'):
            site = self.site(c, 'debug_assert', line)
            if e0[1] == 'debug_assert':
                a = strip_ref(e0[2][0])
                cond = self.ex(a[1], c, pre)[0] if a[0] == 'not' else '(!%s)' % self.arg(self.ex(a, c, pre))
            else:
                a, b = self.ex(e0[2][0], c, pre), self.ex(e0[2][1], c, pre)
                cond = '(%s != %s)' % (self.arg(a), self.arg(b))
            c.pending_guard = None
            return pre + ['@@GUARD if %s then\n  .panic %s\nelse do' % (cond, site)]
        if e0[0] == 'call' and e0[1] == ['escape_into'] and len(e0[2]) == 2:
            v = self.ex(e0[2][0], c, pre)
            d = strip_ref(e0[2][1])
            if v[1] != 'chars' or not (d[0] == 'path' and c.vars.get(d[1][0]) == 'chars'):
                bad('`escape_into` arguments', line)
            return pre + ['let %s := (%s ++ (escapeInto %s))' % (lid(d[1][0]), lid(d[1][0]), self.arg(v))]
        if e0[0] == 'mcall':
            recv, name, args = strip_ref(e0[1]), e0[2], e0[3]
            if recv[0] == 'field' and is_path(strip_ref(recv[1]), 'self') and name == 'insert':
                if recv[2] == 'backrefs' and len(args) == 1:
                    g = self.ex(args[0], c, pre)
                    return pre + ['let %s := { %s with backrefs := (bitsetInsert %s.backrefs %s) }' % (c.sv, c.sv, c.sv, self.arg(g))]
                if recv[2] == 'named_groups' and len(args) == 2:
                    a, b = self.ex(args[0], c, pre), self.ex(args[1], c, pre)
                    if a[1] != 'bytes':
                        bad('group name of type %s' % (a[1],), line)
                    return pre + ['let %s := { %s with namedGroups := (namedInsert %s.namedGroups %s %s) }' % (c.sv, c.sv, c.sv, self.arg(a), self.arg(b))]
            if recv[0] == 'path' and len(recv[1]) == 1 and recv[1][0] in c.vars and len(args) == 1:
                x, t = recv[1][0], c.vars[recv[1][0]]
                a = self.ex(args[0], c, pre)
                if name == 'push' and isinstance(t, tuple) and t[0] == 'vec' and a[1] == t[1]:
                    return pre + ['let %s := (%s ++ [%s])' % (lid(x), lid(x), a[0])]
                if name == 'push' and t == 'chars' and a[1] == 'char':
                    return pre + ['let %s := (%s ++ [%s])' % (lid(x), lid(x), a[0])]
                if name == 'push_str' and t == 'chars' and a[1] in ('chars', 'bytes'):
                    return pre + ['let %s := (%s ++ %s)' % (lid(x), lid(x), self.arg(a) if a[1] == 'chars' else '(decodeList %s)' % self.arg(a))]
        bad('expression statement `%s`' % self.src_text(e0), line)

    def ends_exit(self, blk):
        if blk[1] is None and blk[0] and blk[0][-1][0] in ('return', 'break', 'continue'):
            return True
        last = blk[1] if blk[1] is not None else (blk[0][-1] if blk[0] else None)
        if last is None:
            return False
        if last[0] == 'expr':
            last = last[1]
        if last[0] == 'if':
            return last[4] is not None and self.ends_exit(last[3]) and self.ends_exit(last[4])
        if last[0] == 'match':
            return all(self.ends_exit(a[2]) for a in last[2])
        return False

    def pat_names(self, pat):
        if pat is None:
            return []
        if pat[0] == 'bind':
            return [pat[1]]
        if pat[0] == 'ptuple':
            return [x[1] if x[0] == 'bind' else None for x in pat[1]]
        bad('`let` pattern', pat[-1])

    def branching(self, e, pat, c, rest, tail, fin):
        line = e[-1]
        if not rest and tail is None and pat is None:
            return self.tailx(e, c, fin)
        k = lambda: self.seq(rest, tail, c, fin)
        if e[0] == 'if' and e[1] is None and e[4] is None and pat is None and self.ends_exit(e[3]):
            pre = []
            cond = self.ex(e[2], c, pre)
            if cond[1] != 'bool':
                bad('condition of type %s' % (cond[1],), line)
            th = self.seq(e[3][0], e[3][1], c.child(), fin)
            return pre + ['if %s then' % cond[0]] + self.ind(th, 2) + ['else do'] + self.ind(k(), 2)
        if e[0] == 'if' and pat is None:
            chain, x = [], e
            while x is not None and x[0] == 'if' and x[1] is None and self.ends_exit(x[3]):
                chain.append(x)
                nxt = x[4]
                x = nxt[1] if nxt is not None and not nxt[0] and nxt[1] is not None and nxt[1][0] == 'if' else (None if nxt is None else 'stop')
            if x is None and len(chain) > 1:
                def go(i):
                    if i == len(chain):
                        return k()
                    pre = []
                    cond = self.ex(chain[i][2], c, pre)
                    th = self.seq(chain[i][3][0], chain[i][3][1], c.child(), fin)
                    return pre + ['if %s then%s' % (cond[0], ' do' if len(th) > 1 else '')] + self.ind(th, 2) + ['else do'] + self.ind(go(i + 1), 2)
                return go(0)
        names = self.assigned(e, c)
        pn = self.pat_names(pat)
        self.valtypes = None
        mode = 'rest' if self.has_exit(e) else 'join'
        cc = c.child()
        if mode == 'join':
            cc.erronly = True
        body = self.tailx(e, cc, (mode, names, pn))
        vt = self.valtypes or []
        if pn and len(vt) != len(pn):
            bad('cannot determine the type of the value of this `%s`' % e[0], line)
        for n, t in zip(pn, vt):
            if n:
                c.declare(n, t)
        binders = [lid(n) if n else '_' for n in pn] + [self.vname(c, n) for n in names]
        types = [lty(t) for t in vt] + [lty(self.vtype(c, n)) for n in names]
        if not binders:
            bad('`%s` statement without effect' % e[0], line)
        i0 = 0
        while i0 < len(body) and not body[i0].startswith(('if ', 'match ')):
            i0 += 1
        if i0 == len(body):
            i0 = 0
        lead, body = body[:i0], body[i0:]
        if mode == 'join':
            body[0] = 'let %s ← (%s' % (self.tup(binders), body[0])
            one = types[0] if ' ' not in types[0] else '(' + types[0] + ')'
            body[-1] += ' : Res %s)' % ('(' + ' × '.join(types) + ')' if len(types) > 1 else one)
            return lead + [body[0]] + self.ind(body[1:], 2) + k()
        params = ' '.join('(%s : %s)' % (b if b != '_' else 'x_', t) for b, t in zip(binders, types))
        restbody = k()
        return lead + ['let rest := fun %s => (do' % params] + self.ind(restbody, 2) + ['  : %s)' % c.restype] + body

    def err_lines(self, x, c, line):
        """`Err(x)`"""
        pre = []
        if x[0] == 'call' and x[1] == ['Error', 'ParseError'] and len(x[2]) == 2:
            pos = self.ex(x[2][0], c, pre)
            y = x[2][1]
            p = y[1] if y[0] in ('call', 'path') else None
            if p and p[0] == 'ParseError' and len(p) == 2:
                if p[1] == 'GeneralParseError' and y[0] == 'call':
                    m = strip_ref(y[2][0])
                    if m[0] == 'mcall' and m[2] == 'to_string':
                        m = strip_ref(m[1])
                    if m[0] == 'str' and m[1] in GENERAL_MESSAGES:
                        return pre + ['.err (.general %s) %s' % (GENERAL_MESSAGES[m[1]], self.arg(pos))]
                    bad('unknown `GeneralParseError` message', line)
                if p[1] in PARSE_ERRORS:
                    ctor, payload = PARSE_ERRORS[p[1]]
                    if payload is None and y[0] == 'path':
                        return pre + ['.err %s %s' % (ctor, self.arg(pos))]
                    if payload == 'bytes' and y[0] == 'call' and len(y[2]) == 1:
                        a = self.ex(y[2][0], c, pre)
                        if a[1] != 'bytes':
                            bad('error payload of type %s' % (a[1],), line)
                        return pre + ['.err (%s %s) %s' % (ctor, self.arg(a), self.arg(pos))]
        if x[0] == 'call' and x[1] == ['Error', 'CompileError'] and x[2][0][0] == 'path' and x[2][0][1] == ['CompileError', 'NamedBackrefOnly']:
            return ['.cerr']
        if self.user_call(x, c):
            r = self.bound_call(x, c, pre, None)
            if r[1] == ('tuple', ['PErr', 'usize']):
                a, b = r[0][1:-1].split(', ')
                return pre + ['.err %s %s' % (a, b)]
        bad('`Err(..)` of an unknown shape', line)

    def tailx(self, e, c, fin, returning=False):
        line = e[-1]
        e = strip_ref(e) if e[0] in ('paren',) else e
        if e[0] == 'call' and e[1] == ['Ok'] and len(e[2]) == 1:
            if fin[0] != 'ret' and not returning:
                bad('`Ok(..)` in a position that is not a return', line)
            if c.__dict__.get('erronly') and returning:
                bad('`return Ok(..)` inside a branch whose value is used', line)
            v = e[2][0]
            if v[0] == 'unit':
                return self.fin_lines(('ret',), c, None)
            if v[0] in ('if', 'match'):
                return self.tailx(v, c, ('ret',))
            pre = []
            if self.user_call(v, c):
                r = self.bound_call(v, c, pre, None)
                comps = r[0][1:-1].split(', ') if isinstance(r[1], tuple) and r[1][0] == 'tuple' else [r[0]]
                return pre + self.fin_lines(('ret',), c, (r[0], r[1], True, comps))
            r = self.tuple_val(v, c, pre)
            return pre + self.fin_lines(('ret',), c, r)
        if e[0] == 'call' and e[1] == ['Err'] and len(e[2]) == 1:
            return self.err_lines(e[2][0], c, line)
        if e[0] == 'unit':
            return self.fin_lines(fin, c, None)
        if e[0] == 'call' and e[1] == ['Error', 'ParseError'] and c.rets == ('tuple', ['PErr', 'usize']):
            ls = self.err_lines(e, c, line)
            m = re.fullmatch(r'\.err (\(.*\)|\S+) (\S+)', ls[-1])
            return ls[:-1] + ['.ok (%s, %s)' % (m.group(1), m.group(2))]
        if e[0] == 'if':
            return self.if_(e, c, fin, returning)
        if e[0] == 'match':
            return self.match_(e, c, fin, returning)
        if e[0] == 'blockexpr':
            return self.seq(e[1][0], e[1][1], c, fin)
        uc = self.user_call(e, c)
        if uc and (fin[0] == 'ret' or returning):
            if c.__dict__.get('erronly') and returning:
                bad('`return` of a call inside a branch whose value is used', line)
            name = uc[0]
            vt, fallible, state = self.rtype(name)
            pre = []
            if fallible and vt == c.rets and state == c.mutself and (strip_ref(e)[0] == 'try') == False:
                text = self.fcall(name, uc[1], uc[2], c, pre, line)[0]
                return pre + [text]
            isres = self.funcs[name].ret.replace(' ', '').startswith('Result<')
            r = self.bound_call(('try', e, line) if isres and strip_ref(e)[0] != 'try' else e, c, pre, None)
            if r[1] is None:
                return pre + self.fin_lines(('ret',), c, None)
            comps = r[0][1:-1].split(', ') if isinstance(r[1], tuple) and r[1][0] == 'tuple' else [r[0]]
            return pre + self.fin_lines(('ret',), c, (r[0], r[1], True, comps))
        if fin[0] == 'loop' or (fin[0] in ('join', 'rest') and not (len(fin) > 2 and fin[2])):
            return self.effect(e, c) + self.fin_lines(fin, c, None)
        pre = []
        if uc:
            pn = fin[2] if fin[0] in ('join', 'rest') and len(fin) > 2 else None
            r = self.bound_call(e, c, pre, None)
            comps = r[0][1:-1].split(', ') if isinstance(r[1], tuple) and r[1][0] == 'tuple' else [r[0]]
            val = (r[0], r[1], True, comps)
        else:
            val = self.tuple_val(e, c, pre)
        if fin[0] in ('join', 'rest') and len(fin) > 2 and fin[2]:
            vt = val[1][1] if isinstance(val[1], tuple) and val[1][0] == 'tuple' and len(fin[2]) > 1 else [val[1]]
            if isinstance(val[1], tuple) and val[1][0] == 'result':
                vt = [val[1][1]]
            vt = list(vt)
            if self.valtypes is None or any(isinstance(t, tuple) and t[0] == 'opt' and t[1] is None for t in self.valtypes):
                old = self.valtypes or vt
                self.valtypes = [o if not (isinstance(o, tuple) and o[0] == 'opt' and o[1] is None) else n for o, n in zip(old, vt)]
            if len(fin[2]) > 1 and len(val) <= 3:
                bad('tuple value that is not written as a tuple', line)
        return pre + self.fin_lines(fin, c, val)

    def if_(self, e, c, fin, returning):
        line = e[-1]
        if e[1] is not None:        # if let PAT = X { A } else { B }
            arms = [([e[1]], None, e[3], line)]
            arms.append(([('wild', line)], None, e[4] if e[4] is not None else ([], None), line))
            return self.match_(('match', e[2], arms, line), c, fin, returning)
        pre = []
        cond = self.ex(e[2], c, pre)
        if cond[1] != 'bool':
            bad('condition of type %s' % (cond[1],), line)
        th = self.seq(e[3][0], e[3][1], c.child(), fin)
        if e[4] is None:
            el = self.fin_lines(fin, c, None)
        elif not e[4][0] and e[4][1] is not None and e[4][1][0] == 'if' and e[4][1][1] is None:
            el = self.if_(e[4][1], c.child(), fin, returning)
            d0 = ' do' if len(th) > 1 and c.fallible else ''
            if el and el[0].startswith('if '):
                return pre + ['if %s then%s' % (cond[0], d0)] + self.ind(th, 2) + ['else ' + el[0]] + el[1:]
            return pre + ['if %s then%s' % (cond[0], d0)] + self.ind(th, 2) + ['else%s' % (' do' if c.fallible else '')] + self.ind(el, 2)
        else:
            el = self.seq(e[4][0], e[4][1], c.child(), fin)
        do_t = ' do' if len(th) > 1 and c.fallible else ''
        do_e = ' do' if len(el) > 1 and c.fallible else ''
        return pre + ['if %s then%s' % (cond[0], do_t)] + self.ind(th, 2) + ['else%s' % do_e] + self.ind(el, 2)

    def pat_text(self, p, ty, c):
        """Lean pattern for a Rust pattern matched against a value of type ty; declares the binders in c"""
        k = p[0]
        if k == 'wild':
            return '_'
        if k == 'bind':
            c.declare(p[1], ty)
            return lid(p[1])
        if k == 'plit' and ty == 'bool':
            return 'true' if p[1] else 'false'
        if k == 'pint' and ty in ('usize', 'int'):
            return str(p[1])
        if k == 'ptuple' and isinstance(ty, tuple) and ty[0] == 'tuple' and len(ty[1]) == len(p[1]):
            return '(' + ', '.join(self.pat_text(x, t, c) for x, t in zip(p[1], ty[1])) + ')'
        if k == 'ptuplev' and p[1] in (['Some'], ['Ok']) and len(p[2]) == 1 and isinstance(ty, tuple) and ty[0] == 'opt':
            return 'some ' + self.pat_text(p[2][0], ty[1], c)
        if k in ('ppath',) and p[1] == ['None']:
            return 'none'
        if k == 'bind' or k == 'ppath' and len(p[1]) == 1 and p[1][0] in LOOK and ty == 'Look':
            return '.' + LOOK[p[1][0]].split('.')[1]
        if k in ('ptuplev', 'pstructv', 'ppath') and p[1][0] == 'Expr' and ty == 'Expr':
            v, shape, fields, templ = EXPR_VARIANTS.get(p[1][1]) or bad('unknown `Expr::%s`' % p[1][1], p[-1])
            given = {}
            if k == 'ptuplev':
                for i, sub in enumerate(p[2]):
                    given[str(i)] = (sub, fields[i])
            elif k == 'pstructv':
                fd = dict(fields)
                for f, sub in p[2]:
                    given[f] = (sub, fd[f])
            out = [templ.split()[0]]
            for slot in templ.split()[1:]:
                m = re.fullmatch(r'\{(\w+)\}', slot)
                if not m or m.group(1) not in given:
                    out.append('_')
                    continue
                sub, fty = given[m.group(1)]
                t = {'bool': 'bool', 'usize': 'usize', 'String': 'chars', 'Box<Expr>': 'Expr', 'Vec<Expr>': ('vec', 'Expr'),
                     'Assertion': 'Assertion', 'LookAround': 'Look'}[fty]
                if (v, m.group(1)) in ra.FIELD_ADAPTORS and sub[0] == 'bind':
                    bad('binding `hi` of a repeat in a pattern', p[-1])
                out.append(self.pat_text(sub, t, c))
            return ' '.join(out)
        bad('pattern against a value of type %s' % (ty,), p[-1])

    def match_(self, e, c, fin, returning):
        scrut, arms, line = e[1], e[2], e[-1]
        s0 = strip_ref(scrut)
        pre = []
        uc = self.user_call(s0, c)
        if uc and arms and arms[0][0][0][0] == 'ptuplev' and arms[0][0][0][1] in (['Ok'], ['Err']):
            text, (vt, fallible, state), _ = self.fcall(uc[0], uc[1], uc[2], c, pre, line)
            if state or not fallible:
                bad('match on the result of `%s`' % uc[0], line)
            out = pre + ['match (%s) with' % text]
            errb = None
            for pats, guard, body, aline in arms:
                p = pats[0]
                cc = c.child()
                if p[1] == ['Ok']:
                    out.append('| .ok %s => do' % self.pat_text(p[2][0], vt, cc))
                    out += self.ind(self.seq(body[0], body[1], cc, fin), 2)
                elif p[1] == ['Err'] and p[2][0][0] == 'wild':
                    errb = self.seq(body[0], body[1], cc, fin)
                else:
                    bad('arm of a match on a `Result`', aline)
            if errb is None:
                bad('match on a `Result` without an `Err(_)` arm', line)
            return out + ['| .err _ _ =>'] + self.ind(errb, 2) + ['| .cerr =>'] + self.ind(errb, 2) + \
                ['| .panic site => .panic site', '| .outOfFuel => .outOfFuel']
        if s0[0] == 'tuple':
            rs = [self.ex(x, c, pre) for x in s0[1]]
        else:
            rs = [self.ex(s0, c, pre)]
        tys = [r[1][1] if isinstance(r[1], tuple) and r[1][0] == 'result' else r[1] for r in rs]
        if len(rs) == 1 and tys[0] in ('u8', 'usize'):
            return pre + self.chain(rs[0], tys[0], arms, c, fin)
        if len(rs) == 1 and isinstance(tys[0], tuple) and tys[0][0] == 'opt' and any(a[1] is not None for a in arms):
            return pre + self.opt_guarded(rs[0], tys[0], arms, c, fin)
        guards = [a[1] for a in arms if a[1] is not None]
        gcol = None
        if guards:
            g0 = strip_ref(guards[0])
            if not all(strip_ref(g) == g0 or self.src_text(strip_ref(g)) == self.src_text(g0) for g in guards) or g0[0] != 'path':
                bad('match guards that are not one boolean variable', line)
            gcol = self.ex(g0, c, pre)
        out = pre + ['match %s with' % ', '.join([r[0] for r in rs] + ([gcol[0]] if gcol else []))]
        for pats, guard, body, aline in arms:
            for p in pats:
                cc = c.child()
                ps = p[1] if len(rs) > 1 and p[0] == 'ptuple' else [p] if len(rs) == 1 else None
                if ps is None:
                    if p[0] == 'wild':
                        ps = [p] * len(rs)
                    else:
                        bad('arm pattern', aline)
                texts = [self.pat_text(x, t, cc) for x, t in zip(ps, tys)]
                if gcol:
                    texts.append('true' if guard is not None else '_')
                body_lines = self.seq(body[0], body[1], cc, fin)
                out.append('| %s =>%s' % (', '.join(texts), ' do' if len(body_lines) > 1 else ''))
                out += self.ind(body_lines, 2)
        return out

    def chain(self, r, ty, arms, c, fin):
        """match on a byte / small integer: an if-chain in the order of the arms"""
        out, depth = [], 0
        for pats, guard, body, aline in arms:
            p0 = pats[0]
            cc = c.child()
            if p0[0] in ('wild', 'bind'):
                if guard is not None or len(pats) != 1:
                    bad('guarded catch-all arm', aline)
                lines = []
                if p0[0] == 'bind':
                    cc.declare(p0[1], ty)
                    if lid(p0[1]) != r[0]:
                        lines.append('let %s := %s' % (lid(p0[1]), r[0]))
                lines += self.seq(body[0], body[1], cc, fin)
                if not out:
                    return lines
                out.append(' ' * depth + ('else do' if len(lines) > 1 else 'else'))
                return out + self.ind(lines, depth + 2)
            conds = []
            for p in pats:
                if p[0] == 'pbyte' and ty == 'u8':
                    conds.append('(%s == %s)' % (r[0], chb(p[1])))
                elif p[0] == 'pint':
                    conds.append('(%s == %d)' % (r[0], p[1]))
                else:
                    bad('arm pattern on a value of type %s' % ty, aline)
            cond = conds[0] if len(conds) == 1 else '(' + ' || '.join(conds) + ')'
            gpre = []
            if guard is not None:
                g = self.ex(guard, cc, gpre)
                if g[1] != 'bool':
                    bad('guard of type %s' % (g[1],), aline)
                if gpre:
                    t = cc.fresh()
                    c.tmp = cc.tmp
                    hoist = 'let %s ← (if %s then do\n%s\n    pure %s\n  else\n    pure false : Res Bool)' % (
                        t, cond, '\n'.join('    ' + x for x in gpre), g[0])
                    cond = t
                    gpre = [hoist]
                else:
                    cond = '(%s && %s)' % (cond, g[0])
            lines = self.seq(body[0], body[1], cc, fin)
            do = ' do' if len(lines) > 1 else ''
            if not out:
                out += gpre + ['if %s then%s' % (cond, do)] + self.ind(lines, 2)
            elif gpre:
                out.append(' ' * depth + 'else do')
                depth += 2
                out += self.ind(gpre + ['if %s then%s' % (cond, do)] + self.ind(lines, 2), depth)
            else:
                out.append(' ' * depth + 'else if %s then%s' % (cond, do))
                out += self.ind(lines, depth + 2)
        bad('match on a byte without a catch-all arm', arms[0][3])

    def opt_guarded(self, r, ty, arms, c, fin):
        """match on an Option with guards: an arm whose guard fails falls through to the later arms"""
        def branch(is_some):
            cc = c.child()
            binder = None
            lines_rev = None
            sel = []
            for pats, guard, body, aline in arms:
                p = pats[0]
                if p[0] == 'wild' or p[0] == 'bind':
                    sel.append((None, guard, body))
                elif is_some and p[0] == 'ptuplev' and p[1] == ['Some']:
                    sel.append((p[2][0], guard, body))
                elif not is_some and p[0] == 'ppath' and p[1] == ['None']:
                    sel.append((None, guard, body))
            names = {s[0][1] for s in sel if s[0] is not None and s[0][0] == 'bind'}
            if len(names) > 1 or any(s[0] is not None and s[0][0] not in ('bind', 'wild') for s in sel):
                bad('`Some(..)` arms that bind different names', arms[0][3])
            binder = names.pop() if names else None
            if binder:
                cc.declare(binder, ty[1])

            def go(i, cx):
                if i == len(sel):
                    bad('match on an Option that is not exhaustive', arms[0][3])
                sub, guard, body = sel[i]
                if guard is None:
                    return self.seq(body[0], body[1], cx.child(), fin)
                gp = []
                g = self.ex(guard, cx, gp)
                th = self.seq(body[0], body[1], cx.child(), fin)
                el = go(i + 1, cx)
                return gp + ['if %s then%s' % (g[0], ' do' if len(th) > 1 else '')] + self.ind(th, 2) + ['else%s' % (' do' if len(el) > 1 else '')] + self.ind(el, 2)
            lines = go(0, cc)
            c.tmp = cc.tmp
            return binder, lines
        b, some_lines = branch(True)
        _, none_lines = branch(False)
        return ['match %s with' % r[0], '| some %s =>%s' % (lid(b) if b else '_', ' do' if len(some_lines) > 1 else '')] + self.ind(some_lines, 2) + \
            ['| none =>%s' % (' do' if len(none_lines) > 1 else '')] + self.ind(none_lines, 2)

    # ---------------------------------------------------------------- loops
    def own_breaks(self, blk):
        found = []

        def go(x):
            if isinstance(x, tuple):
                if x and x[0] == 'while':
                    return
                if x and x[0] == 'break':
                    found.append(x)
                for y in x:
                    go(y)
            elif isinstance(x, list):
                for y in x:
                    go(y)
        go(blk)
        return bool(found)

    def loop(self, s, c, rest, tail, fin):
        cond, blk, line = s[1], s[2], s[-1]
        fname = c.fn.name
        k = c.loops[0]
        c.loops[0] += 1
        name = '%s_loop%d' % (fname, k)
        breaking = cond is not None or self.own_breaks(blk)
        if not breaking and (rest or tail is not None):
            bad('statements after a `loop` that never breaks', line)
        names = self.assigned(('x', cond, blk), c)
        own = LOOP_FUEL.get((fname, k))
        indesc = fname in self.descent
        if own is None and not indesc:
            bad('loop without an entry in LOOP_FUEL', line)
        used = []
        walk(('x', cond, blk), lambda n: used.append(n[1][0]) if n[0] in ('path', 'call') and len(n[1]) == 1 else None)
        caps = [x for x in c.vars if x in used and x not in names and x not in c.lets and c.vars[x] != 'Bytes']
        thr = [self.vname(c, n) for n in names]
        thr_t = [lty(self.vtype(c, n)) for n in names]
        restype = ('Res ' + ('(' + ' × '.join(thr_t) + ')' if len(thr_t) > 1 else thr_t[0])) if breaking else c.restype
        state_thr = '@state' in names
        lead = []
        if fname in self.alnum:
            lead.append(('isAlnum', 'Char → Bool'))
        desc_fuel = indesc and own is None
        if indesc and own is not None:
            lead.append(('f', 'Nat'))
        fixed = list(lead)
        if c.sv is not None or 're' in c.vars:
            fixed.append(('re', 'Bytes'))
        if c.sv is not None and not state_thr:
            fixed.append((c.sv, 'PState'))
        fixed += [(lid(x), lty(c.vars[x])) for x in caps]
        cc = c.child()
        cc.restype = restype
        cc.inloop = True
        if breaking:
            cc.erronly = True
        exit_text = '.ok ' + self.tup(thr)
        cc.brk = lambda cx: exit_text
        if desc_fuel:
            cc.fuel = 'f'
            head_args = [a for a, _ in lead] + ['f'] + [a for a, _ in fixed if (a, _) not in lead] + thr
            sig = ' '.join('(%s : %s)' % p for p in lead) + (' ' if lead else '') + ': Nat → ' + ' → '.join([t for a, t in fixed if (a, t) not in lead] + thr_t) + ' → ' + restype
            call = lambda cx: '%s %s' % (name, ' '.join(head_args))
            pat0 = '| 0, ' + ', '.join('_' for _ in head_args[len(lead) + 1:]) + ' => .outOfFuel'
            pat1 = '| f + 1, ' + ', '.join(head_args[len(lead) + 1:]) + ' => do'
            term = ['termination_by f %s=> (f, 1, 0)' % ('_ ' * len(head_args[len(lead) + 1:])), 'decreasing_by all_goals descent_decreasing']
            first_call = '%s %s' % (name, ' '.join([a for a, _ in lead] + [c.fuel] + [a for a, t in fixed if (a, t) not in lead] + thr))
        else:
            sig = ' '.join('(%s : %s)' % p for p in fixed) + (' ' if fixed else '') + ': Nat → ' + ' → '.join(thr_t) + ' → ' + restype
            call = lambda cx: '%s %s n %s' % (name, ' '.join(a for a, _ in fixed), ' '.join(thr))
            pat0 = '| 0, ' + ', '.join('_' for _ in thr) + ' => .outOfFuel'
            pat1 = '| n + 1, ' + ', '.join(thr) + ' => do'
            term = ['termination_by n %s=> (f + 1, 0, n)' % ('_ ' * len(thr)), 'decreasing_by all_goals descent_decreasing'] if indesc else []
            fuel_arg = own if not (indesc and own is not None) else own
            first_call = '%s %s %s %s' % (name, ' '.join((c.fuel if a == 'f' else a) for a, _ in fixed), fuel_arg, ' '.join(thr))
        lfin = ('loop', call)
        cc.cont = call
        if cond is None:
            body = self.seq(blk[0], blk[1], cc, lfin)
        else:
            c0 = strip_ref(cond)
            if c0[0] == 'bin' and c0[1] == '&&':
                p1, p2 = [], []
                a = self.ex(c0[2], cc, p1)
                b = self.ex(c0[3], cc, p2)
                inner = self.seq(blk[0], blk[1], cc, lfin)
                if p2:
                    body = p1 + ['if %s then do' % a[0]] + self.ind(p2 + ['if %s then do' % b[0]] + self.ind(inner, 2) + ['else', '  ' + exit_text], 2) + ['else', '  ' + exit_text]
                else:
                    body = p1 + ['if (%s && %s) then do' % (a[0], b[0])] + self.ind(inner, 2) + ['else', '  ' + exit_text]
            else:
                p1 = []
                a = self.ex(cond, cc, p1)
                inner = self.seq(blk[0], blk[1], cc, lfin)
                body = p1 + ['if %s then do' % a[0]] + self.ind(inner, 2) + ['else', '  ' + exit_text]
        c.tmp = cc.tmp
        c.loops = cc.loops
        doc = '/-- a loop of `%s`: iterations left, then the assigned variables -/' % fname
        text = [doc, 'def %s %s' % (name, sig), '  ' + pat0, '  ' + pat1] + self.ind(body, 4) + term
        self.extra.setdefault(fname, []).append('\n'.join(text) + '\n')
        if breaking:
            return ['let %s ← %s' % (self.tup(thr), first_call)] + self.seq(rest, tail, c, fin)
        return [first_call]

    # ---------------------------------------------------------------- functions
    def analyse(self):
        calls = {}
        for name, f in self.funcs.items():
            cs = set()

            def g(n, cs=cs):
                if n[0] == 'mcall' and n[2] in self.funcs:
                    cs.add(n[2])
                if n[0] in ('call', 'path') and len(n[1]) in (1, 2) and n[1][-1] in self.funcs:
                    cs.add(n[1][-1])
            walk(f.body, g)
            calls[name] = cs
        self.calls = calls
        reach = {n: set(cs) for n, cs in calls.items()}
        ch = True
        while ch:
            ch = False
            for n in reach:
                for y in list(reach[n]):
                    new = reach[y] - reach[n]
                    if new:
                        reach[n] |= new
                        ch = True
        self.descent = {n for n in self.funcs if n == DESCENT_ENTRY or (DESCENT_ENTRY in reach[n] and n in reach[DESCENT_ENTRY])}
        direct = set()
        for name, f in self.funcs.items():
            walk(f.body, lambda n, name=name: direct.add(name) if n[0] == 'mcall' and n[2] == 'is_alphanumeric' else None)
        self.alnum = {n for n in self.funcs if n in direct or reach[n] & direct}
        for name, f in self.funcs.items():
            res = f.ret.replace(' ', '').startswith('Result<')
            found = []
            walk(f.body, lambda n: found.append(n) if n[0] == 'index' or (n[0] == 'bin' and n[1] == '-') or
                 (n[0] == 'mcall' and n[2] in ('unwrap', 'expect')) or (n[0] == 'macro' and n[1].startswith('debug_assert')) else None)
            self.fallible[name] = res or bool(found)
        ch = True
        while ch:
            ch = False
            for n in self.funcs:
                if not self.fallible[n] and any(self.fallible[y] for y in calls[n]):
                    self.fallible[n] = True
                    ch = True

    def function(self, name):
        f = self.funcs[name]
        c = Ctx(f)
        indesc = name in self.descent
        vt, fallible, state = self.rtype(name)
        c.rets, c.fallible, c.mutself = vt, fallible, state
        params = []
        if name in self.alnum:
            params.append(('isAlnum', 'Char → Bool'))
        c.fuel = 'f' if indesc else TOP_FUEL if (f.owner and f.selfkind is None) else None
        if f.selfkind is not None:
            c.sv = 'st'
        explicit = []
        if f.selfkind is not None:
            explicit += [('re', 'Bytes'), ('st', 'PState')]
        for pn, pt, _ in f.params:
            if f.owner and f.selfkind is None and pt.replace(' ', '') == '&str':
                c.vars[pn] = 'Bytes'
                c.lets['@pattern'] = pn
                explicit.append((lid(pn), 'Bytes'))
                continue
            ty = self.ptype(name, pn, pt)
            c.vars[pn] = ty
            explicit.append((lid(pn), lty(ty)))
        comps = ([lty(x) for x in vt[1]] if isinstance(vt, tuple) and vt[0] == 'tuple' else [lty(vt)] if vt is not None else []) + (['PState'] if state else [])
        val = ' × '.join(comps) if comps else 'Unit'
        rt = ('Res ' + ('(' + val + ')' if len(comps) > 1 or ' ' in val else val)) if fallible else val
        c.restype = rt
        self.nested = []
        body = self.seq(f.body[0], f.body[1], c, ('ret',))
        for nf in self.nested:
            nf.owner = None
            self.funcs[nf.name] = nf
            self.pending_nested.append(nf.name)
        lname = ('Parser.' + name) if (f.owner and f.selfkind is None and name == 'new') else name
        doc = '/-- `%s%s` -/' % ('Parser::' if f.owner else 'fn ', name)
        if indesc:
            head = ['%s\ndef %s %s: Nat → %s → %s' % (doc, lname, ''.join('(%s : %s) ' % p for p in params), ' → '.join(t for _, t in explicit), rt),
                    '  | 0, %s => .outOfFuel' % ', '.join('_' for _ in explicit),
                    '  | f + 1, %s => do' % ', '.join(a for a, _ in explicit)]
            return '\n'.join(head + self.ind(body, 4) + ['termination_by f %s=> (f, 1, 0)' % ('_ ' * len(explicit)), 'decreasing_by all_goals descent_decreasing']) + '\n'
        head = '%s\ndef %s %s: %s :=%s' % (doc, lname, ''.join('(%s : %s) ' % p for p in params + explicit), rt, ' do' if fallible else '')
        return '\n'.join([head] + self.ind(body, 2)) + '\n'

    def run(self):
        t = self.toks
        # the declarations the tables rely on
        fields, line = parse_struct(t, 'Parser')
        if [(f, x.replace(' ', '')) for f, x in fields] != [(f, x.replace(' ', '')) for f, x in PARSER_FIELDS]:
            bad('`struct Parser` differs from the translator\'s table', line)
        fields, line = parse_struct(t, 'ExprTree')
        if [(f, x) for f, x in fields] != TREE_FIELDS:
            bad('`struct ExprTree` differs from the translator\'s table', line)
        if rc.norm_variants(parse_enum(self.lib, 'Expr')) != rc.norm_variants([(v[0], v[1], v[2]) for v in ra.VARIANTS]):
            bad('lib.rs: `enum Expr` differs from the translator\'s variant table')
        bits = {}
        for name in FLAGS:
            i = ra.find_seq(t, ['const', name, ':', 'u32', '='])
            if i < 0:
                bad('`const %s: u32` not found' % name)
            j = i + 5
            toks_ = []
            while t[j].text != ';':
                toks_.append(t[j].text)
                j += 1
            if toks_ == ['1']:
                bits[name] = 0
            elif len(toks_) == 3 and toks_[0] == '1' and toks_[1] == '<' + '<' or toks_[:1] == ['1'] and ''.join(toks_[1:-1]) == '<<':
                bits[name] = int(toks_[-1])
            else:
                bad('`const %s` is not a single bit `1 << n`' % name, t[i].line)
        if len(set(bits.values())) != len(FLAGS):
            bad('the `FLAG_*` constants are not distinct bits')
        for f in parse_impl2(t, 'Parser'):
            self.funcs[f.name] = f
        for i in top_level_positions(t):
            if t[i].text == 'fn' and t[i].line < self.test_line():
                f, _ = parse_fn2(t, i, None)
                self.funcs[f.name] = f
        # nested fn items are hoisted: find them first
        for f in list(self.funcs.values()):
            for s in f.body[0]:
                if s[0] == 'fn':
                    s[1].owner = None
                    self.funcs[s[1].name] = s[1]
        self.analyse()
        self.pending_nested = []
        texts, order = {}, []
        for name in self.funcs:
            self.extra.pop(name, None)
            texts[name] = self.function(name)
        emitted, out = set(), []

        def unit(n):
            return sorted(self.descent, key=list(self.funcs).index) if n in self.descent else [n]

        def emit(n):
            if n in emitted:
                return
            us = unit(n)
            emitted.update(us)
            for u in us:
                for y in sorted(self.calls[u], key=list(self.funcs).index):
                    if y not in us:
                        emit(y)
            if len(us) > 1:
                block = []
                for u in us:
                    block.append(texts[u])
                    block += self.extra.get(u, [])
                out.append('mutual\n' + '\n'.join(block) + 'end\n')
            else:
                out.extend(self.extra.get(n, []) + [texts[n]])
        for n in self.funcs:
            emit(n)
        header = ('/- generated by tools/rs2lean_parse.py from src/parse.rs — do not edit -/\nimport FancyModel.GenParsePrelude\n'
                  'set_option linter.unusedVariables false\nnamespace Fancy.GenParse\nopen Fancy.Parse\nopen Fancy.Utf8 (codepointLen)\n\n')
        return self.resolve_sites(header + '\n'.join(out) + '\nend Fancy.GenParse\n')

    def test_line(self):
        i = ra.find_seq(self.toks, ['#', '[', 'cfg', '(', 'test', ')', ']', 'mod', 'tests'])
        return self.toks[i].line if i >= 0 else 10 ** 9


def main(argv):
    args = argv[1:]
    stub = '--stub-on-failure' in args
    args = [a for a in args if a != '--stub-on-failure']
    opts = {}
    for o in ('-o', '--lib'):
        if o in args:
            i = args.index(o)
            opts[o] = args[i + 1]
            del args[i:i + 2]
    src = args[0] if args else os.environ.get('RS2LEAN_PARSE_SRC', DEFAULT_SRC)
    out = opts.get('-o', os.environ.get('RS2LEAN_PARSE_OUT', DEFAULT_OUT))
    d = os.path.dirname(os.path.abspath(src))
    lib = opts.get('--lib') or (os.path.join(d, 'lib.rs') if os.path.exists(os.path.join(d, 'lib.rs')) else '/repo/src/lib.rs')
    try:
        text = T(rv.tokenize(open(src).read(), 'parse.rs'), rv.tokenize(open(lib).read(), 'lib.rs')).run()
    except Unsupported as u:
        msg = 'rs2lean_parse.py: NOT TRANSLATED - %s:%s: %s' % (os.path.basename(src), u.line if u.line is not None else '?', u.msg)
        print(msg, file=sys.stdout if stub else sys.stderr)
        if not stub:
            return 2
        text = ('/- %s -/\nnamespace Fancy.GenParse\ntheorem translator_could_not_read_parse_rs : False := by\n'
                '  exact translation_failed   -- deliberately unresolved: see the comment above\nend Fancy.GenParse\n' % msg.replace('-/', '- /'))
    old = open(out).read() if os.path.exists(out) else None
    if old != text:
        open(out, 'w').write(text)
        print('rs2lean_parse.py: wrote %s' % out)
    else:
        print('rs2lean_parse.py: %s is up to date' % out)
    return 0


if __name__ == '__main__':
    sys.exit(main(sys.argv))
