#!/usr/bin/env python3
"""Translate the interpreter loop `vm::run` (src/vm.rs of fancy-regex) into Lean: lean/FancyModel/GeneratedVM.lean.

usage: rs2lean_vm.py [VM_RS] [-o OUT.lean] [--lib LIB_RS] [--stub-on-failure]
       (VM_RS defaults to $RS2LEAN_VM_SRC or /repo/src/vm.rs, OUT to $RS2LEAN_VM_OUT or
        lean/FancyModel/GeneratedVM.lean, LIB_RS to $RS2LEAN_LIB_SRC, else lib.rs next to VM_RS, else /repo/src/lib.rs;
        --stub-on-failure, used by tools/extract.py: a failure leaves a stub that does not compile in OUT and exits 0)

Mechanical: a tokenizer (shared with rs2lean_analyze.py) and a recursive-descent parser for the statement / expression
subset that `run` uses, then one Lean `let` / `match` per Rust statement, in the same order, one definition per match arm.
Anything outside the subset is an error (exit status 2, message with the construct and its line) - nothing is guessed.
What is NOT read from the Rust text (the adaptors) is in lean/FancyModel/GenVMPrelude.lean and in the tables below;
see notes/translator-vm.md.
"""
import os, re, sys

sys.path.insert(0, os.path.dirname(os.path.abspath(__file__)))
import rs2lean_analyze as ra
import rs2lean_ints as ints
from rs2lean_analyze import Unsupported, bad, Tok, find_seq, matching, top_level_positions, parse_enum, int_of

EXTRA_KEYWORDS = {'repeat', 'next', 'stop', 'open', 'end', 'prefix', 'infix', 'from', 'at', 'show', 'have', 'fun', 'do', 'then'}


def lean_id(name):
    return '«%s»' % name if name in ra.LEAN_KEYWORDS or name in EXTRA_KEYWORDS else name

VERIF = os.path.dirname(os.path.dirname(os.path.abspath(__file__)))
DEFAULT_SRC = '/repo/src/vm.rs'
DEFAULT_OUT = os.path.join(VERIF, 'lean', 'FancyModel', 'GeneratedVM.lean')

# ------------------------------------------------------------------------------------------------ tokenizer
# the analyzer translator's token set plus byte literals b'x'

TOKEN_RE = re.compile(r"(?P<bchr>b'(?:\\.|[^'\\])')|" + ra.TOKEN_RE.pattern.lstrip(), re.X | re.S)


def tokenize(src, name=''):
    toks, pos, line = [], 0, 1
    while pos < len(src):
        m = TOKEN_RE.match(src, pos)
        if not m:
            bad('%scannot tokenize %r' % (name and '(%s line %d) ' % (name, line), src[pos:pos + 20]), line)
        kind = m.lastgroup
        if kind == 'hashes':
            kind = 'rawstr'
        text = m.group(0)
        if kind not in ('ws', 'lc', 'bc'):
            toks.append(Tok(kind, text, line))
        line += text.count('\n')
        pos = m.end()
    toks.append(Tok('eof', '<end of file>', line))
    return toks


LITERALS = ('str', 'chr', 'rawstr', 'bchr')
BYTE_ESCAPES = {'n': 10, 'r': 13, 't': 9, '0': 0, '\\': 92, "'": 39}


def byte_of(t):
    body = t.text[2:-1]
    if body.startswith('\\'):
        if body[1:] not in BYTE_ESCAPES:
            bad('byte literal %s' % t.text, t.line)
        return BYTE_ESCAPES[body[1:]]
    if len(body) != 1 or ord(body) > 127:
        bad('byte literal %s' % t.text, t.line)
    return ord(body)


# ------------------------------------------------------------------------------------------------ parser

class Parser(ra.Parser):
    """the statement / expression subset of `vm::run`"""

    def at(self, *texts):
        for k, t in enumerate(texts):
            if self.peek(k).text != t or self.peek(k).kind in LITERALS:
                return False
        return True

    # ---- expressions
    def expr(self, no_struct=False):
        l = self.p_oror(no_struct)
        if self.at('..'):
            ln = self.next().line
            return ('range', l, self.p_oror(no_struct), ln)
        if self.at('..='):
            bad('inclusive range `..=`', self.peek().line)
        return l

    def p_add(self, ns):
        l = self.p_mul(ns)
        while self.peek().kind == 'op' and self.peek().text in ('+', '-'):
            t = self.next()
            l = ('bin', t.text, l, self.p_mul(ns), t.line)
        return l

    def p_mul(self, ns):
        l = self.p_cast(ns)
        while self.peek().kind == 'op' and self.peek().text in ('*', '/', '%'):
            t = self.next()
            if t.text != '*':
                bad('operator `%s`' % t.text, t.line)
            l = ('bin', '*', l, self.p_cast(ns), t.line)
        return l

    def p_cast(self, ns):
        """`e as T`: binds tighter than `*` `/` `%`, looser than the prefix operators (`*b as char` is `(*b) as char`)"""
        e = self.p_unary(ns)
        while self.at('as'):
            ln = self.next().line
            if self.peek().kind != 'id' or self.peek(1).text in ('::', '<'):
                bad('`as` cast to something other than a plain type name', ln)
            e = ('cast', e, self.ident(), ln)
        return e

    def p_unary(self, ns):
        t = self.peek()
        if t.kind == 'op' and t.text == '!':
            self.next()
            return ('not', self.p_unary(ns), t.line)
        if t.kind == 'op' and t.text == '&':
            self.next()
            if self.at('mut'):
                self.next()
                return ('refmut', self.p_unary(ns), t.line)
            return ('ref', self.p_unary(ns), t.line)
        if t.kind == 'op' and t.text == '*':
            bad('`*` dereference', t.line)
        if t.kind == 'op' and t.text == '-':
            bad('unary minus', t.line)
        if t.kind == 'op' and t.text in ('|', '||'):
            return self.closure()
        return self.p_postfix(ns)

    def closure(self):
        """`|x| e` with a plain identifier (for `opt.map_or(d, |x| e)`)"""
        t = self.next()
        if t.text != '|' or self.peek().kind != 'id' or self.peek(1).text != '|':
            bad('closure', t.line)
        x = self.ident()
        self.next()
        if self.at('{'):
            bad('closure with a block body', t.line)
        return ('closure', x, self.expr(), t.line)

    def p_cmp(self, ns):
        l = self.p_bitor(ns)
        is_cmp = lambda: (self.peek().text in ('==', '!=', '<', '<=', '>', '>=') and self.peek().kind == 'op'
                          and not ((self.at('<', '<=') or self.at('>', '>=')) and self.peek(1).kind == 'op'))    # `<<=`, `>>=`
        if is_cmp():
            t = self.next()
            r = self.p_bitor(ns)
            if is_cmp():
                bad('chained comparison', self.peek().line)
            return ('bin', t.text, l, r, t.line)
        return l

    # `<<` / `>>` reach the parser as two tokens (`<<=` as `<` `<=`): a level between `&` and `+`, as in Rust
    def p_bitxor(self, ns):
        l = self.p_bitand(ns)
        while self.at('^'):
            ln = self.next().line
            l = ('bin', '^', l, self.p_bitand(ns), ln)
        return l

    def p_bitand(self, ns):
        l = self.p_shift(ns)
        while self.at('&'):
            ln = self.next().line
            l = ('bin', '&', l, self.p_shift(ns), ln)
        return l

    def p_shift(self, ns):
        l = self.p_add(ns)
        while (self.at('<', '<') or self.at('>', '>')) and self.peek().kind == 'op' and self.peek(1).kind == 'op':
            t = self.next()
            self.next()
            l = ('bin', t.text * 2, l, self.p_add(ns), t.line)
        return l

    def p_postfix(self, ns):
        e = self.p_primary(ns)
        while True:
            t = self.peek()
            if t.kind != 'op':
                break
            if t.text == '.':
                self.next()
                nt = self.next()
                if nt.kind != 'id':
                    bad('`.%s` (tuple field / await are not in the subset)' % nt.text, nt.line)
                if self.at('('):
                    e = ('mcall', e, nt.text, self.args(), nt.line)
                elif self.at('::'):
                    bad('turbofish method call', nt.line)
                else:
                    e = ('field', e, nt.text, nt.line)
            elif t.text == '[':
                self.next()
                if self.at('..'):
                    bad('range index `[..` without a start', t.line)
                idx = self.expr()
                self.expect(']')
                e = ('index', e, idx, t.line)
            elif t.text == '?':
                self.next()
                e = ('try', e, t.line)
            else:
                break
        return e

    def p_primary(self, ns):
        t = self.peek()
        if t.kind == 'bchr':
            self.next()
            return ('byte', byte_of(t), t.line)
        if t.kind == 'int':
            m = re.search(r'(usize|u8|u16|u32|u64|i32|i64|isize)$', t.text)
            if m:                       # a suffixed literal keeps its type: ('tint', value, type)
                self.next()
                return ('tint', int_of(t), m.group(1), t.line)
        if t.kind == 'id' and t.text == 'matches' and self.peek(1).text == '!' and self.peek(1).kind == 'op':
            self.next()
            self.next()
            self.expect('(')
            scrut = self.expr()
            self.expect(',')
            pats = [self.pattern()]
            while self.at('|'):
                self.next()
                pats.append(self.pattern())
            if self.at('if'):
                bad('`matches!` with a guard', self.peek().line)
            if self.at(','):
                self.next()
            self.expect(')')
            return ('matches', scrut, pats, t.line)
        if t.kind == 'id' and t.text == 'match':
            self.next()
            scrut = self.expr(no_struct=True)
            arms = self.match_arms(value=True)
            return ('matchexpr', scrut, arms, t.line)
        if t.kind in ('str', 'chr', 'rawstr'):
            bad('string / character literal', t.line)
        return ra.Parser.p_primary(self, ns)

    # ---- statements
    def skip_statement(self):
        """token-level skip of the statement that follows a `#[cfg(..)]` attribute"""
        t = self.peek()
        if t.kind == 'id' and t.text in ('if', 'loop', 'while', 'for', 'match', 'unsafe') or t.text == '{':
            while True:
                while not self.at('{'):
                    if self.peek().kind == 'eof' or self.at(';'):
                        bad('cannot skip the statement after the attribute', t.line)
                    self.next()
                self.i = matching(self.toks, self.i) + 1
                if self.at('else'):
                    self.next()
                    continue
                break
            return
        depth = 0
        while True:
            x = self.next()
            if x.kind == 'eof':
                bad('cannot skip the statement after the attribute', t.line)
            if x.kind in LITERALS:
                continue
            if x.text in ('(', '[', '{'):
                depth += 1
            elif x.text in (')', ']', '}'):
                depth -= 1
                if depth < 0:
                    bad('cannot skip the statement after the attribute', t.line)
            elif x.text == ';' and depth == 0:
                return

    def attribute(self):
        """`#[cfg(...)]`: the guarded statement is skipped; any other attribute is an error"""
        t = self.expect('#')
        if not self.at('['):
            bad('inner attribute', t.line)
        close = matching(self.toks, self.i)
        inner = [x.text for x in self.toks[self.i + 1:close]]
        if inner[:2] != ['cfg', '(']:
            bad('attribute `#[%s]` on a statement (only `#[cfg(..)]`, whose statement is skipped)' % ' '.join(inner), t.line)
        self.i = close + 1
        if self.at('#'):
            bad('two attributes on one statement', t.line)
        self.skip_statement()

    def simple_stmt(self, enders):
        """break / continue / return / expression / assignment; the terminator (one of `enders`, or `;`) is not consumed"""
        t = self.peek()
        if t.kind == 'id' and t.text == 'break':
            self.next()
            label = None
            if self.peek().kind == 'life':
                label = self.next().text
            if not (self.at(';') or self.peek().text in enders):
                bad('`break` with a value', t.line)
            return ('break', label, t.line)
        if t.kind == 'id' and t.text == 'continue':
            self.next()
            if self.peek().kind == 'life':
                bad('`continue` with a label', t.line)
            return ('continue', t.line)
        if t.kind == 'id' and t.text == 'return':
            self.next()
            return ('return', self.expr(), t.line)
        e = self.expr()
        op = self.assign_op()
        if op:
            r = self.expr()
            return ('assign', e, op, r, t.line)
        return ('expr', e, t.line)

    ASSIGN_OPS = ('=', '+=', '-=', '*=', '|=', '&=', '^=', '<<=', '>>=')

    def assign_op(self, allowed=None):
        """an assignment operator at the cursor (consumed) or None; `<<=` / `>>=` arrive as `<` `<=` / `>` `>=`"""
        nt = self.peek()
        if nt.kind != 'op':
            return None
        op = None
        if nt.text in ('=', '+=', '&=', '|=', '-=', '*=', '/=', '%=', '^='):
            op = nt.text
            self.next()
        elif (self.at('<', '<=') or self.at('>', '>=')) and self.peek(1).kind == 'op':
            op = nt.text * 2 + '='
            self.next()
            self.next()
        if op is not None and op not in (allowed or self.ASSIGN_OPS):
            bad('compound assignment `%s`' % op, nt.line)
        return op

    def if_stmt(self):
        t = self.expect('if')
        pat = None
        if self.at('let'):
            self.next()
            pat = self.pattern()
            self.expect('=')
        c = self.expr(no_struct=True)
        th = self.block()
        el = None
        if self.at('else'):
            self.next()
            if self.at('if'):
                el = [self.if_stmt()]          # `else if c { .. }` is `else { if c { .. } }`
            else:
                el = self.block()
        if pat is not None:
            return ('iflet', pat, c, th, el, t.line)
        return ('if', c, th, el, t.line)

    def block(self):
        """`{ stmt* }` -> stmts; a final expression statement without `;` is accepted only if it is an assignment or a
        call used for its effect (the blocks of `run` have type `()`)"""
        self.expect('{')
        stmts = []
        while not self.at('}'):
            t = self.peek()
            if t.kind == 'op' and t.text == '#':
                self.attribute()
            elif t.kind == 'id' and t.text == 'let':
                self.next()
                mut = False
                if self.at('ref'):
                    bad('`let ref`', t.line)
                if self.at('mut'):
                    self.next()
                    mut = True
                if self.at('('):
                    if mut:
                        bad('`let mut (..)`', t.line)
                    self.next()
                    names = []
                    while not self.at(')'):
                        n = self.ident()
                        names.append(None if n == '_' else n)
                        if not self.at(')'):
                            self.expect(',')
                    self.next()
                    self.expect('=')
                    e = self.expr()
                    self.expect(';')
                    stmts.append(('lettuple', names, e, t.line))
                    continue
                if self.peek().kind != 'id' or self.peek(1).text not in (':', '='):
                    bad('`let` with a pattern other than an identifier or a tuple of identifiers', t.line)
                name = self.ident()
                ty = None
                if self.at(':'):
                    self.next()
                    ty = self.type_(['=', ';'])
                if not self.at('='):
                    bad('`let` without an initialiser', t.line)
                self.next()
                e = self.expr()
                if self.at('else'):
                    bad('`let … else`', t.line)
                self.expect(';')
                stmts.append(('let', name, mut, ty, e, t.line))
            elif t.kind == 'id' and t.text == 'for':
                self.next()
                if self.peek().kind != 'id' or self.peek(1).text != 'in':
                    bad('`for` with a pattern other than a plain identifier', t.line)
                var = self.ident()
                self.expect('in')
                it = self.expr(no_struct=True)
                stmts.append(('for', var, it, self.block(), t.line))
            elif t.kind == 'life':
                self.next()
                self.expect(':')
                if not self.at('loop'):
                    bad('label on something other than `loop`', t.line)
                self.next()
                stmts.append(('loop', t.text, self.block(), t.line))
            elif t.kind == 'id' and t.text == 'loop':
                self.next()
                stmts.append(('loop', None, self.block(), t.line))
            elif t.kind == 'id' and t.text == 'if':
                stmts.append(self.if_stmt())
                if self.at(';'):
                    self.next()
            elif t.kind == 'id' and t.text == 'match':
                self.next()
                scrut = self.expr(no_struct=True)
                arms = self.match_arms(value=False)
                if self.at(';'):
                    self.next()
                stmts.append(('match', scrut, arms, t.line))
            elif t.kind == 'id' and t.text in ('while', 'unsafe', 'fn', 'struct', 'use', 'const', 'static'):
                bad('`%s` statement' % t.text, t.line)
            elif t.kind == 'op' and t.text == '{':
                bad('nested block statement', t.line)
            else:
                s = self.simple_stmt(['}'])
                if self.at(';'):
                    self.next()
                elif not self.at('}'):
                    bad('unexpected `%s` after a statement' % self.peek().text, self.peek().line)
                elif s[0] == 'expr' and not (s[1][0] == 'mcall'):
                    bad('block with a value (tail expression)', s[-1])
                stmts.append(s)
        self.expect('}')
        return stmts

    def match_arms(self, value):
        """value=False: arms are statements -> [(pats, body stmts, line)]; value=True: arms are expressions -> [(pats, expr, line)]"""
        self.expect('{')
        arms = []
        while not self.at('}'):
            t = self.peek()
            pats = [self.pattern()]
            while self.at('|'):
                self.next()
                pats.append(self.pattern())
            if self.at('if'):
                bad('match guard', self.peek().line)
            self.expect('=>')
            if value:
                if self.at('{'):
                    self.next()
                    e = self.expr()
                    if not self.at('}'):
                        bad('match arm block that is not a single expression', self.peek().line)
                    self.next()
                else:
                    e = self.expr()
                body = e
            elif self.at('{'):
                body = self.block()
            else:
                body = [self.simple_stmt([',', '}'])]
                if not (self.at(',') or self.at('}')):
                    bad('unexpected `%s` after a match arm' % self.peek().text, self.peek().line)
            if self.at(','):
                self.next()
            arms.append((pats, body, t.line))
        self.expect('}')
        return arms

    def subpattern(self):
        """`_` | x | `ref x` | true | false -> None | ('bind', x) | ('lit', bool)"""
        t = self.peek()
        if self.at('ref'):
            self.next()
            if self.at('mut'):
                bad('`ref mut` binding', t.line)
            return ('bind', self.ident())
        if self.at('mut') or self.at('&'):
            bad('`%s` in a sub-pattern' % t.text, t.line)
        if t.kind == 'id':
            name = self.ident()
            if self.at('@') or self.at('::') or self.at('(') or self.at('{'):
                bad('nested pattern', t.line)
            if name == '_':
                return None
            if name in ('true', 'false'):
                return ('lit', name == 'true')
            if name[:1].isupper():
                bad('constant / nested enum pattern `%s`' % name, t.line)
            return ('bind', name)
        bad('pattern `%s …`' % t.text, t.line)

    def pattern(self):
        """('wild', line) | ('some', name|None, line) | ('none', line) | ('variant', Enum, Name, shape, items, rest, line)"""
        t = self.peek()
        if t.kind != 'id':
            bad('pattern starting with `%s`' % t.text, t.line)
        if t.text == '_':
            self.next()
            return ('wild', t.line)
        if t.text == 'Some' and self.peek(1).text == '(':
            self.next()
            self.next()
            if self.at('&'):
                self.next()
            n = self.ident()
            self.expect(')')
            if n[:1].isupper():
                bad('nested pattern inside `Some(..)`', t.line)
            return ('some', None if n == '_' else n, t.line)
        if t.text == 'None':
            self.next()
            return ('none', t.line)
        path = [self.ident()]
        while self.at('::'):
            self.next()
            path.append(self.ident())
        if len(path) != 2 or path[0] not in ('Insn', 'Assertion'):
            bad('pattern `%s` (only `Insn::V …`, `Assertion::V …`, `Some(x)`, `None`, `_`)' % '::'.join(path), t.line)
        if self.at('('):
            self.next()
            items, rest = [], False
            while not self.at(')'):
                if self.at('..'):
                    self.next()
                    rest = True
                    if not self.at(')'):
                        bad('`..` that is not last in a tuple pattern', t.line)
                else:
                    items.append(self.subpattern())
                if not self.at(')'):
                    self.expect(',')
            self.expect(')')
            return ('variant', path[0], path[1], 'tuple', items, rest, t.line)
        if self.at('{'):
            self.next()
            items, rest = {}, False
            while not self.at('}'):
                if self.at('..'):
                    self.next()
                    rest = True
                    if not self.at('}'):
                        bad('`..` that is not last in a struct pattern', t.line)
                    break
                is_ref = False
                if self.at('ref'):
                    self.next()
                    is_ref = True
                f = self.ident()
                if f in items:
                    bad('field `%s` bound twice' % f, t.line)
                if self.at(':'):
                    if is_ref:
                        bad('`ref f: pat`', t.line)
                    self.next()
                    items[f] = self.subpattern()
                else:
                    items[f] = ('bind', f)
                if not self.at('}'):
                    self.expect(',')
            self.expect('}')
            return ('variant', path[0], path[1], 'struct', items, rest, t.line)
        return ('variant', path[0], path[1], 'unit', [], False, t.line)


# ------------------------------------------------------------------------------------------------ the adaptor tables

# Rust `Insn` variant -> (shape, fields as declared in src/vm.rs, Lean constructor pattern template).
# The declaration in vm.rs is compared with this table on every run. `{x}` is the binder of field x.
VARIANTS = [
    ('End', 'unit', [], '.end_'),
    ('Any', 'unit', [], '.any'),
    ('AnyNoNL', 'unit', [], '.anyNoNL'),
    ('Assertion', 'tuple', ['Assertion'], '.assertion {0}'),
    ('Lit', 'tuple', ['String'], '.lit {0}'),
    ('Split', 'tuple', ['usize', 'usize'], '.split {0} {1}'),
    ('Jmp', 'tuple', ['usize'], '.jmp {0}'),
    ('Save', 'tuple', ['usize'], '.save {0}'),
    ('Save0', 'tuple', ['usize'], '.save0 {0}'),
    ('Restore', 'tuple', ['usize'], '.restore {0}'),
    ('RepeatGr', 'struct', [('lo', 'usize'), ('hi', 'usize'), ('next', 'usize'), ('repeat', 'usize')],
     '.repeatGr {lo} {hi} {next} {repeat}'),
    ('RepeatNg', 'struct', [('lo', 'usize'), ('hi', 'usize'), ('next', 'usize'), ('repeat', 'usize')],
     '.repeatNg {lo} {hi} {next} {repeat}'),
    ('RepeatEpsilonGr', 'struct', [('lo', 'usize'), ('next', 'usize'), ('repeat', 'usize'), ('check', 'usize')],
     '.repeatEpsGr {lo} {next} {repeat} {check}'),
    ('RepeatEpsilonNg', 'struct', [('lo', 'usize'), ('next', 'usize'), ('repeat', 'usize'), ('check', 'usize')],
     '.repeatEpsNg {lo} {next} {repeat} {check}'),
    ('FailNegativeLookAround', 'unit', [], '.failNegLook'),
    ('GoBack', 'tuple', ['usize'], '.goBack {0}'),
    ('Backref', 'tuple', ['usize'], '.backref {0}'),
    ('BeginAtomic', 'unit', [], '.beginAtomic'),
    ('EndAtomic', 'unit', [], '.endAtomic'),
    # `pattern: String` (the regex source, for Debug only) has no counterpart in the model
    ('Delegate', 'struct', [('inner', 'Regex'), ('pattern', 'String'), ('start_group', 'usize'), ('end_group', 'usize')],
     '.delegate {inner} {start_group} {end_group}'),
    ('ContinueFromPreviousMatchEnd', 'unit', [], '.contPrev'),
    ('BackrefExistsCondition', 'tuple', ['usize'], '.backrefExists {0}'),
]
# fields whose model representation differs: (Variant, field) -> (Lean type of the model's field, Lean text of the Rust-side
# value built from the matched `{m}`; other binders of the pattern may be used)
FIELD_ADAPTORS = {
    ('RepeatGr', 'hi'): ('Option Nat', 'hiVal {m}'),
    ('RepeatNg', 'hi'): ('Option Nat', 'hiVal {m}'),
    ('Lit', '0'): ('List Char', 'litBytes {m}'),
    ('Delegate', 'inner'): ('List Expr', 'RaRegex.mk {m} {start_group} {end_group}'),
}
NO_MODEL_FIELD = {('Delegate', 'pattern')}

# `enum Assertion` (src/lib.rs), compared on every run; (Variant, crlf literal or None) -> the model's constructor
ASSERTION_ENUM = [('StartText', 'unit', []), ('EndText', 'unit', []), ('StartLine', 'struct', [('crlf', 'bool')]),
                  ('EndLine', 'struct', [('crlf', 'bool')]), ('LeftWordBoundary', 'unit', []), ('RightWordBoundary', 'unit', []),
                  ('WordBoundary', 'unit', []), ('NotWordBoundary', 'unit', [])]
ASSERTION_PATTERNS = {
    ('StartText', None): '.startText', ('EndText', None): '.endText',
    ('StartLine', False): '.startLine false', ('StartLine', True): '.startLine true',
    ('EndLine', False): '.endLine false', ('EndLine', True): '.endLine true',
    ('LeftWordBoundary', None): '.leftWord', ('RightWordBoundary', None): '.rightWord',
    ('WordBoundary', None): '.wordB', ('NotWordBoundary', None): '.notWordB',
}
# regex-automata `LookMatcher` methods -> does the Rust method return a `Result` (to be `.unwrap()`ped)?
LOOK_METHODS = {'is_start': False, 'is_end': False, 'is_start_lf': False, 'is_end_lf': False, 'is_start_crlf': False,
                'is_end_crlf': False, 'is_word_start_unicode': True, 'is_word_end_unicode': True, 'is_word_unicode': True,
                'is_word_unicode_negate': True}

# type tags -> Lean types
LEAN_TYPES = {'usize': 'Nat', 'bool': 'Bool', 'u8': 'Nat', 'u16': 'Nat', 'u32': 'Nat', 'u64': 'Nat', 'str': 'Bytes', 'bytes': 'Bytes', 'OptNonMax': 'Option Nat',
              'NonMax': 'Nat', 'VecOptNonMax': 'List (Option Nat)', 'Input': 'RaInput', 'Regex': 'RaRegex', 'HalfMatch': 'Nat',
              'OptHalfMatch': 'Option Nat', 'OptPid': 'Option Nat', 'OptUsize': 'Option Nat', 'Assertion': 'Assertion'}
OPTION_ELEM = {'OptNonMax': 'NonMax', 'OptHalfMatch': 'HalfMatch', 'OptUsize': 'usize', 'OptPid': 'usize'}
FIELD_TAGS = {'usize': 'usize', 'String': 'str', 'Assertion': 'Assertion', 'Regex': 'Regex'}

# panic-site strings: (arm, operation) -> the string `stepB` / `runLoopB` use at that place (Model/VMBytes.lean);
# an operation that is not listed gets "<arm>: <operation>"
SITES = {
    ('End', 'get'): 'end', ('End', 'save'): 'end',
    ('Save', 'save'): 'save', ('Save0', 'save'): 'save0', ('Restore', 'get'): 'restore',
    ('RepeatGr', 'get'): 'repeat get', ('RepeatGr', 'save'): 'repeat save',
    ('RepeatNg', 'get'): 'repeat get', ('RepeatNg', 'save'): 'repeat save',
    ('RepeatEpsilonGr', 'get'): 'repeat get', ('RepeatEpsilonGr', 'save'): 'repeat save',
    ('RepeatEpsilonNg', 'get'): 'repeat get', ('RepeatEpsilonNg', 'save'): 'repeat save',
    ('GoBack', 'prev_codepoint_ix'): 'goBack index',
    ('FailNegativeLookAround', 'pop'): 'failNegLook pop',
    ('Backref', 'get'): 'backref get', ('Backref', 'slice'): 'backref slice',
    ('BackrefExistsCondition', 'get'): 'backrefExists get',
    ('BeginAtomic', 'stack_push'): 'stack_push',
    ('EndAtomic', 'stack_pop'): 'stack_pop', ('EndAtomic', 'backtrack_cut'): 'backtrack_cut',
    ('Assertion', 'look'): 'assertion boundary',
    ('Delegate', 'search'): 'delegate boundary',
    ('Delegate', 'save'): 'delegate copy', ('Delegate', 'index'): 'delegate copy', ('Delegate', 'unwrap'): 'delegate copy',
    ('OnFail', 'pop'): 'pop',
}
PROG_INDEX_SITE = 'prog index'
# `loop { .. break; }` has no bound in the text: the fuel each one is run with. Proofs/C05f proves that the generated
# function never runs out of it (`C05_vm_loop_fuel`).
LOOP_FUEL = {'FailNegativeLookAround': 'state.stack.length + 1'}
RESERVED = {'bc', 'prog', 'insn', 'o', 'r', 'fuel', 'n', 'self'}


def vid(name):
    """the Lean identifier of a Rust variable: a name that the generated code uses for itself (RESERVED, `t1`, `t2`, …) is
    renamed apart (`n` -> `n_rs`), so that a local may be called anything"""
    return lean_id(name + '_rs') if (name in RESERVED or re.match(r't[0-9]+$', name)) else lean_id(name)


def clash_rs(name):
    return name.endswith('_rs') and (name[:-3] in RESERVED or re.match(r't[0-9]+$', name[:-3]) is not None)

# the two helper functions of vm.rs that the prelude defines by hand: their text is compared token by token
HELPER_TEXTS = {
    'codepoint_len_at': 'fn codepoint_len_at ( s : & str , ix : usize ) -> usize { codepoint_len ( s . as_bytes ( ) [ ix ] ) }',
    'matches_literal': 'fn matches_literal ( s : & str , ix : usize , end : usize , literal : & str ) -> bool { '
                       'end <= s . len ( ) && & s . as_bytes ( ) [ ix .. end ] == literal . as_bytes ( ) }',
}
RUN_SIG = ('pub ( crate ) fn run ( prog : & Prog , s : & str , pos : usize , option_flags : u32 , options : & RegexOptions , ) '
           '-> Result < Option < Vec < usize > > > {').split()


def is_path(e, *names):
    return e[0] == 'path' and e[1] == list(names)


class Ctx:
    def __init__(self):
        self.types = {}
        self.mutable = set()
        self.arm = None
        self.loop = None        # None | 'for' | 'loop'
        self.captured = set()   # inside a loop function: the variables of the enclosing arm that may only be read

    def copy(self):
        c = Ctx()
        c.types, c.mutable, c.arm, c.loop, c.captured = dict(self.types), set(self.mutable), self.arm, self.loop, set(self.captured)
        return c


class Translator:
    def __init__(self, toks, lib_toks):
        self.toks, self.lib_toks = toks, lib_toks
        self.defs = []           # [(doc, lines)] in order
        self.names = set()
        self.tmpn = 0
        self.mode = 'step'       # 'step' | 'fail'

    # ---- results
    def done(self, outcome):
        return '.done (%s)' % outcome if self.mode == 'step' else '.done (%s) backtrack_count' % outcome

    def site(self, c, op):
        return SITES.get((c.arm, op), '%s: %s' % (c.arm, op))

    def panic(self, c, op):
        return self.done('.panic "%s"' % self.site(c, op))

    def fresh(self):
        self.tmpn += 1
        return 't%d' % self.tmpn

    def hoist(self, scrut, c, op):
        """a fallible operation: -> (hoist record, name of its value)"""
        t = self.fresh()
        return (scrut, 'none', self.panic(c, op), 'some %s' % t), t

    @staticmethod
    def emit_pre(pre, ind):
        out = []
        for scrut, failpat, failres, okpat in pre:
            out += [ind + 'match %s with' % scrut, ind + '| %s => %s' % (failpat, failres), ind + '| %s =>' % okpat]
            ind += '  '
        return out, ind

    def want(self, got, want, what, line):
        wants = want if isinstance(want, tuple) else (want,)
        if got not in wants:
            bad('%s has type %s, expected %s' % (what, got, ' or '.join(wants)), line)

    # ---- expressions -> (pre, lean text, type tag)
    def ex(self, e, c, expect=None):
        """`expect`: the integer type an unsuffixed literal takes from its context (rs2lean_ints); None: `usize`"""
        k, line = e[0], e[-1]
        if k == 'int':
            t = expect if ints.is_int(expect) else 'usize'
            if not ints.fits(e[1], t):
                bad('the literal %d does not fit the type %s' % (e[1], t), line)
            return [], str(e[1]), t
        if k == 'tint':
            if not ints.is_int(e[2]) or not ints.fits(e[1], e[2]):
                bad('integer literal of type %s' % e[2], line)
            return [], str(e[1]), e[2]
        if k == 'cast':
            pre, s, t = self.ex(e[1], c)
            if e[2] in ints.SIGNED:
                bad('cast to the signed / 128-bit type %s (not in the subset)' % e[2], line)
            if not (ints.is_int(t) and ints.is_int(e[2])):
                bad('cast from %s to %s' % (t, e[2]), line)
            return pre, ints.cast(s, t, e[2]), e[2]
        if k == 'closure':
            bad('closure outside `opt.map_or(d, |x| e)`', line)
        if k == 'byte':
            return [], str(e[1]), 'u8'
        if k == 'bool':
            return [], ('true' if e[1] else 'false'), 'bool'
        if k == 'paren':
            return self.ex(e[1], c, expect)
        if k == 'path':
            if e[1] == ['usize', 'MAX']:
                return [], 'UNSET', 'usize'
            if len(e[1]) == 2 and e[1][1] == 'MAX' and ints.is_int(e[1][0]):
                return [], str(ints.modulus(e[1][0]) - 1), e[1][0]
            if len(e[1]) != 1:
                bad('path `%s` as a value' % '::'.join(e[1]), line)
            n = e[1][0]
            if n == 'None':
                return [], 'none', 'NoneLit'
            if n not in c.types:
                bad('unknown variable `%s`' % n, line)
            if c.types[n] in ('State', 'LookMatcher', 'Flags', 'Options', 'Prog'):
                bad('`%s` used as a value' % n, line)
            return [], vid(n), c.types[n]
        if k == 'field':
            if is_path(e[1], 'options') and e[2] == 'backtrack_limit' and c.types.get('options') == 'Options':
                if self.mode != 'fail':
                    bad('`options.backtrack_limit` outside the fail handler (the arms do not receive the options)', line)
                return [], 'o.backtrackLimit', 'usize'
            bad('field access `.%s`' % e[2], line)
        if k in ('ref', 'refmut'):
            pre, s, t = self.ex(e[1], c)
            if k == 'ref' and t in ('str', 'Input', 'bytes'):
                return pre, s, t
            bad('`&%s` of a value of type %s here' % ('mut ' if k == 'refmut' else '', t), line)
        if k == 'not':
            pre, s, t = self.ex(e[1], c, expect)
            if ints.is_int(t):
                return pre, ints.bitnot(s, t), t
            self.want(t, 'bool', 'operand of `!`', line)
            return pre, '(!%s)' % s, 'bool'
        if k == 'bin':
            return self.ex_bin(e, c, expect)
        if k == 'index':
            return self.ex_index(e, c)
        if k == 'mcall':
            return self.ex_mcall(e, c)
        if k == 'call':
            return self.ex_call(e, c)
        if k == 'try':
            bad('`?` outside the statement `state.push(..)?;`', line)
        if k == 'range':
            bad('range expression here', line)
        if k == 'matchexpr':
            bad('`match` as a value outside an `if` condition', line)
        bad('expression form %s' % k, line)

    def ex_pair(self, a, b, c, expect=None):
        """both operands of a binary operator whose operands have one type: an unsuffixed literal takes the type of the
        other side (else of the context)"""
        if ints.literalish(a) and not ints.literalish(b):
            rb = self.ex(b, c, expect)
            return self.ex(a, c, rb[2] if ints.is_int(rb[2]) else expect), rb
        ra_ = self.ex(a, c, expect)
        return ra_, self.ex(b, c, ra_[2] if ints.is_int(ra_[2]) and ints.literalish(b) else expect)

    def ex_bin(self, e, c, expect=None):
        _, op, a, b, line = e
        # option_flags & OPTION_X   /   (that) != 0
        if op == '&' and is_path(a, 'option_flags') and b[0] == 'path' and len(b[1]) == 1 and b[1][0].startswith('OPTION_'):
            if b[1][0] != 'OPTION_SKIPPED_EMPTY_MATCH' or not self.have_skip_flag:
                bad('option flag `%s` (only OPTION_SKIPPED_EMPTY_MATCH is modelled)' % b[1][0], line)
            return [], 'OPTION_SKIPPED_EMPTY_MATCH', 'flagtest'
        if op in ('<<', '>>'):
            if ints.literalish(a) and not ints.is_int(expect):
                bad('`%s` on an integer literal whose type is not evident here' % op, line)
            (pa, l, tl), (pb, r, tr) = self.ex(a, c, expect), self.ex(b, c)
            if not (ints.is_int(tl) and ints.is_int(tr)):
                bad('`%s` between %s and %s' % (op, tl, tr), line)
            return pa + pb, ints.shift(op, l, r, tl), tl
        (pa, l, tl), (pb, r, tr) = self.ex_pair(a, b, c, expect if op in ('+', '*', '-', '|', '&', '^') else None)
        if tl == 'flagtest':
            if op not in ('!=', '==') or r != '0' or b[0] != 'int':
                bad('an option-flag test must be `option_flags & FLAG != 0` or `== 0`', line)
            return [], '(optionSkippedEmptyMatch bc)' if op == '!=' else '(!optionSkippedEmptyMatch bc)', 'bool'
        if op in ('|', '&', '^') and ints.is_int(tl):
            if tl != tr:
                bad('`%s` between %s and %s' % (op, tl, tr), line)
            return pa + pb, ints.bitop(op, l, r), tl
        if op in ('||', '&&', '|', '&'):
            self.want(tl, 'bool', 'left operand of `%s`' % op, line)
            self.want(tr, 'bool', 'right operand of `%s`' % op, line)
            if op in ('||', '&&') and pb:
                bad('the right operand of `%s` can panic: allowed only directly in an `if` condition' % op, line)
            return pa + pb, '(%s %s %s)' % (l, '||' if op in ('||', '|') else '&&', r), 'bool'
        if op in ('==', '!='):
            if tl != tr or not (tl == 'bool' or ints.is_int(tl)):
                bad('`%s` between %s and %s' % (op, tl, tr), line)
            return pa + pb, '(%s %s %s)' % (l, op, r), 'bool'
        if op in ('<', '<=', '>', '>='):
            if tl != tr or not ints.is_int(tl):
                bad('`%s` between %s and %s' % (op, tl, tr), line)
            return pa + pb, '(decide (%s %s %s))' % (l, {'<': '<', '<=': '≤', '>': '>', '>=': '≥'}[op], r), 'bool'
        if op in ('+', '*', '-'):
            if tl != tr or not ints.is_int(tl):
                bad('`%s` between %s and %s' % (op, tl, tr), line)
            if op == '-':
                h, t = self.hoist('checkedSub %s %s' % (l, r), c, 'sub')
                return pa + pb + [h], t, tl
            return pa + pb, ints.arith(op, l, r, tl), tl
        bad('operator `%s`' % op, line)

    def ex_index(self, e, c):
        _, base, idx, line = e
        if idx[0] == 'range':
            pb, b, tb = self.ex(base, c)
            if tb != 'str':
                bad('range index on a value of type %s (only `&s[lo..hi]` on a `&str`)' % tb, line)
            (p1, lo, t1), (p2, hi, t2) = self.ex(idx[1], c), self.ex(idx[2], c)
            self.want(t1, 'usize', 'start of the range', line)
            self.want(t2, 'usize', 'end of the range', line)
            h, t = self.hoist('slice %s %s %s' % (b, lo, hi), c, 'slice')
            return pb + p1 + p2 + [h], t, 'str'
        pb, b, tb = self.ex(base, c)
        pi, i, ti = self.ex(idx, c)
        self.want(ti, 'usize', 'index', line)
        if tb == 'bytes':
            h, t = self.hoist('%s[%s]?' % (b, i), c, 'index')
            return pb + pi + [h], t, 'u8'
        if tb == 'VecOptNonMax':
            h, t = self.hoist('%s[%s]?' % (b, i), c, 'index')
            return pb + pi + [h], t, 'OptNonMax'
        bad('indexing a value of type %s' % tb, line)

    def args_of(self, args, c, wants, what, line):
        if len(args) != len(wants):
            bad('%s takes %d argument(s)' % (what, len(wants)), line)
        pre, out = [], []
        for a, w in zip(args, wants):
            p, s, t = self.ex(a, c)
            self.want(t, w, 'argument of ' + what, line)
            pre += p
            out.append(s)
        return pre, out

    def ex_call(self, e, c):
        _, path, args, line = e
        if path == ['Input', 'new']:
            pre, a = self.args_of(args, c, [('str',)], 'Input::new', line)
            return pre, '(RaInput.new %s)' % a[0], 'Input'
        if path == ['codepoint_len_at']:
            pre, a = self.args_of(args, c, ['str', 'usize'], 'codepoint_len_at', line)
            h, t = self.hoist('codepoint_len_at %s %s' % tuple(a), c, 'index')
            return pre + [h], t, 'usize'
        if path == ['prev_codepoint_ix']:
            if not self.have_prev_codepoint_ix:
                bad('`prev_codepoint_ix` is called but `use crate::prev_codepoint_ix;` is missing', line)
            pre, a = self.args_of(args, c, ['str', 'usize'], 'prev_codepoint_ix', line)
            h, t = self.hoist('prev_codepoint_ix %s %s' % tuple(a), c, 'prev_codepoint_ix')
            return pre + [h], t, 'usize'
        if path == ['matches_literal']:
            pre, a = self.args_of(args, c, ['str', 'usize', 'usize', 'str'], 'matches_literal', line)
            return pre, '(matches_literal %s %s %s %s)' % tuple(a), 'bool'
        bad('call of `%s`' % '::'.join(path), line)

    def ex_mcall(self, e, c):
        _, recv, m, args, line = e
        # state.<method>
        if is_path(recv, 'state') and c.types.get('state') == 'State':
            if m == 'get':
                pre, a = self.args_of(args, c, ['usize'], 'state.get', line)
                h, t = self.hoist('State.get state %s' % a[0], c, 'get')
                return pre + [h], t, 'usize'
            if m == 'backtrack_count' and not args:
                return [], '(State.backtrackCount state)', 'usize'
            bad('`state.%s(..)` inside an expression' % m, line)
        if recv[0] == 'field' and is_path(recv[1], 'state') and c.types.get('state') == 'State':
            if recv[2] == 'saves' and m == 'get':
                pre, a = self.args_of(args, c, ['usize'], 'state.saves.get', line)
                return pre, '(state.saves[%s]?)' % a[0], 'OptUsize'
            if recv[2] == 'stack' and m == 'is_empty' and not args:
                return [], 'state.stack.isEmpty', 'bool'
            bad('`state.%s.%s(..)`' % (recv[2], m), line)
        # look_matcher.<method>(s.as_bytes(), ix)
        if is_path(recv, 'look_matcher') and c.types.get('look_matcher') == 'LookMatcher':
            if m not in LOOK_METHODS:
                bad('`look_matcher.%s` is not a LookMatcher method of the prelude' % m, line)
            pre, a = self.args_of(args, c, ['bytes', 'usize'], 'look_matcher.' + m, line)
            call = '%s bc %s %s' % (m, a[0], a[1])
            if LOOK_METHODS[m]:
                return pre, '(%s)' % call, 'ResultBool'
            h, t = self.hoist(call, c, 'look')
            return pre + [h], t, 'bool'
        pre, r, t = self.ex(recv, c)
        if ints.is_int(t) and m in ints.METHODS:
            if len(args) != 1:
                bad('`.%s(..)` takes one argument' % m, line)
            kind = ints.METHODS[m]
            pa, a, ta = self.ex(args[0], c, t if kind[1] == 'same' else kind[1])
            self.want(ta, t if kind[1] == 'same' else kind[1], 'argument of `.%s`' % m, line)
            if kind[2] == 'opt':
                if t != 'usize':
                    bad('`.%s(..)` on a value of type %s (an Option of it has no counterpart here)' % (m, t), line)
                return pre + pa, ints.method(m, r, a, t), 'OptUsize'
            return pre + pa, ints.method(m, r, a, t), t
        if t in OPTION_ELEM and m == 'unwrap_or' and len(args) == 1 and OPTION_ELEM[t] in LEAN_TYPES:
            pa, a, ta = self.ex(args[0], c, OPTION_ELEM[t])
            self.want(ta, OPTION_ELEM[t], 'argument of `.unwrap_or`', line)
            return pre + pa, '(Option.getD %s %s)' % (r, a), ta
        if t in OPTION_ELEM and m == 'map_or' and len(args) == 2 and args[1][0] == 'closure':
            # `o.map_or(d, |x| e)` = `match o { None => d, Some(x) => e }`; `d` is evaluated first (it is an argument)
            pd, d, td = self.ex(args[0], c)
            _, x, body, cline = args[1]
            cb = self.bind(c, x, OPTION_ELEM[t], False, cline)
            pb, bt, tb = self.ex(body, cb, td)
            if pb:
                bad('the closure of `.map_or` can panic', cline)
            self.want(tb, td, 'value of the closure of `.map_or`', cline)
            if td not in LEAN_TYPES:
                bad('`.map_or` with a value of type %s' % td, line)
            return pre + pd, '(match %s with | none => %s | some %s => %s)' % (r, d, vid(x), bt), td
        if t == 'ResultBool' and m == 'unwrap' and not args:
            h, tv = self.hoist(r, c, 'look')
            return pre + [h], tv, 'bool'
        if t == 'OptNonMax' and m == 'unwrap' and not args:
            h, tv = self.hoist(r, c, 'unwrap')
            return pre + [h], tv, 'NonMax'
        if t == 'NonMax' and m == 'get' and not args:
            return pre, r, 'usize'
        if t == 'HalfMatch' and m == 'offset' and not args:
            return pre, r, 'usize'
        if t in OPTION_ELEM and m == 'is_some' and not args:
            return pre, '(Option.isSome %s)' % r, 'bool'
        if t in OPTION_ELEM and m == 'is_none' and not args:
            return pre, '(Option.isNone %s)' % r, 'bool'
        if t == 'str' and m == 'len' and not args:
            return pre, '%s.length' % r, 'usize'
        if t == 'str' and m == 'as_bytes' and not args:
            return pre, r, 'bytes'
        if t == 'Input' and m == 'span':
            if len(args) != 1 or args[0][0] != 'range':
                bad('`.span(..)` with something other than a range `a..b`', line)
            (p1, lo, t1), (p2, hi, t2) = self.ex(args[0][1], c), self.ex(args[0][2], c)
            self.want(t1, 'usize', 'start of the span', line)
            self.want(t2, 'usize', 'end of the span', line)
            return pre + p1 + p2, '(RaInput.span %s %s %s)' % (r, lo, hi), 'Input'
        if t == 'Input' and m == 'anchored':
            if len(args) == 1 and args[0][0] == 'path' and args[0][1] in (['Anchored', 'Yes'], ['Anchored', 'No']):
                return pre, '(RaInput.setAnchored %s %s)' % (r, 'true' if args[0][1][1] == 'Yes' else 'false'), 'Input'
            bad('`.anchored(..)` with something other than Anchored::Yes / Anchored::No', line)
        if t == 'Regex' and m == 'search_half':
            p2, a = self.args_of(args, c, ['Input'], 'search_half', line)
            h, tv = self.hoist('search_half bc state %s %s' % (r, a[0]), c, 'search')
            return pre + p2 + [h], tv, 'OptHalfMatch'
        if t == 'Regex' and m == 'search_slots':
            if len(args) != 2 or args[1][0] != 'refmut' or args[1][1][0] != 'path' or len(args[1][1][1]) != 1:
                bad('`search_slots` takes `&input, &mut slots`', line)
            v = args[1][1][1][0]
            if c.types.get(v) != 'VecOptNonMax' or v not in c.mutable or v in c.captured:
                bad('`&mut %s`: not a mutable Vec<Option<NonMaxUsize>> of this scope' % v, line)
            p2, a = self.args_of(args[:1], c, ['Input'], 'search_slots', line)
            tv = self.fresh()
            h = ('search_slots bc state %s %s %s' % (r, a[0], vid(v)), 'none', self.panic(c, 'search'),
                 'some (%s, %s)' % (tv, vid(v)))
            return pre + p2 + [h], tv, 'OptPid'
        bad('method call `.%s(…)` on a value of type %s' % (m, t), line)

    # ---- conditions: `if cond { A } else { B }` as a decision tree (short-circuit order; the parts that can panic are
    #      evaluated exactly when Rust evaluates them). kt / kf: (ind) -> lines
    def has_pre(self, e, c):
        saved = self.tmpn
        try:
            if e[0] == 'matchexpr':
                return True
            if e[0] in ('paren', 'not'):
                return self.has_pre(e[1], c)
            if e[0] == 'bin' and e[1] in ('&&', '||'):
                return self.has_pre(e[2], c) or self.has_pre(e[3], c)
            pre, _, _ = self.ex(e, c)
            return bool(pre)
        finally:
            self.tmpn = saved

    def cond(self, e, c, ind, kt, kf):
        k, line = e[0], e[-1]
        if k == 'paren':
            return self.cond(e[1], c, ind, kt, kf)
        if k == 'not':
            return self.cond(e[1], c, ind, kf, kt)
        if k == 'bin' and e[1] in ('&&', '||') and (self.has_pre(e[2], c) or self.has_pre(e[3], c)):
            if e[1] == '&&':
                return self.cond(e[2], c, ind, lambda i2: self.cond(e[3], c, i2, kt, kf), kf)
            return self.cond(e[2], c, ind, kt, lambda i2: self.cond(e[3], c, i2, kt, kf))
        if k == 'matchexpr':
            return self.cond_match(e, c, ind, kt, kf)
        pre, txt, t = self.ex(e, c)
        self.want(t, 'bool', 'condition', line)
        out, ind2 = self.emit_pre(pre, ind)
        return out + [ind2 + 'if %s then' % txt] + kt(ind2 + '  ') + [ind2 + 'else'] + kf(ind2 + '  ')

    def cond_match(self, e, c, ind, kt, kf):
        """`match assertion { Assertion::V => <bool expr>, … }` in a condition"""
        _, scrut, arms, line = e
        if not (scrut[0] == 'path' and len(scrut[1]) == 1 and c.types.get(scrut[1][0]) == 'Assertion'):
            bad('`match` as a condition on something other than a variable of type Assertion', line)
        seen, out = set(), [ind + 'match %s with' % vid(scrut[1][0])]
        for pats, body, aline in arms:
            for pat in pats:
                key = self.assertion_key(pat)
                if key in seen:
                    bad('`Assertion::%s` matched twice' % key[0], aline)
                seen.add(key)
                out.append(ind + '| %s =>' % ASSERTION_PATTERNS[key])
                out += self.cond(body, c, ind + '  ', kt, kf)
        missing = [k2 for k2 in ASSERTION_PATTERNS if k2 not in seen]
        if missing:
            bad('the match on the assertion does not cover %s' % ', '.join('%s%s' % (a, '' if b is None else ' {crlf: %s}' % str(b).lower())
                                                                           for a, b in missing), line)
        return out

    def assertion_key(self, pat):
        if pat[0] != 'variant' or pat[1] != 'Assertion':
            bad('pattern in the match on the assertion is not `Assertion::V` (a `_` arm is not in the subset)', pat[-1])
        _, _, v, shape, items, rest, pline = pat
        decl = {n: (sh, fs) for n, sh, fs in ASSERTION_ENUM}
        if v not in decl:
            bad('`Assertion::%s` is not a variant in the translator\'s table' % v, pline)
        if decl[v][0] == 'unit':
            if shape != 'unit':
                bad('`Assertion::%s` is a unit variant' % v, pline)
            return (v, None)
        if shape != 'struct' or rest or set(items) != {'crlf'} or not items['crlf'] or items['crlf'][0] != 'lit':
            bad('`Assertion::%s` must be matched as `{ crlf: true }` / `{ crlf: false }`' % v, pline)
        return (v, items['crlf'][1])

    # ---- statements, continuation-passing: `k(c, ind)` yields the lines of what follows
    def bind(self, c, name, tag, mut, line, shadow=False):
        if (name in c.types and not (shadow and c.types[name] in LEAN_TYPES and name not in c.captured)) or clash_rs(name) \
                or name in self.names:
            bad('`let %s` shadows a name of an enclosing scope / a parameter (only an earlier `let` of the same block may be shadowed)' % name, line)
        c2 = c.copy()
        c2.types[name] = tag
        c2.mutable.discard(name)
        if mut:
            c2.mutable.add(name)
        return c2

    def assignable(self, c, name, line):
        if name not in c.types or name not in c.mutable:
            bad('assignment to `%s`, which is not a `let mut` local' % name, line)
        if name in c.captured:
            bad('assignment to `%s` inside a loop body (only pc, ix and the state may change in a loop)' % name, line)

    def state_call(self, e, c):
        """`state.m(args)` used for its effect -> (pre, scrutinee, op, extra bound names) or None"""
        if e[0] != 'mcall' or not is_path(e[1], 'state') or c.types.get('state') != 'State':
            return None
        m, args, line = e[2], e[3], e[-1]
        table = {'save': (['usize', 'usize'], 'State.save state %s %s'), 'stack_push': (['usize'], 'State.stackPush state %s'),
                 'backtrack_cut': (['usize'], 'State.backtrackCut state %s'), 'stack_pop': ([], 'State.stackPop state'),
                 'pop': ([], 'State.pop state'), 'push': (['usize', 'usize'], 'State.push state %s %s')}
        if m not in table:
            return None
        pre, a = self.args_of(args, c, table[m][0], 'state.' + m, line)
        return pre, table[m][1] % tuple(a), m

    def block(self, stmts, c, ind, k):
        if not stmts:
            return k(c, ind)
        ints.mark_shadow_lets(stmts, self)
        s, rest = stmts[0], stmts[1:]
        kind, line = s[0], s[-1]
        cont = lambda c2, ind2: self.block(rest, c2, ind2, k)

        def last():
            if rest:
                bad('statement after `%s`' % kind, rest[0][-1])

        def after_branch(c_inner, ind2):
            return cont(c, ind2)       # block-local names go out of scope

        if kind == 'let':
            _, name, mut, ty, e, _ = s
            sc = self.state_call(e, c)
            if sc and sc[2] == 'stack_pop':
                pre, scrut, op = sc
                c2 = self.bind(c, name, 'usize', mut, line, ints.shadow_ok(self, s))
                out, i2 = self.emit_pre(pre + [(scrut, 'none', self.panic(c, op), 'some (state, %s)' % vid(name))], ind)
                return out + cont(c2, i2)
            if sc:
                bad('`let %s = state.%s(..)`' % (name, sc[2]), line)
            if ty is not None and not (ints.is_int(ty) or ty == 'bool'):
                bad('`let` with a type annotation other than an integer type / bool', line)
            pre, txt, t = self.ex(e, c, ty)
            if t not in LEAN_TYPES:
                bad('`let %s` of a value of type %s' % (name, t), line)
            if ty is not None:
                self.want(t, ty, 'initialiser of `let %s: %s`' % (name, ty), line)
            c2 = self.bind(c, name, t, mut, line, ints.shadow_ok(self, s))
            if pre and pre[-1][3] == 'some ' + txt and re.match(r't[0-9]+$', txt):
                pre = pre[:-1] + [pre[-1][:3] + ('some ' + vid(name),)]      # bind the value directly
                out, i2 = self.emit_pre(pre, ind)
                return out + cont(c2, i2)
            out, i2 = self.emit_pre(pre, ind)
            return out + [i2 + 'let %s : %s := %s' % (vid(name), LEAN_TYPES[t], txt)] + cont(c2, i2)
        if kind == 'lettuple':
            _, names, e, _ = s
            sc = self.state_call(e, c)
            if not sc or sc[2] != 'pop' or len(names) != 2:
                bad('tuple `let` of something other than `let (a, b) = state.pop();`', line)
            pre, scrut, op = sc
            c2 = c
            for n in names:
                if n:
                    c2 = self.bind(c2, n, 'usize', False, line)
            out, i2 = self.emit_pre(pre + [(scrut, 'none', self.panic(c, op),
                                            'some (state, %s, %s)' % tuple(vid(n) if n else '_' for n in names))], ind)
            return out + cont(c2, i2)
        if kind == 'assign':
            _, target, op, e, _ = s
            if target[0] != 'path' or len(target[1]) != 1:
                bad('assignment to something other than a local variable', line)
            tname = target[1][0]
            self.assignable(c, tname, line)
            ttype = c.types[tname]
            if self.state_call(e, c):
                bad('`%s = state.%s(..)`' % (tname, e[2]), line)
            if op in ('<<=', '>>='):
                pre, txt, t = self.ex(e, c)
                if not (ints.is_int(ttype) and ints.is_int(t)):
                    bad('`%s %s` between %s and %s' % (tname, op, ttype, t), line)
                txt = ints.shift(op[:2], vid(tname), txt, ttype)
            else:
                pre, txt, t = self.ex(e, c, ttype)
                self.want(t, ttype, 'right-hand side of `%s %s`' % (tname, op), line)
            if op in ('+=', '*=', '-=', '|=', '&=', '^='):
                if not (ints.is_int(ttype) or (ttype == 'bool' and op in ('|=', '&='))):
                    bad('`%s` on a variable of type %s' % (op, ttype), line)
                if ttype == 'bool':
                    txt = '(%s %s %s)' % (vid(tname), '||' if op == '|=' else '&&', txt)
                elif op == '-=':
                    h, txt = self.hoist('checkedSub %s %s' % (vid(tname), txt), c, 'sub')
                    pre = pre + [h]
                elif op in ('+=', '*='):
                    txt = ints.arith(op[0], vid(tname), txt, ttype)
                else:
                    txt = ints.bitop(op[0], vid(tname), txt)
            out, i2 = self.emit_pre(pre, ind)
            return out + [i2 + 'let %s : %s := %s' % (vid(tname), LEAN_TYPES[ttype], txt)] + cont(c, i2)
        if kind == 'expr':
            e = s[1]
            if e[0] == 'try':
                sc = self.state_call(e[1], c)
                if not sc or sc[2] != 'push':
                    bad('`?` on something other than `state.push(pc, ix)`', line)
                if self.mode != 'step':
                    bad('`?` in the fail handler', line)
                pre, scrut, op = sc
                out, i2 = self.emit_pre(pre + [(scrut, '.overflow', self.done('.errStack'), '.ok state')], ind)
                return out + cont(c, i2)
            sc = self.state_call(e, c)
            if sc:
                pre, scrut, op = sc
                if op not in ('save', 'stack_push', 'backtrack_cut'):
                    bad('`state.%s(..)` as a statement%s' % (op, ' without `?`' if op == 'push' else ' (its value is dropped)'), line)
                out, i2 = self.emit_pre(pre + [(scrut, 'none', self.panic(c, op), 'some state')], ind)
                return out + cont(c, i2)
            if e[0] == 'mcall' and e[2] == 'resize' and e[1][0] == 'path' and len(e[1][1]) == 1:
                v = e[1][1][0]
                if c.types.get(v) != 'VecOptNonMax':
                    bad('`%s.resize(..)` on something that is not a Vec<Option<NonMaxUsize>>' % v, line)
                self.assignable(c, v, line)
                if len(e[3]) != 2 or not is_path(e[3][1], 'None'):
                    bad('`resize` with a fill value other than `None`', line)
                pre, n, t = self.ex(e[3][0], c)
                self.want(t, 'usize', 'first argument of resize', line)
                out, i2 = self.emit_pre(pre, ind)
                return out + [i2 + 'let %s : List (Option Nat) := vecResize %s %s none' % (vid(v), vid(v), n)] + cont(c, i2)
            bad('expression statement that is not a `state` method call or `inner_slots.resize(n, None)`', line)
        if kind == 'if':
            _, cnd, th, el, _ = s
            return self.cond(cnd, c, ind, lambda i2: self.block(th, c.copy(), i2, after_branch),
                             lambda i2: self.block(el or [], c.copy(), i2, after_branch))
        if kind in ('iflet', 'match'):
            if kind == 'iflet':
                _, pat, e, th, el, _ = s
                arms = [([pat], th, line), ([('wild', line)], el or [], line)]
            else:
                _, e, arms, _ = s
            pre, txt, t = self.ex(e, c)
            if t not in OPTION_ELEM:
                bad('`%s` on a value of type %s (only on an Option)' % ('if let' if kind == 'iflet' else 'match', t), line)
            out, i2 = self.emit_pre(pre, ind)
            out.append(i2 + 'match %s with' % txt)
            got = []
            for pats, body, aline in arms:
                if len(pats) != 1:
                    bad('or-pattern', aline)
                p = pats[0]
                if p[0] == 'some':
                    if 'some' in got or 'none' in got:
                        bad('`Some(..)` arm after the option is exhausted', aline)
                    got.append('some')
                    cb = self.bind(c, p[1], OPTION_ELEM[t], False, aline) if p[1] else c.copy()
                    out.append(i2 + '| some %s =>' % (vid(p[1]) if p[1] else '_'))
                    out += self.block(body, cb, i2 + '  ', after_branch)
                elif p[0] in ('none', 'wild'):
                    if 'none' in got:
                        bad('unreachable arm', aline)
                    if p[0] == 'wild' and 'some' not in got:
                        bad('`_` arm before `Some(..)`', aline)
                    got.append('none')
                    out.append(i2 + '| none =>')
                    out += self.block(body, c.copy(), i2 + '  ', after_branch)
                else:
                    bad('pattern on an Option that is not `Some(x)` / `None` / `_`', aline)
            if sorted(got) != ['none', 'some']:
                bad('the match on an Option does not have exactly a `Some(x)` arm and a `None` / `_` arm', line)
            return out
        if kind == 'for':
            _, var, it, body, _ = s
            if c.loop:
                bad('nested loop', line)
            if it[0] == 'paren':
                it = it[1]
            if it[0] != 'range':
                bad('`for` over something other than a range `a..b`', line)
            (p1, lo, t1), (p2, hi, t2) = self.ex(it[1], c), self.ex(it[2], c)
            self.want(t1, 'usize', 'start of the range', line)
            self.want(t2, 'usize', 'end of the range', line)
            name, call = self.new_loop(c, 'for', var, body, line)
            out, i2 = self.emit_pre(p1 + p2, ind)
            out += [i2 + 'match %s (%s - %s) %s pc ix state with' % (call, hi, lo, lo), i2 + '| .cont pc ix state =>']
            return out + cont(c, i2 + '  ') + [i2 + '| r => r']
        if kind == 'loop':
            _, label, body, _ = s
            if c.loop:
                bad('nested loop', line)
            if label:
                bad('labelled loop inside an arm', line)
            if c.arm not in LOOP_FUEL:
                bad('`loop` in arm `%s`: the translator has no termination measure for it (LOOP_FUEL)' % c.arm, line)
            name, call = self.new_loop(c, 'loop', None, body, line)
            out = [ind + 'match %s (%s) pc ix state with' % (call, LOOP_FUEL[c.arm]), ind + '| .cont pc ix state =>']
            return out + cont(c, ind + '  ') + [ind + '| r => r']
        if kind == 'break':
            last()
            if s[1] is None:
                if not c.loop:
                    bad('`break` outside a `for` / `loop` body', line)
                return [ind + '.cont pc ix state']       # leaves the loop: the loop function returns the locals
            if s[1] != "'fail" or self.mode != 'step':
                bad('`break %s`' % s[1], line)
            return [ind + '.fail state']
        if kind == 'continue':
            last()
            if c.loop or self.mode != 'step':
                bad('`continue` inside a `for` / `loop` body', line)
            return [ind + '.cont pc ix state']
        if kind == 'return':
            last()
            return [ind + self.ret_value(s[1], c, line)]
        bad('statement form %s' % kind, line)

    def ret_value(self, e, c, line):
        if e[0] == 'call' and e[1] == ['Ok'] and len(e[2]) == 1:
            a = e[2][0]
            if is_path(a, 'None'):
                return self.done('.noMatch')
            if a[0] == 'call' and a[1] == ['Some'] and len(a[2]) == 1 and a[2][0][0] == 'field' and is_path(a[2][0][1], 'state') \
                    and a[2][0][2] == 'saves':
                return self.done('.matched state.saves')
            bad('`return Ok(..)` of something other than `None` / `Some(state.saves)`', line)
        if e[0] == 'call' and e[1] == ['Err'] and len(e[2]) == 1:
            a = e[2][0]
            if a[0] == 'call' and a[1] == ['Error', 'RuntimeError'] and len(a[2]) == 1 and a[2][0][0] == 'path':
                x = a[2][0][1]
                if x == ['RuntimeError', 'BacktrackLimitExceeded']:
                    return self.done('.errLimit')
                if x == ['RuntimeError', 'StackOverflow']:
                    return self.done('.errStack')
            bad('`return Err(..)` of something other than Error::RuntimeError(RuntimeError::BacktrackLimitExceeded | StackOverflow)', line)
        bad('`return` of something other than `Ok(..)` / `Err(..)`', line)

    # ---- loops -> auxiliary recursive functions; the locals that change are pc, ix, state (they travel in `.cont`)
    def free_names(self, x, out):
        if isinstance(x, tuple):
            if x and x[0] == 'path' and isinstance(x[1], list) and len(x[1]) == 1:
                out.append(x[1][0])
            for y in x[1:]:
                self.free_names(y, out)
        elif isinstance(x, list):
            for y in x:
                self.free_names(y, out)
        elif isinstance(x, dict):
            for y in x.values():
                self.free_names(y, out)
        return out

    def new_loop(self, c, kind, var, body, line):
        base = 'loop' + c.arm
        name, n = base, 1
        while name in self.names:
            n += 1
            name = base + str(n)
        self.names.add(name)
        cap = []
        for v in self.free_names(body, []):
            if v in c.types and v not in ('pc', 'ix', 'state', 's', 'pos') and LEAN_TYPES.get(c.types[v]) and v not in cap:
                cap.append(v)
        cap.sort()               # the parameter order does not depend on the order of the statements
        cl = c.copy()
        cl.loop = kind
        cl.captured = set(cap)
        params = ''.join(' (%s : %s)' % (vid(v), LEAN_TYPES[c.types[v]]) for v in cap)
        call = '%s bc s pos%s' % (name, ''.join(' ' + vid(v) for v in cap))
        ind = '    '
        if kind == 'for':
            iv = var if var != '_' else 'i_'
            cl = self.bind(cl, iv, 'usize', False, line) if var != '_' else cl
            lines = ['def %s (bc : BCtx) (s : Bytes) (pos : Nat)%s : Nat → Nat → Nat → Nat → State → StepResult' % (name, params),
                     '  | 0, %s, pc, ix, state => .cont pc ix state' % iv,
                     '  | n + 1, %s, pc, ix, state =>' % iv]
            lines += self.block(body, cl, ind, lambda c2, i2: [i2 + '%s n (%s + 1) pc ix state' % (call, iv)])
            doc = 'the `for` loop of the `%s` arm: the number of iterations left, the loop variable, then the locals' % c.arm
        else:
            lines = ['def %s (bc : BCtx) (s : Bytes) (pos : Nat)%s : Nat → Nat → Nat → State → StepResult' % (name, params),
                     '  | 0, pc, ix, state => .done .outOfFuel',
                     '  | fuel + 1, pc, ix, state =>']
            lines += self.block(body, cl, ind, lambda c2, i2: [i2 + '%s fuel pc ix state' % call])
            doc = 'the `loop` of the `%s` arm, with fuel (`break` = `.cont`)' % c.arm
        self.defs.append((doc, lines))
        return name, call

    # ---- the function
    def check_helpers(self):
        toks = self.toks
        tops = top_level_positions(toks)
        for name, text in HELPER_TEXTS.items():
            want = text.split()
            for i in tops:
                if toks[i].text == 'fn' and toks[i + 1].text == name:
                    got = [x.text for x in toks[i:i + len(want)]]
                    if got != want:
                        k = next(j for j in range(len(want)) if j >= len(got) or got[j] != want[j])
                        bad('fn %s differs from the text the prelude\'s `%s` was written for (at `%s`, expected `%s`)' % (
                            name, name, got[k] if k < len(got) else '<eof>', want[k]), toks[min(i + k, len(toks) - 1)].line)
                    break
            else:
                bad('cannot find `fn %s`' % name)
        self.have_prev_codepoint_ix = find_seq(toks, ['use', 'crate', '::', 'prev_codepoint_ix', ';']) in tops
        i = find_seq(toks, ['const', 'OPTION_SKIPPED_EMPTY_MATCH', ':', 'u32', '='])
        self.have_skip_flag = i >= 0 and (i in tops or i - 4 in tops)     # `pub(crate) const`

    def run(self):
        toks = self.toks
        decl = parse_enum(toks, 'Insn')
        table = [(v, shape, fs) for v, shape, fs, _ in VARIANTS]
        if decl != table:
            bad('enum Insn (vm.rs) differs from the translator\'s variant table:\n  declared: %s\n  table:    %s' % (
                [d for d in decl if d not in table], [d for d in table if d not in decl]))
        adecl = parse_enum(self.lib_toks, 'Assertion')
        if adecl != ASSERTION_ENUM:
            bad('enum Assertion (lib.rs) differs from the translator\'s table:\n  declared: %s\n  table:    %s' % (
                [d for d in adecl if d not in ASSERTION_ENUM], [d for d in ASSERTION_ENUM if d not in adecl]))
        self.check_helpers()
        fi = find_seq(toks, RUN_SIG)
        if fi < 0 or fi not in top_level_positions(toks):
            bad('cannot find `pub(crate) fn run(prog: &Prog, s: &str, pos: usize, option_flags: u32, options: &RegexOptions,) '
                '-> Result<Option<Vec<usize>>>`')
        p = Parser(toks, fi + len(RUN_SIG) - 1)
        body = p.block()
        self.skeleton(body, toks[fi].line)

    def expect_let(self, s, name, mut, check, what):
        if s[0] != 'let' or s[1] != name or s[2] != mut or not check(s[4], s[3]):
            bad('fn run: expected `%s`' % what, s[-1])

    def skeleton(self, body, fline):
        """`run`: the `let`s before the outer loop (the six the machine is made of, in any order - they are independent - and
        any number of further immutable `let`s of pure integer / boolean values over the parameters), then the outer `loop`"""
        if not body or body[-1][0] != 'loop':
            bad('fn run: the last statement is not the outer `loop`', body[-1][-1] if body else fline)
        call = lambda path, args: lambda e, ty: e[0] == 'call' and e[1] == path and len(e[2]) == len(args) and all(f(a) for f, a in zip(args, e[2]))
        isp = lambda *n: lambda a: is_path(a, *n)
        intlit = lambda e, ty: (e[0] == 'int' and (ty is None or ints.is_int(ty)) and ints.fits(e[1], ty or 'usize')) or \
            (e[0] == 'tint' and ints.is_int(e[2]) and ints.fits(e[1], e[2]) and ty in (None, e[2]))
        required = {
            'state': (True, lambda e, ty: ty is None and call(['State', 'new'], [
                lambda a: a[0] == 'field' and is_path(a[1], 'prog') and a[2] == 'n_saves', isp('MAX_STACK'), isp('option_flags')])(e, ty),
                'let mut state = State::new(prog.n_saves, MAX_STACK, option_flags);'),
            'inner_slots': (True, lambda e, ty: ty == 'Vec<Option<NonMaxUsize>>' and call(['Vec', 'new'], [])(e, ty),
                            'let mut inner_slots: Vec<Option<NonMaxUsize>> = Vec::new();'),
            'look_matcher': (False, lambda e, ty: ty is None and call(['LookMatcher', 'new'], [])(e, ty), 'let look_matcher = LookMatcher::new();'),
            'backtrack_count': (True, intlit, 'let mut backtrack_count[: <integer type>] = <integer>;'),
            'pc': (True, lambda e, ty: ty in (None, 'usize') and e[0] == 'int', 'let mut pc = <integer>;'),
            'ix': (True, lambda e, ty: ty in (None, 'usize') and is_path(e, 'pos'), 'let mut ix = pos;'),
        }
        found, extras = {}, []
        for st in body[:-1]:
            if st[0] != 'let':
                bad('fn run: a statement before the outer loop that is not a plain `let`', st[-1])
            if st[1] in required:
                if st[1] in found:
                    bad('fn run: `let %s` twice' % st[1], st[-1])
                self.expect_let(st, st[1], required[st[1]][0], required[st[1]][1], required[st[1]][2])
                found[st[1]] = st
            else:
                extras.append(st)
        for name in required:
            if name not in found:
                bad('fn run: expected `%s` before the outer loop' % required[name][2], fline)
        bc_let = found['backtrack_count']
        self.init_backtrack_count, self.init_pc = bc_let[4][1], found['pc'][4][1]
        counter_type = bc_let[3] or (bc_let[4][2] if bc_let[4][0] == 'tint' else 'usize')
        base = Ctx()
        base.types = {'s': 'str', 'pos': 'usize', 'option_flags': 'Flags', 'options': 'Options'}
        # further immutable `let`s: values of the parameters only (they are re-computed where they are used)
        self.extras = []
        for st in extras:
            _, name, mut, ty, e, line = st
            if mut:
                bad('fn run: a further `let mut %s` before the outer loop (the machine has exactly pc, ix, state, inner_slots, '
                    'backtrack_count)' % name, line)
            self.extras.append((name, ty, e, line, set(self.free_names(e, []))))
        base.types.update({'pc': 'usize', 'ix': 'usize', 'state': 'State', 'look_matcher': 'LookMatcher', 'prog': 'Prog',
                           'inner_slots': 'VecOptNonMax', 'backtrack_count': counter_type})
        outer = body[-1]
        if outer[0] != 'loop' or outer[1] is not None:
            bad('fn run: the last statement is not the outer `loop`', outer[-1])
        ob = outer[2]
        if not ob or ob[0][0] != 'loop' or ob[0][1] != "'fail":
            bad("fn run: the outer loop does not start with `'fail: loop { … }`", outer[-1])
        inner = ob[0][2]
        if not inner or inner[0][0] != 'match':
            bad("fn run: the `'fail` loop does not start with `match prog.body[pc] { … }`", ob[0][-1])
        m = inner[0]
        sc = m[1]
        if not (sc[0] == 'index' and sc[1][0] == 'field' and is_path(sc[1][1], 'prog') and sc[1][2] == 'body' and is_path(sc[2], 'pc')):
            bad('the match scrutinee is not `prog.body[pc]`', m[-1])
        base.mutable = {'pc', 'ix', 'inner_slots'}
        self.arms(m[2], inner[1:], base, m[-1])
        # the fail handler
        self.mode = 'fail'
        self.tmpn = 0
        c = base.copy()
        c.arm = 'OnFail'
        c.mutable = {'pc', 'ix', 'backtrack_count'}
        del c.types['inner_slots']
        lines = ['def genOnFail (o : VMOpts) (pc ix : Nat) (state : State) (backtrack_count : Nat) : FailResult :=']
        c, pl = self.with_extras(c, ob[1:])
        lines += ['  ' + l for l in pl]
        lines += self.block(ob[1:], c, '  ', lambda c2, i2: [i2 + '.resume pc ix state backtrack_count'])
        self.defs.append(("what follows `break 'fail` in the outer loop", lines))
        self.mode = 'step'

    def with_extras(self, c, code):
        """the further `let`s of `run` that `code` uses (transitively): -> (context with them, their Lean `let` lines)"""
        used, need = set(self.free_names(code, [])), []
        for name, ty, e, line, fv in reversed(self.extras):
            if name in used:
                need.append(name)
                used |= fv
        if not need:
            return c, []
        cx = Ctx()
        cx.arm = c.arm
        cx.types = {k: v for k, v in c.types.items() if k in ('s', 'pos', 'option_flags', 'options')}
        lines = []
        for name, ty, e, line, fv in self.extras:
            if name not in need:
                continue
            if ty is not None and not (ints.is_int(ty) or ty == 'bool'):
                bad('`let %s: %s` before the outer loop' % (name, ty), line)
            pre, txt, t = self.ex(e, cx, ty)
            if pre:
                bad('`let %s` before the outer loop: its value can panic' % name, line)
            if ty is not None:
                self.want(t, ty, 'initialiser of `let %s: %s`' % (name, ty), line)
            if not (ints.is_int(t) or t == 'bool'):
                bad('`let %s` before the outer loop of a value of type %s' % (name, t), line)
            cx = self.bind(cx, name, t, False, line)
            c = self.bind(c, name, t, False, line)
            lines.append('let %s : %s := %s' % (vid(name), LEAN_TYPES[t], txt))
        return c, lines

    def arms(self, arms, after, base, mline):
        table = {v: (shape, fs, tmpl) for v, shape, fs, tmpl in VARIANTS}
        seen, step = set(), []
        for pats, body, aline in arms:
            first = None
            for pat in pats:
                if pat[0] != 'variant' or pat[1] != 'Insn':
                    bad('arm of the instruction match that is not `Insn::V …` (a `_` arm is not in the subset)', pat[-1])
                _, _, v, shape, items, rest, pline = pat
                if v not in table:
                    bad('`Insn::%s` is not a variant in the translator\'s table' % v, pline)
                if v in seen:
                    bad('`Insn::%s` is matched twice' % v, pline)
                seen.add(v)
                tshape, tfields, tmpl = table[v]
                if tshape != shape:
                    bad('`Insn::%s` is a %s variant' % (v, tshape), pline)
                keys = [str(i) for i in range(len(tfields))] if tshape == 'tuple' else [f for f, _ in tfields]
                ftypes = dict(zip(keys, tfields if tshape == 'tuple' else [t for _, t in tfields]))
                binds = {}
                if tshape == 'tuple':
                    if len(items) > len(keys) or (len(items) < len(keys) and not rest):
                        bad('`Insn::%s(…)`: wrong number of fields' % v, pline)
                    for i, b in enumerate(items):
                        if b:
                            binds[str(i)] = b
                elif tshape == 'struct':
                    for f, b in items.items():
                        if f not in keys:
                            bad('`Insn::%s` has no field `%s`' % (v, f), pline)
                        if b:
                            binds[f] = b
                    if not rest and set(items) != set(keys):
                        bad('`Insn::%s { … }` without `..` does not name every field' % v, pline)
                for key, b in binds.items():
                    if b[0] != 'bind':
                        bad('literal sub-pattern in `Insn::%s`' % v, pline)
                if len(pats) > 1 and binds:
                    bad('bindings inside an or-pattern', pline)
                c = base.copy()
                c.arm = first or v
                pat_args, adapt, params, pargs = {}, [], [], []
                for key in keys:
                    if (v, key) in NO_MODEL_FIELD:
                        if key in binds:
                            bad('`Insn::%s`: field `%s` has no counterpart in the model and must not be bound' % (v, key), pline)
                        continue
                    if key not in binds:
                        pat_args[key] = '_'
                        continue
                    b = binds[key][1]
                    if b in c.types or clash_rs(b):
                        bad('pattern binding `%s` shadows a name in scope' % b, pline)
                    if ftypes[key] not in FIELD_TAGS:
                        bad('field type `%s`' % ftypes[key], pline)
                    c.types[b] = FIELD_TAGS[ftypes[key]]
                    if (v, key) in FIELD_ADAPTORS:
                        pat_args[key] = b + '_m'
                        params.append('(%s_m : %s)' % (b, FIELD_ADAPTORS[(v, key)][0]))
                        adapt.append((b, key))
                    else:
                        pat_args[key] = vid(b)
                        params.append('(%s : %s)' % (vid(b), LEAN_TYPES[c.types[b]]))
                    pargs.append(pat_args[key])
                for b, key in adapt:
                    others = {k2: vid(binds[k2][1]) for k2 in binds if k2 != key}
                    try:
                        val = FIELD_ADAPTORS[(v, key)][1].format(m=b + '_m', **others)
                    except KeyError as ke:
                        bad('`Insn::%s`: the adaptor of field `%s` needs field %s, which the pattern does not bind' % (v, key, ke), pline)
                    c.prelets = getattr(c, 'prelets', []) + ['let %s : %s := %s' % (vid(b), LEAN_TYPES[c.types[b]], val)]
                lean_pat = tmpl.format(*[pat_args.get(str(i), '_') for i in range(len(keys))],
                                       **{k2: v2 for k2, v2 in pat_args.items() if not k2.isdigit()})
                if first is None:
                    first = v
                    uses_slots = 'inner_slots' in self.free_names(body, [])
                    name = 'arm' + v
                    self.names.add(name)
                    self.tmpn = 0
                    sl = ' (inner_slots : List (Option Nat))' if uses_slots else ''
                    lines = ['def %s (bc : BCtx) (s : Bytes) (pos : Nat) (pc ix : Nat) (state : State)%s%s : StepResult :=' % (
                        name, sl, ''.join(' ' + x for x in params))]
                    lines += ['  ' + l for l in getattr(c, 'prelets', [])]
                    c, pl = self.with_extras(c, [body, after])
                    lines += ['  ' + l for l in pl]
                    if not uses_slots:
                        del c.types['inner_slots']
                    ndefs = len(self.defs)
                    lines += self.block(body, c, '  ', lambda c2, i2: self.block(after, c2, i2, lambda c3, i3: [i3 + '.cont pc ix state']))
                    self.defs.append(('the arm `Insn::%s` (vm.rs line %d)' % (v, aline), lines))
                step.append('  | %s => %s bc bc.text bc.pos pc ix state%s%s' % (
                    lean_pat, name, ' %s' % self.init_slots if uses_slots else '', ''.join(' ' + x for x in pargs)))
        for v, _, _, _ in VARIANTS:
            if v not in seen:
                bad('`Insn::%s` is not covered by any arm of the match' % v, mline)
        self.step_lines = step

    init_slots = '[]'

    def render(self):
        L = []
        L.append('/- generated by tools/rs2lean_vm.py from src/vm.rs — do not edit -/')
        L.append('import FancyModel.GenVMPrelude')
        L.append('/-!')
        L.append('# The interpreter loop `vm::run` (src/vm.rs), translated statement by statement')
        L.append('')
        L.append('One definition per arm of `match prog.body[pc]`: the same statements in the same order, as nested `let`s; an')
        L.append('assignment shadows; every operation that can panic is a `match` whose `none` arm is the panic outcome, evaluated')
        L.append('exactly where Rust evaluates it (`&&` / `||` short-circuit); `break \'fail` is `.fail state`, `continue` and falling')
        L.append('out of the arm (then `pc += 1`) are `.cont pc ix state`, `return` is `.done`; `for` / `loop` bodies are auxiliary')
        L.append('recursive functions. `s` is the text (its bytes), `state` the `State`. The adaptors (what is not taken from the')
        L.append('Rust text) are in GenVMPrelude.lean. Proofs/C05f.lean proves `genStep` equal to the hand-written byte-level machine.')
        L.append('-/')
        L.append('set_option linter.unusedVariables false')
        L.append('namespace Fancy.GenVM')
        L.append('open Utf8')
        L.append('')
        for doc, lines in self.defs:
            L.append('/-- %s -/' % doc)
            L += lines
            L.append('')
        L.append("/-- one pass through the body of the `'fail` loop: `match prog.body[pc] { … } pc += 1;` -/")
        L.append('def genStep (bc : BCtx) (prog : List Insn) (pc ix : Nat) (state : State) : StepResult :=')
        L.append('  match prog[pc]? with')
        L.append('  | none => .done (.panic "%s")' % PROG_INDEX_SITE)
        L.append('  | some insn =>')
        L.append('  match insn with')
        L += self.step_lines
        L.append('')
        L.append('/-- `run`: the locals as initialised before the outer loop (`MAX_STACK` is `o.maxStack`), then the loop -/')
        L.append('def genRun (bc : BCtx) (p : Prog) (o : VMOpts) (fuel : Nat) : Outcome × Stats :=')
        L.append('  let state : State := State.new p.nSaves o.maxStack')
        L.append('  let backtrack_count : Nat := %d' % self.init_backtrack_count)
        L.append('  let pc : Nat := %d' % self.init_pc)
        L.append('  let ix : Nat := bc.pos')
        L.append('  driveLoop (genStep bc p.body) (genOnFail o) fuel pc ix state { steps := 0, backtracks := backtrack_count, maxDepth := 0 }')
        L.append('')
        L.append('end Fancy.GenVM')
        return '\n'.join(L) + '\n'


def translate(src_path, lib_path):
    tr = Translator(tokenize(open(src_path).read()), tokenize(open(lib_path).read(), lib_path))
    tr.run()
    return tr.render()


def main(argv):
    src = os.environ.get('RS2LEAN_VM_SRC', DEFAULT_SRC)
    out = os.environ.get('RS2LEAN_VM_OUT', DEFAULT_OUT)
    lib = os.environ.get('RS2LEAN_LIB_SRC')
    args, pos, stub_on_failure = list(argv), [], False
    while args:
        a = args.pop(0)
        if a == '-o':
            out = args.pop(0)
        elif a == '--lib':
            lib = args.pop(0)
        elif a == '--stub-on-failure':
            stub_on_failure = True
        elif a in ('-h', '--help'):
            print(__doc__)
            return 0
        else:
            pos.append(a)
    if len(pos) > 1:
        print('rs2lean_vm.py: too many arguments')
        return 2
    if pos:
        src = pos[0]
    if lib is None:
        sib = os.path.join(os.path.dirname(os.path.abspath(src)), 'lib.rs')
        lib = sib if os.path.exists(sib) else '/repo/src/lib.rs'
    failure = None
    try:
        text = translate(src, lib)
    except Unsupported as e:
        where = '%s:%s: ' % (src, e.line) if e.line else '%s: ' % src
        failure = 'rs2lean_vm.py: NOT TRANSLATED - %s%s' % (where, e.msg)
    except Exception as e:                  # whatever goes wrong inside the translator is a refusal: never a stale file
        failure = 'rs2lean_vm.py: NOT TRANSLATED - %s: %s: %r' % (src, type(e).__name__, e)
    if failure is not None:
        print(failure)
        if not stub_on_failure or out == '-':
            return 2
        # (tools/extract.py) The source uses a construct outside the translator's subset. That concerns the one proof that
        # reads the translation (Proofs/C05f.lean), not every property: leave a file that does not compile and says why, so
        # that only that proof obligation is reported broken, and carry on.
        stub = ('/- tools/rs2lean_vm.py could not translate src/vm.rs (exit 2):\n%s\n-/\n'
                'namespace Fancy.GenVM\n'
                'theorem translator_could_not_read_vm_rs : False := by\n'
                '  exact translation_failed   -- deliberately unresolved: see the comment above\n'
                'end Fancy.GenVM\n') % failure.replace('-/', '- /')[-1500:]
        old = open(out).read() if os.path.exists(out) else ''
        if old != stub:
            with open(out, 'w') as f:
                f.write(stub)
        print('rs2lean_vm.py: src/vm.rs is not translated; %s now holds a failing stub (Proofs/C05f will not build)' % os.path.basename(out))
        return 0
    if out == '-':
        sys.stdout.write(text)
        return 0
    old = open(out).read() if os.path.exists(out) else None
    if old != text:
        with open(out, 'w') as f:
            f.write(text)
    print('rs2lean_vm.py: ok (%s -> %s%s)' % (src, out, '' if old != text else ', unchanged'))
    return 0


if __name__ == '__main__':
    sys.exit(main(sys.argv[1:]))
