#!/usr/bin/env python3
"""Sensitivity of the printer tie (tools/rs2lean_tostr.py + lean/FancyModel/Proofs/C17c.lean).

For the unmutated /repo/src/lib.rs, hand-made mutations, meaning-preserving controls and every seeded/*/*/patch.diff whose text
mentions `to_str`, `push_quoted`, `is_special`, `escape` or `push_usize`: translate a scratch COPY of the source into a scratch
GeneratedToStr.lean, compile it (module TsScratch.GeneratedToStr), and elaborate a copy of Proofs/C17c.lean in which only the
import line `import FancyModel.GeneratedToStr` is redirected to it. Nothing under /repo or /verif/lean is written.

usage: rs2lean_tostr_sensitivity.py [--work DIR] [--only SUBSTRING-OF-THE-CASE-NAME]      (default /tmp/tssens)
"""
import glob, os, re, shutil, subprocess, sys

VERIF = os.path.dirname(os.path.dirname(os.path.abspath(__file__)))
LEAN = os.path.join(VERIF, 'lean')
SRC = '/repo/src/lib.rs'
TRANSLATOR = os.path.join(VERIF, 'tools', 'rs2lean_tostr.py')
PROOF = os.path.join(LEAN, 'FancyModel', 'Proofs', 'C17c.lean')


def sh(cmd, **kw):
    return subprocess.run(cmd, stdout=subprocess.PIPE, stderr=subprocess.STDOUT, text=True, **kw)


def once(text, old, new, what):
    if text.count(old) != 1:
        sys.exit('mutation %s: the text to replace occurs %d times' % (what, text.count(old)))
    return text.replace(old, new)


def first(text, old, new, what):
    if text.count(old) < 1:
        sys.exit('mutation %s: the text to replace does not occur' % what)
    return text.replace(old, new, 1)


def mutations(src):
    if src.count('if precedence > 1 {') != 2:
        sys.exit('mutation a: expected two `if precedence > 1 {`')
    yield ('(a) to_str, Concat: the precedence test `> 1` -> `> 2`', src.replace('if precedence > 1 {', 'if precedence > 2 {'))
    yield ('(b) to_str, Alt: the separator test `i != 0` -> `i != 1`', once(src, '                    if i != 0 {', '                    if i != 1 {', 'b'))
    yield ('(c) to_str, Repeat: `{n,}` / `{n,m}` loses the comma', once(src, "                            buf.push(',');\n", '', 'c'))
    d1 = "                if !greedy {\n                    buf.push('?');\n                }\n"
    yield ('(d) to_str, Repeat: the lazy `?` written before the quantifier',
           once(once(src, d1, '', 'd1'), '                match (lo, hi) {\n', d1 + '                match (lo, hi) {\n', 'd2'))
    yield ('(e) to_str, Any { newline: true } prints `.`', once(src, 'if newline { "(?s:.)" } else { "." }', 'if newline { "." } else { "." }', 'e'))
    yield ('(f) to_str, Literal: the case-insensitive wrapper `(?i:` -> `(?:`', first(src, 'buf.push_str("(?i:");', 'buf.push_str("(?:");', 'f'))
    yield ('(g) escape: counts with `!is_special`', once(src, '.filter(|&b| is_special(b as char))', '.filter(|&b| !is_special(b as char))', 'g'))
    yield ('(h) push_usize: seeded C03/f, `(x % 10) as u8` -> `x as u8 % 10`',
           once(src, "s.push((b'0' + (x % 10) as u8) as char);", "s.push((b'0' + x as u8 % 10) as char);", 'h'))
    yield ('(i) push_usize: `x >= 10` -> `x > 10`', once(src, '    if x >= 10 {\n        push_usize', '    if x > 10 {\n        push_usize', 'i'))
    yield ("(j) is_special: `'#'` removed (the regenerated table Generated.isSpecial of the real source keeps it)",
           once(src, "'^' | '$'\n        | '#' => true,", "'^' | '$' => true,", 'j'))
    yield ('(k) push_quoted: the backslash after the character',
           once(src, "        if is_special(c) {\n            buf.push('\\\\');\n        }\n        buf.push(c);\n",
                "        buf.push(c);\n        if is_special(c) {\n            buf.push('\\\\');\n        }\n", 'k'))
    yield ('(l) to_str, Group: the child printed at precedence 1', once(src, '                child.to_str(buf, 0);', '                child.to_str(buf, 1);', 'l'))
    yield ('(m) to_str, Repeat: `(0, 1) => ?` -> `(1, 1) => ?`', once(src, "(0, 1) => buf.push('?'),", "(1, 1) => buf.push('?'),", 'm'))
    yield ('(n) to_str: a hard variant printed instead of panicking (`Expr::KeepOut => buf.push_str("\\\\K")`)',
           once(src, '            _ => panic!("attempting to format hard expr"),', '            Expr::KeepOut => buf.push_str("\\\\K"),\n            _ => panic!("attempting to format hard expr"),', 'n'))
    yield ('(control) to_str: the arms `Assertion::StartText` / `Assertion::EndText` swapped (same meaning)',
           once(src, "            Expr::Assertion(Assertion::StartText) => buf.push('^'),\n            Expr::Assertion(Assertion::EndText) => buf.push('$'),\n",
                "            Expr::Assertion(Assertion::EndText) => buf.push('$'),\n            Expr::Assertion(Assertion::StartText) => buf.push('^'),\n", 'o'))
    yield ('(control) comments and blank lines added (same meaning)',
           once(src, '                child.to_str(buf, 3);\n', '                // the repeated expression\n\n                child.to_str(buf, /* atom */ 3);\n', 'p'))
    yield ("(control) to_str, Concat: `buf.push(')')` written as `buf.push_str(\")\")` (same meaning)",
           once(src, "                if precedence > 1 {\n                    buf.push(')')\n                }", '                if precedence > 1 {\n                    buf.push_str(")")\n                }', 'q'))
    # ---- the widened subset
    isp = '''    match c {
        '\\\\' | '.' | '+' | '*' | '?' | '(' | ')' | '|' | '[' | ']' | '{' | '}' | '^' | '$'
        | '#' => true,
        _ => false,
    }'''
    yield ('(refactor, same meaning) is_special written with `matches!` (the same fifteen characters)',
           once(src, isp, '''    matches!(
        c,
        '\\\\' | '.' | '+' | '*' | '?' | '(' | ')' | '|' | '[' | ']' | '{' | '}' | '^' | '$' | '#'
    )''', 'w1'))
    yield ('(o) is_special written with `matches!`, `|` forgotten (seeded C17/b)',
           once(src, isp, '''    matches!(
        c,
        '\\\\' | '.' | '+' | '*' | '?' | '(' | ')' | '[' | ']' | '{' | '}' | '^' | '$' | '#'
    )''', 'w2'))
    yield ('(refactor, same meaning) escape: the test moved to a new helper `fn is_special_byte(b: u8) -> bool { is_special(b as char) }`',
           once(once(src, '.filter(|&b| is_special(b as char))', '.filter(|&b| is_special_byte(b))', 'w3'),
                'fn push_quoted(buf: &mut String, s: &str) {', 'fn is_special_byte(b: u8) -> bool {\n    is_special(b as char)\n}\n\nfn push_quoted(buf: &mut String, s: &str) {', 'w3b'))
    yield ('(refactor, same meaning) escape: the closure bound to a local first, `let special = |b: &u8| { is_special(*b as char) };` … `.filter(special)`',
           once(src, '    match text.bytes().filter(|&b| is_special(b as char)).count() {',
                '    let special = |b: &u8| { is_special(*b as char) };\n    match text.bytes().filter(special).count() {', 'w4'))
    yield ('(control) escape: the local `n` renamed to `acc` (a name the generated code uses itself: renamed apart; same meaning)',
           once(once(src, '        n => {\n', '        acc => {\n', 'w5'), 'String::with_capacity(text.len() + n);', 'String::with_capacity(text.len() + acc);', 'w5b'))
    yield ('(rejected?) push_usize written with `to_string()`',
           once(src, '    if x >= 10 {\n        push_usize(s, x / 10);', '    if x >= 10 {\n        s.push_str(&(x / 10).to_string());', 'r'))

def locate(line):
    """the theorem of Proofs/C05f.lean that contains a line"""
    src = open(PROOF).read().split('\n')
    for k in range(min(line, len(src)) - 1, -1, -1):
        m = re.match(r"^(?:private )?(?:theorem|def|example)\s*([A-Za-z_][A-Za-z0-9_.']*)?", src[k])
        if m:
            return '`%s`' % (m.group(1) or 'example')
    return '?'


def main():
    work = '/tmp/tssens'
    if '--work' in sys.argv:
        work = sys.argv[sys.argv.index('--work') + 1]
    shutil.rmtree(work, ignore_errors=True)
    os.makedirs(work)
    lean_path = sh(['lake', 'env', 'printenv', 'LEAN_PATH'], cwd=LEAN).stdout.strip().split('\n')[-1]
    lean_bin = sh(['lake', 'env', 'which', 'lean'], cwd=LEAN).stdout.strip().split('\n')[-1]
    src = open(SRC).read()
    cases = [('unmutated /repo/src/lib.rs', {'lib.rs': src})] + [(n, {'lib.rs': t}) for n, t in mutations(src)]
    for p in sorted(glob.glob(os.path.join(VERIF, 'seeded', '*', '*', 'patch.diff'))):
        if not re.search(r'to_str|push_quoted|is_special|escape|push_usize', open(p).read()):
            continue
        d = os.path.join(work, 'patch')
        shutil.rmtree(d, ignore_errors=True)
        shutil.copytree('/repo/src', os.path.join(d, 'src'))
        r = sh(['patch', '-p1', '-s', '-f', '-i', p], cwd=d)
        name = 'seeded/' + os.path.relpath(os.path.dirname(p), os.path.join(VERIF, 'seeded'))
        if r.returncode != 0:
            cases.append((name, None))
            continue
        cases.append((name, {'lib.rs': open(os.path.join(d, 'src', 'lib.rs')).read(), 'vm.rs': open(os.path.join(d, 'src', 'vm.rs')).read()}))
    if '--only' in sys.argv:
        cases = cases[:1] + [x for x in cases[1:] if sys.argv[sys.argv.index('--only') + 1] in x[0]]
    base_gen = None
    rows = []
    for i, (name, files) in enumerate(cases):
        d = os.path.join(work, 'c%02d' % i)
        os.makedirs(os.path.join(d, 'lib', 'TsScratch'))
        if files is None:
            rows.append((name, 'patch does not apply', '-', ''))
            continue
        os.makedirs(os.path.join(d, 'src'))
        for fn in ('lib.rs', 'vm.rs'):
            open(os.path.join(d, 'src', fn), 'w').write(files.get(fn) or open('/repo/src/' + fn).read())
        rs_ = os.path.join(d, 'src', 'lib.rs')
        os.makedirs(os.path.join(d, 'root', 'TsScratch'))
        gen = os.path.join(d, 'root', 'TsScratch', 'GeneratedToStr.lean')
        r = sh([sys.executable, TRANSLATOR, rs_, '-o', gen])
        if r.returncode != 0:
            rows.append((name, 'REJECTED (exit %d)' % r.returncode, '-', r.stdout.strip().split('\n')[-1].replace(rs_, 'lib.rs')))
            continue
        g = open(gen).read()
        if base_gen is None:
            base_gen = g
        same = (re.sub(r'line \d+', 'line N', g) == re.sub(r'line \d+', 'line N', base_gen))      # up to the line numbers in the doc comments
        if same and i:
            rows.append((name, 'accepted, generated Lean identical (up to line numbers)', 'proof HOLDS', 'the change is outside the translated functions' if name.startswith('seeded') else ''))
            continue
        env = dict(os.environ, LEAN_PATH=os.path.join(d, 'lib') + ':' + lean_path)
        r = sh([lean_bin, '--root=' + os.path.join(d, 'root'), '-o', os.path.join(d, 'lib', 'TsScratch', 'GeneratedToStr.olean'), gen],
               env=env, cwd=os.path.join(d, 'root'))
        if r.returncode != 0:
            rows.append((name, 'accepted', 'generated file does not compile', r.stdout.strip().split('\n')[0]))
            continue
        proof = os.path.join(d, 'root', 'TsScratch', 'C17c.lean')
        ptext = open(PROOF).read()
        if ptext.count('import FancyModel.GeneratedToStr\n') != 1:
            sys.exit('C17c.lean does not import FancyModel.GeneratedToStr exactly once')
        open(proof, 'w').write(ptext.replace('import FancyModel.GeneratedToStr\n', 'import TsScratch.GeneratedToStr\n'))
        r = sh([lean_bin, '--root=' + os.path.join(d, 'root'), proof], env=env, cwd=os.path.join(d, 'root'))
        errs = [l for l in r.stdout.split('\n') if ': error' in l]
        if r.returncode == 0 and not errs:
            rows.append((name, 'accepted', 'proof HOLDS', ''))
        else:
            where = sorted({l.split(':')[1] for l in errs if l.count(':') > 2 and l.split(':')[1].isdigit()}, key=int)
            thms = []
            for w in where:
                t = locate(int(w))
                if t not in thms:
                    thms.append(t)
            rows.append((name, 'accepted', 'proof FAILS', '%d error(s): %s' % (len(errs), ', '.join(thms[:3]) + (' …' if len(thms) > 3 else ''))))
    print('| source | translator | Proofs/C17c.lean | detail |')
    print('|---|---|---|---|')
    for r in rows:
        print('| %s | %s | %s | %s |' % r)
    return 0


if __name__ == '__main__':
    sys.exit(main())
