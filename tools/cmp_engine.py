#!/usr/bin/env python3
"""scratch comparer (superseded by check)"""
import collections, sys
d=sys.argv[1]
req=open(d+'/req.txt').read().split('\n'); imp=open(d+'/impl.txt').read().split('\n'); mod=open(d+'/model.txt').read().split('\n')
cnt=collections.Counter(); shown=collections.Counter()
note=None; flags=''
LIM=int(sys.argv[2]) if len(sys.argv)>2 else 12
for r,i,m in zip(req,imp,mod):
    op=r.split('\t')[0]
    if op=='note': note=bytes.fromhex(r.split('\t')[1]).decode() if r.split('\t')[1]!='-' else ''; continue
    if op=='pat':
        flags=m
        same = i.split()[:2]==m.split()[:2]
        cnt['pat_ok' if same else 'pat_DIFF']+=1
        if not same and shown['pat']<LIM: shown['pat']+=1; print('PAT',repr(note),i,'|',m)
    elif op in('facts','prog'):
        same=i==m
        cnt[op+('_ok' if same else '_DIFF')]+=1
        if not same and shown[op]<LIM: shown[op]+=1; print(op.upper(),repr(note),'\n  impl ',i,'\n  model',m)
    elif op=='caps':
        if m=='unmodelled': cnt['unmodelled']+=1; continue
        mi=i.split('\t'); mm=m.split('\t')
        if len(mm)<3: cnt['caps_bad:'+m]+=1; continue
        same=mi[0]==mm[0]
        cnt['caps_ok' if same else 'caps_DIFF']+=1
        if not same and shown['caps']<LIM: shown['caps']+=1; print('CAPS',repr(note),r.split('\t')[1:3],'impl',mi[0],'model',mm[0],'ref',mm[2],flags)
        st = mi[1]==mm[1]
        cnt['stats_ok' if st else 'stats_DIFF']+=1
        if same and not st and shown['st']<LIM: shown['st']+=1; print('STATS',repr(note),r.split('\t')[1:3],mi[1],mm[1])
        dom = all(x in flags for x in ['ws=1','closed=1','nel=1','ncl=1'])
        if dom:
            rs = mi[0]==mm[2]
            cnt['ref_ok' if rs else 'ref_DIFF']+=1
            if not rs and shown['ref']<LIM: shown['ref']+=1; print('REF',repr(note),r.split('\t')[1:3],'impl',mi[0],'ref',mm[2])
        else: cnt['offdom']+=1
print(dict(cnt))
