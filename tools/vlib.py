#!/usr/bin/env python3
"""Shared machinery of ./check: build steps, sharded sessions (harness -> driver), line diff,
known findings, replay files, evidence."""
import collections, concurrent.futures, hashlib, json, os, re, shutil, subprocess, sys, time

VERIF = os.path.dirname(os.path.dirname(os.path.abspath(__file__)))
LEAN = os.path.join(VERIF, 'lean')
HARNESS = os.path.join(VERIF, 'harness')
WORK = os.path.join(VERIF, 'work')
DRIVER = os.path.join(LEAN, '.lake', 'build', 'bin', 'fmdriver')
FMPARSE = os.path.join(LEAN, '.lake', 'build', 'bin', 'fmparse')
HBIN = os.path.join(HARNESS, 'target', 'release', 'fvharness')
NSHARDS = int(os.environ.get('VERIF_SHARDS', '16'))
ENV = dict(os.environ, CARGO_NET_OFFLINE='true')

ALLOWED_AXIOMS = {'propext', 'Classical.choice', 'Quot.sound'}


def sh(cmd, cwd=None, timeout=None, check=True):
    r = subprocess.run(cmd, cwd=cwd, shell=isinstance(cmd, str), stdout=subprocess.PIPE, stderr=subprocess.STDOUT,
                       text=True, env=ENV, timeout=timeout)
    if check and r.returncode != 0:
        raise RuntimeError('command failed: %s\n%s' % (cmd, r.stdout[-4000:]))
    return r


def unhex(h):
    return '' if h == '-' else bytes.fromhex(h).decode('utf-8', 'replace')


# ------------------------------------------------------------------------------------------ builds

def build_harness():
    """rebuild the harness (and with it /repo's current working tree, hooks on)"""
    shutil.copyfile('/repo/Cargo.lock', os.path.join(HARNESS, 'Cargo.lock'))
    r = sh('cargo build --release --offline 2>&1 | tail -40', cwd=HARNESS, check=False)
    if not os.path.exists(HBIN) or 'error' in r.stdout and 'Finished' not in r.stdout:
        return False, r.stdout
    return True, r.stdout


def regenerate():
    """regenerate Generated.lean from /repo's source"""
    r = sh([sys.executable, os.path.join(VERIF, 'tools', 'extract.py')], check=False)
    return r.returncode == 0, r.stdout


def lake_build(targets):
    r = sh(['lake', 'build'] + targets, cwd=LEAN, check=False)
    return r.returncode == 0, r.stdout


def proof_modules(prop):
    """the proof files of a property: Proofs/<prop>.lean and Proofs/<prop><lowercase suffix>.lean (e.g. C13b.lean)"""
    d = os.path.join(LEAN, 'FancyModel', 'Proofs')
    # files being written right now (one basename per line in Proofs/.wip, never committed non-empty) are not yet part of the check
    wip = set()
    if os.path.exists(os.path.join(d, '.wip')):
        wip = set(l.strip() for l in open(os.path.join(d, '.wip')) if l.strip())
    own = [f[:-5] for f in os.listdir(d)
           if re.fullmatch(re.escape(prop) + r'([a-z][A-Za-z0-9]*)?\.lean', f) and f not in wip]
    # theorems of this property stated in another property's file (one refinement or one translation serves several
    # properties: `C07_terminates_s3` lives in C01d.lean, `C14_builder_translated` in C09b.lean): those files are built and
    # their `<prop>_*` theorems audited under this property too
    guest = []
    for f in os.listdir(d):
        if re.fullmatch(r'C\d\d([a-z][A-Za-z0-9]*)?\.lean', f) and f not in wip and f[:-5] not in own:
            try:
                if re.search(r'^theorem\s+' + re.escape(prop) + r'_', open(os.path.join(d, f)).read(), re.M):
                    guest.append(f[:-5])
            except OSError:
                pass
    return sorted(own) + sorted(guest)


def import_closure(mods):
    """source files of the Lean library reachable (transitively, through `import FancyModel...`) from the given modules"""
    seen, todo = {}, list(mods)
    while todo:
        m = todo.pop()
        if m in seen:
            continue
        path = os.path.join(LEAN, *m.split('.')) + '.lean'
        if not os.path.exists(path):
            continue
        src = open(path).read()
        seen[m] = src
        todo += re.findall(r'^import\s+(FancyModel\.\S+)', src, re.M)
    return seen


def forbidden_everywhere(mods=None):
    """forbidden constructs (outside comments) in every source file the given proof modules depend on
    (default: the whole library)"""
    bad = []
    if mods is None:
        srcs = {}
        for root, _, files in os.walk(os.path.join(LEAN, 'FancyModel')):
            for f in files:
                if f.endswith('.lean') and not f.startswith('_audit_'):
                    srcs[f] = open(os.path.join(root, f)).read()
    else:
        srcs = import_closure(mods)
    for f, src in sorted(srcs.items()):
        code = re.sub(r'/-.*?-/', '', src, flags=re.S)
        code = re.sub(r'--.*', '', code)
        for w in ['sorry', 'admit', 'native_decide', 'bv_decide', 'implemented_by', 'unsafe ']:
            if re.search(r'(?<![A-Za-z0-9_.])' + re.escape(w.strip()) + r'(?![A-Za-z0-9_])', code):
                bad.append('%s in %s' % (w.strip(), f))
        if re.search(r'maxHeartbeats\s+0\b', code):
            bad.append('maxHeartbeats 0 in %s' % f)
        bad += ['%s in %s' % (a, f) for a in re.findall(r'^axiom\s+\S+', code, re.M)]
    return bad


def audit(prop, module=None):
    """obligations of a property = theorems named <prop>_* in the proof module (default Proofs/<prop>.lean);
    discharged = those whose axioms are within the allowed set. Returns (list of (name, axioms, ok)), forbidden, raw"""
    module = module or prop
    src_path = os.path.join(LEAN, 'FancyModel', 'Proofs', module + '.lean')
    src = open(src_path).read()
    names = re.findall(r'^theorem\s+(' + prop + r'_[A-Za-z0-9_\']+)', src, re.M)
    # forbidden constructs outside comments
    code = re.sub(r'/-.*?-/', '', src, flags=re.S)
    code = re.sub(r'--.*', '', code)
    forbidden = [w for w in ['sorry', 'admit', 'native_decide', 'bv_decide', 'implemented_by', 'unsafe ']
                 if w in code]
    forbidden += ['maxHeartbeats 0'] if re.search(r'maxHeartbeats\s+0\b', code) else []
    forbidden += re.findall(r'^axiom\s+\S+', code, re.M)
    # the namespace each theorem is declared in
    full_names = {}
    stack = []
    for line in src.split('\n'):
        m = re.match(r'^namespace\s+(\S+)', line)
        if m:
            stack.append(m.group(1))
            continue
        m = re.match(r'^end\s+(\S+)', line)
        if m and stack and stack[-1] == m.group(1):
            stack.pop()
            continue
        m = re.match(r'^theorem\s+(' + prop + r'_[A-Za-z0-9_\']+)', line)
        if m:
            full_names[m.group(1)] = '.'.join(stack + [m.group(1)])
    audit_file = os.path.join(LEAN, 'FancyModel', 'Proofs', '_audit_' + module + '.lean')
    with open(audit_file, 'w') as f:
        f.write('import FancyModel.Proofs.%s\n' % module)
        for n in names:
            f.write('#print axioms %s\n' % full_names.get(n, n))
    r = sh(['lake', 'env', 'lean', audit_file], cwd=LEAN, check=False)
    os.remove(audit_file)
    out = r.stdout
    res = []
    for n in names:
        full = full_names.get(n, n)
        m = re.search(r"'" + re.escape(full) + r"' (does not depend on any axioms|depends on axioms: \[([^\]]*)\])", out, re.S)
        if not m:
            res.append((n, None, False))
            continue
        axs = [] if m.group(2) is None else [a.strip() for a in m.group(2).replace('\n', ' ').split(',') if a.strip()]
        res.append((n, axs, all(a in ALLOWED_AXIOMS for a in axs)))
    return res, forbidden, out


# ------------------------------------------------------------------------------------------ sessions

def run_shard(args):
    cmd, shard, outdir, need_driver = args
    driver = DRIVER
    if need_driver == 'parse':
        driver = FMPARSE
    d = os.path.join(outdir, 's%d' % shard)
    os.makedirs(d, exist_ok=True)
    full = [HBIN] + cmd + ['--shard', '%d/%d' % (shard, NSHARDS), '--out', d]
    # watchdog: on the unchanged tree a quick shard takes seconds; a shard that does not finish is a search (or a
    # compilation) that does not terminate within any reasonable budget - reported with the pattern it was working on
    budget = int(os.environ.get('VERIF_SHARD_TIMEOUT', '7200' if 'thorough' in cmd else '900'))
    try:
        r = subprocess.run(full, stdout=subprocess.PIPE, stderr=subprocess.STDOUT, text=True, timeout=budget)
    except subprocess.TimeoutExpired:
        cur = os.path.join(d, 'current.txt')
        extra = ''
        if os.path.exists(cur):
            extra = ' while processing: ' + open(cur, errors='replace').read()[:300]
        return d, 'harness process died (did not finish within %d s: non-terminating or extremely slow call)%s' % (budget, extra)
    if r.returncode != 0:
        cur = os.path.join(d, 'current.txt')
        extra = ''
        if os.path.exists(cur):
            extra = ' while processing: ' + open(cur, errors='replace').read()[:300]
        return d, 'harness process died (exit status %s)%s %s' % (r.returncode, extra, r.stdout[-1500:])
    if need_driver:
        with open(os.path.join(d, 'req.txt')) as fin, open(os.path.join(d, 'model.txt'), 'w') as fout:
            if driver == FMPARSE:
                # the parser model recurses on the native stack: give it room for the deep-nesting probes
                r2 = subprocess.run('ulimit -s unlimited 2>/dev/null || ulimit -s 1000000 2>/dev/null; exec "%s"' % driver,
                                    shell=True, stdin=fin, stdout=fout, stderr=subprocess.PIPE, text=True)
            else:
                r2 = subprocess.run([driver], stdin=fin, stdout=fout, stderr=subprocess.PIPE, text=True)
        if r2.returncode != 0:
            return d, 'driver failed: ' + r2.stderr[-2000:]
    return d, None


def run_session(name, cmd, need_driver=True):
    """run harness command `cmd` in NSHARDS shards, then the driver on each; returns shard dirs"""
    outdir = os.path.join(WORK, name)
    shutil.rmtree(outdir, ignore_errors=True)
    os.makedirs(outdir)
    with concurrent.futures.ThreadPoolExecutor(max_workers=NSHARDS) as ex:
        res = list(ex.map(run_shard, [(cmd, i, outdir, need_driver) for i in range(NSHARDS)]))
    errs = [e for _, e in res if e]
    if errs:
        raise RuntimeError(errs[0])
    return [d for d, _ in res]


def read_session(dirs):
    """yield (req, impl, model) triples with the current note (pattern string)"""
    for d in dirs:
        with open(os.path.join(d, 'req.txt')) as fr, open(os.path.join(d, 'impl.txt')) as fi, \
                open(os.path.join(d, 'model.txt')) as fm:
            for r, i, m in zip(fr, fi, fm):
                yield r.rstrip('\n'), i.rstrip('\n'), m.rstrip('\n')


def session_stats(dirs):
    tot = collections.Counter()
    for d in dirs:
        p = os.path.join(d, 'stats.json')
        if os.path.exists(p):
            tot.update(json.load(open(p)))
    return tot


def oracle_failures(dirs):
    out = []
    for d in dirs:
        p = os.path.join(d, 'oracle.jsonl')
        if os.path.exists(p):
            for l in open(p):
                l = l.strip()
                if l:
                    out.append(json.loads(l))
    return out


# ------------------------------------------------------------------------------------------ findings

def load_known():
    p = os.path.join(VERIF, 'known_findings.json')
    return json.load(open(p)) if os.path.exists(p) else []


def known_match(known, prop, witness):
    """a known finding matches only its exact witness (same keys, same values)"""
    for k in known:
        if k.get('kind') != 'known' or prop not in k.get('properties', [k.get('property')]):
            continue
        w = k['witness']
        if all(str(witness.get(key)) == str(val) for key, val in w.items()):
            return k
    return None



# ------------------------------------------------------------------------------------------ shrinking

def _one_shot(pattern, text, pos):
    """(implementation captures, model captures, reference captures) of one case against the current tree; None if unusable"""
    d = os.path.join(WORK, 'shrink')
    shutil.rmtree(d, ignore_errors=True)
    os.makedirs(d)
    try:
        r = subprocess.run([HBIN, 'one', '--pattern', pattern, '--text', text, '--pos', str(pos), '--out', d],
                           stdout=subprocess.PIPE, stderr=subprocess.STDOUT, text=True, timeout=20)
    except subprocess.TimeoutExpired:
        return None
    req = os.path.join(d, 'req.txt')
    if r.returncode != 0 or not os.path.exists(req):
        return None
    with open(req) as fin:
        r2 = subprocess.run([DRIVER], stdin=fin, stdout=subprocess.PIPE, stderr=subprocess.PIPE, text=True)
    for rq, im, mo in zip(open(req).read().split('\n'), open(os.path.join(d, 'impl.txt')).read().split('\n'), r2.stdout.split('\n')):
        if rq.startswith('caps\t'):
            mm = mo.split('\t')
            if len(mm) < 3:
                return None
            return im.split('\t')[0], mm[0], mm[2]
    return None


def shrink_engine_case(pattern, text, pos, budget=120):
    """greedy one-at-a-time shrinking of (pattern, text, pos) keeping 'implementation != reference' on the current tree
    (spans compared; the pattern must still build). Returns a smaller case or None if the original does not reproduce."""
    def fails(p, t, q):
        a = _one_shot(p, t, q)
        if a is None:
            return False
        imp, _, ref = a
        def span(x):
            return ' '.join(x.split(' ')[:2]) if x.startswith('m ') else x
        return (imp.startswith('m ') or imp == 'none') and (ref.startswith('m ') or ref == 'none') and span(imp) != span(ref)
    if not fails(pattern, text, pos):
        return None
    tries = 0
    changed = True
    while changed and tries < budget:
        changed = False
        # text: drop one character (adjusting the offset)
        chars = list(text)
        for i in range(len(chars)):
            t2 = ''.join(chars[:i] + chars[i + 1:])
            b = len(''.join(chars[:i]).encode())
            w = len(chars[i].encode())
            q2 = pos if pos <= b else (pos - w if pos >= b + w else None)
            if q2 is None:
                continue
            tries += 1
            if fails(pattern, t2, q2):
                text, pos, changed = t2, q2, True
                break
        if changed:
            continue
        # pattern: delete a character, or a balanced parenthesised group, or unwrap a group
        cands = []
        for i, ch in enumerate(pattern):
            cands.append(pattern[:i] + pattern[i + 1:])
            if ch == '(':
                depth = 0
                for j in range(i, len(pattern)):
                    if pattern[j] == '(' and (j == 0 or pattern[j - 1] != '\\'):
                        depth += 1
                    elif pattern[j] == ')' and pattern[j - 1] != '\\':
                        depth -= 1
                        if depth == 0:
                            cands.append(pattern[:i] + pattern[j + 1:])
                            break
        for p2 in sorted(set(cands), key=len):
            if tries >= budget:
                break
            tries += 1
            if fails(p2, text, pos):
                pattern, changed = p2, True
                break
    return dict(pattern=pattern, text=text, pos=pos, shrink_attempts=tries)


class Verdict:
    def __init__(self, prop, tier, seed):
        self.prop, self.tier, self.seed = prop, tier, seed
        self.violations = []     # dicts
        self.known_hits = []
        self.t0 = time.time()
        self.known = load_known()
        self.cov = collections.OrderedDict()
        self.assumptions = []
        self.samples = []

    def fail(self, kind, **fields):
        """kind: failing-input | broken-tie | broken-proof"""
        w = dict(fields)
        k = known_match(self.known, self.prop, w) if kind == 'failing-input' else None
        if k is not None:
            if k['id'] + json.dumps(w, sort_keys=True) not in [x[0] for x in self.known_hits]:
                self.known_hits.append((k['id'] + json.dumps(w, sort_keys=True), k, w))
            return
        self.violations.append(dict(kind=kind, **fields))

    def finish(self, level, extra_cov=None):
        os.makedirs(os.path.join(VERIF, 'replays'), exist_ok=True)
        os.makedirs(os.path.join(VERIF, 'evidence'), exist_ok=True)
        for _, k, w in self.known_hits:
            print('KNOWN-FINDING: property=%s %s: %s' % (self.prop, k['id'], k.get('what', json.dumps(w, ensure_ascii=False))))
        # group violations: failing inputs first
        vs = sorted(self.violations, key=lambda v: {'failing-input': 0, 'broken-tie': 1, 'broken-proof': 2}[v['kind']])
        has_input = any(v['kind'] == 'failing-input' for v in vs)
        shown = 0
        seen = set()
        for v in vs:
            key = (v['kind'], v.get('what'), v.get('pattern'), v.get('theorem'))
            if key in seen:
                continue
            seen.add(key)
            if shown >= 8:
                break
            shown += 1
            path = os.path.join(VERIF, 'replays', '%s-%d.json' % (self.prop, shown))
            rec = dict(property=self.prop, seed=self.seed, tier=self.tier, **v)
            if shown == 1 and v['kind'] == 'failing-input' and v.get('op') == 'caps' and v.get('pattern') and 'text' in v \
                    and not os.environ.get('VERIF_NO_SHRINK'):
                try:
                    m = shrink_engine_case(v['pattern'], v.get('text') or '', int(v.get('pos') or 0))
                    if m and (m['pattern'], m['text']) != (v['pattern'], v.get('text') or ''):
                        rec['minimized'] = m
                except Exception as e:       # shrinking is a convenience: never let it change the verdict
                    rec['minimized_error'] = str(e)[:200]
            json.dump(rec, open(path, 'w'), indent=1, ensure_ascii=False)
            suffix = '' if (v['kind'] == 'failing-input' or has_input) else ' no-failing-input-found'
            print('VIOLATION property=%s replay=%s%s' % (self.prop, path, suffix))
        cov = collections.OrderedDict(self.cov)
        if extra_cov:
            cov.update(extra_cov)
        cov.setdefault('samples', self.samples[:8] or ['(none)'])
        # proof files listed in Proofs/.wip (being written; normally none) were left out of this run: say so in the evidence
        wipf = os.path.join(LEAN, 'FancyModel', 'Proofs', '.wip')
        wip = [l.strip() for l in open(wipf) if l.strip()] if os.path.exists(wipf) else []
        if wip:
            cov['proof_files_skipped_as_work_in_progress'] = wip
            print('NOTE: proof files skipped as work in progress (lean/FancyModel/Proofs/.wip): %s' % ' '.join(wip))
        ev = collections.OrderedDict(
            property_id=self.prop, tier=self.tier, seed=self.seed, level=level, coverage=cov,
            assumptions=self.assumptions, wall_s=round(time.time() - self.t0, 2), violations=len(self.violations))
        ev['known_findings_reproduced'] = [k['id'] for _, k, _ in self.known_hits]
        json.dump(ev, open(os.path.join(VERIF, 'evidence', self.prop + '.json'), 'w'), indent=1, ensure_ascii=False)
        if not self.violations:
            print('OK property=%s tier=%s level=%s obligations=%s/%s evaluations=%s known_findings=%d wall=%ss' % (
                self.prop, self.tier, level, cov.get('discharged'), cov.get('obligations'), cov.get('evaluations'),
                len(self.known_hits), ev['wall_s']))
        return 1 if self.violations else 0
