#!/bin/bash
# run every check at the given tier, print one summary line per property
tier=${1:-quick}
cd "$(dirname "$0")/.."
[ -x lean/.lake/build/bin/fmdriver ] || ./setup.sh >/dev/null 2>&1
for p in C01 C02 C03 C04 C05 C06 C07 C08 C09 C10 C11 C12 C13 C14 C15 C16 C17 C18 C19 C20; do
  s=$(date +%s)
  out=$(./check $p --tier $tier 2>&1 | grep -v "^KNOWN" | tail -3)
  rc=$?
  e=$(date +%s)
  echo "$p tier=$tier wall=$((e-s))s $(python3 -c "
import json; e=json.load(open('evidence/$p.json')); c=e['coverage']; print('obl',c.get('obligations'),'dis',c.get('discharged'),'eval',c.get('evaluations'),'viol',e['violations'])") $out"
done
