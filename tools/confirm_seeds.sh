#!/bin/bash
# Confirm each seeded change in a scratch worktree: applies, suite passes, demo fails with it and passes without.
# usage: confirm_seeds.sh <seeds dir> ; writes <seeds dir>/<ID>/<v>/confirm.json
set -u
SEEDS=$1
WT=/tmp/confirm_wt
export CARGO_NET_OFFLINE=true
git -C /repo worktree remove --force $WT 2>/dev/null
git -C /repo worktree add --detach $WT HEAD -q
cd $WT
for d in $SEEDS/*/*/; do
  [ -f "$d/patch.diff" ] || continue
  [ -f "$d/confirm.json" ] && continue
  id=$(basename $(dirname $d)); v=$(basename $d)
  git checkout -q -- . ; git clean -fdq tests/ 2>/dev/null
  applies=false; suite=false; demo_fails=false; demo_passes_clean=false
  if git apply "$d/patch.diff" 2>/dev/null; then applies=true; fi
  if $applies; then
    if timeout 900 cargo test --workspace --offline >/tmp/confirm_suite.log 2>&1; then suite=true; fi
    cp "$d/demo.rs" tests/seed_demo_x.rs
    if timeout 600 cargo test --offline --test seed_demo_x >/tmp/confirm_demo1.log 2>&1; then demo_fails=false; else demo_fails=true; fi
    git checkout -q -- . 
    if timeout 600 cargo test --offline --test seed_demo_x >/tmp/confirm_demo2.log 2>&1; then demo_passes_clean=true; fi
    rm -f tests/seed_demo_x.rs
  fi
  echo "{\"id\":\"$id$v\",\"applies\":$applies,\"suite_passes_with_change\":$suite,\"demo_fails_with_change\":$demo_fails,\"demo_passes_without\":$demo_passes_clean}" > "$d/confirm.json"
  cat "$d/confirm.json"
done
cd /; git -C /repo worktree remove --force $WT
