#!/usr/bin/env python3
"""Sensitivity of the expander tie (tools/rs2lean_expand.py + lean/FancyModel/Proofs/C12c.lean).

For the unmutated /repo/src/expand.rs, hand-made mutations, meaning-preserving controls and every seeded/C12/*/patch.diff (and
any other seeded patch that touches src/expand.rs): translate a scratch COPY into a scratch GeneratedExpand.lean, compile it
(module ExScratch.GeneratedExpand), and elaborate a copy of Proofs/C12c.lean in which only the import line
`import FancyModel.GeneratedExpand` is redirected to it. Nothing under /repo or /verif/lean is written.

usage: rs2lean_expand_sensitivity.py [--work DIR] [--only SUBSTRING-OF-THE-CASE-NAME]      (default /tmp/exsens)
"""
import glob, os, re, shutil, subprocess, sys

VERIF = os.path.dirname(os.path.dirname(os.path.abspath(__file__)))
LEAN = os.path.join(VERIF, 'lean')
SRC = '/repo/src/expand.rs'
TRANSLATOR = os.path.join(VERIF, 'tools', 'rs2lean_expand.py')
PROOF = os.path.join(LEAN, 'FancyModel', 'Proofs', 'C12c.lean')


def sh(cmd, **kw):
    return subprocess.run(cmd, stdout=subprocess.PIPE, stderr=subprocess.STDOUT, text=True, **kw)


def once(text, old, new, what):
    if text.count(old) != 1:
        sys.exit('mutation %s: the text to replace occurs %d times' % (what, text.count(old)))
    return text.replace(old, new)


def mutations(src):
    yield ('(a) exec, `$$`: the doubled substitution character skips 0 instead of 1',
           once(src, '                    f(Step::Char(self.sub_char))?;\n                    1\n', '                    f(Step::Char(self.sub_char))?;\n                    0\n', 'a'))
    yield ('(b) exec, braces: `parse_id(tail, self.open, self.close, false)` -> `(tail, self.close, self.open, false)`',
           once(src, 'parse_id(tail, self.open, self.close, false)', 'parse_id(tail, self.close, self.open, false)', 'b'))
    yield ('(c) exec: the undelimited-name fallback taken when it is NOT allowed',
           once(src, '                        if self.allow_undelimited_name {', '                        if !self.allow_undelimited_name {', 'c'))
    d1 = '''                if let Some(m) = captures.name(name) {
                    Ok(dst.extend(m.as_str().as_bytes()))
                } else if let Some(m) = name.parse().ok().and_then(|num| captures.get(num)) {
                    Ok(dst.extend(m.as_str().as_bytes()))'''
    d2 = '''                if let Some(m) = name.parse().ok().and_then(|num| captures.get(num)) {
                    Ok(dst.extend(m.as_str().as_bytes()))
                } else if let Some(m) = captures.name(name) {
                    Ok(dst.extend(m.as_str().as_bytes()))'''
    yield ('(d) write_expansion_vec: the number is tried before the name (as seeded C12/d does in write_expansion)', once(src, d1, d2, 'd'))
    yield ('(e) write_expansion_vec: seeded C12/g, `Ok(dst.push(c as u8))`',
           once(src, 'Step::Char(c) => Ok(dst.extend(c.to_string().as_bytes())),', 'Step::Char(c) => Ok(dst.push(c as u8)),', 'e'))
    yield ('(f) check: `num < regex.captures_len()` -> `<=`', once(src, '} else if num < regex.captures_len() {', '} else if num <= regex.captures_len() {', 'f'))
    yield ('(g) exec, error branch: `f(Step::Char(self.sub_char))?;` dropped',
           once(src, '                    f(Step::Error)?;\n                    f(Step::Char(self.sub_char))?;\n', '                    f(Step::Error)?;\n', 'g'))
    yield ('(h) escape: the substitution character is not doubled (one `quoted.push` removed)',
           once(src, '            quoted.push(self.sub_char);\n            quoted.push(self.sub_char);\n', '            quoted.push(self.sub_char);\n', 'h'))
    yield ('(i) check: group `0` is not special (`num == 0` -> `num == 1`)', once(src, '            if num == 0 {', '            if num == 1 {', 'i'))
    yield ('(j) python: `close: ">"` -> `"<"`', once(src, '            close: ">",', '            close: "<",', 'j'))
    yield ('(k) exec: an ordinary character is reported as the substitution character',
           once(src, '                f(Step::Char(c))?;', '                f(Step::Char(self.sub_char))?;', 'k'))
    yield ('(l) exec: the number is tried before the name',
           once(once(src, '} else if let Some((id, skip)) = parse_id(tail, self.open, self.close, false)', '} else if let Some((skip, num)) = parse_decimal(tail, 0) {\n                    f(Step::GroupNum(num))?;\n                    skip\n                } else if let Some((id, skip)) = parse_id(tail, self.open, self.close, false)', 'l1'),
                '                } else if let Some((skip, num)) = parse_decimal(tail, 0) {\n                    f(Step::GroupNum(num))?;\n                    skip\n                } else {\n                    f(Step::Error)?;',
                '                } else {\n                    f(Step::Error)?;', 'l2'))
    yield ('(m) write_expansion (std): an unmatched numbered group writes the name of the step instead of nothing - `Step::Error => write!(dst, "{}", self.sub_char)`',
           once(src, '            Step::Error => Ok(()),\n        })\n    }\n\n    /// Writes the expansion produced by `expansion` to `dst`.  Potentially more efficient\n    /// than calling `expansion` directly and writing the result.\n    pub fn write_expansion_vec',
                '            Step::Error => write!(dst, "{}", self.sub_char),\n        })\n    }\n\n    /// Writes the expansion produced by `expansion` to `dst`.  Potentially more efficient\n    /// than calling `expansion` directly and writing the result.\n    pub fn write_expansion_vec', 'm'))
    yield ('(control) exec: the two `debug_assert!` lines swapped (same meaning)',
           once(src, '        debug_assert!(!self.open.is_empty());\n        debug_assert!(!self.close.is_empty());\n', '        debug_assert!(!self.close.is_empty());\n        debug_assert!(!self.open.is_empty());\n', 'n'))
    yield ('(control) comments and blank lines added (same meaning)',
           once(src, '                let tail = iter.as_str();\n', '                // what follows the substitution character\n\n                let tail = /* rest */ iter.as_str();\n', 'o'))
    yield ('(control) check: `Step::GroupNum(num) => on_group_num(num)` moved before the `GroupName` arm (same meaning)',
           once(once(src, '            Step::GroupNum(num) => on_group_num(num),\n            Step::Error => Err(Error::ParseError(', '            Step::Error => Err(Error::ParseError(', 'p1'),
                '            Step::Char(_) => Ok(()),\n            Step::GroupName(name) => {\n                if regex.named_groups', '            Step::Char(_) => Ok(()),\n            Step::GroupNum(num) => on_group_num(num),\n            Step::GroupName(name) => {\n                if regex.named_groups', 'p2'))
    # ---- the widened subset
    yield ('(control) escape: the local `quoted` renamed to `st` (a name the generated code uses itself: renamed apart; same meaning)',
           once(src, '''            let mut quoted = String::with_capacity(self.sub_char.len_utf8() * 2);
            quoted.push(self.sub_char);
            quoted.push(self.sub_char);
            Cow::Owned(text.replace(self.sub_char, &quoted))''', '''            let mut st = String::with_capacity(self.sub_char.len_utf8() * 2);
            st.push(self.sub_char);
            st.push(self.sub_char);
            Cow::Owned(text.replace(self.sub_char, &st))''', 'w1'))
    yield ('(n) escape: nothing to do for an empty text is tested with `!text.is_empty()` instead of `text.contains(self.sub_char)`',
           once(src, '        if text.contains(self.sub_char) {\n            let mut quoted', '        if !text.is_empty() {\n            let mut quoted', 'w2'))
    yield ('(o) check: `num < regex.captures_len()` -> `num < regex.captures_len().max(1)` (same meaning: there is always group 0) ',
           once(src, '} else if num < regex.captures_len() {', '} else if num < regex.captures_len().max(1) {', 'w3'))
    yield ('(rejected?) exec: the tail taken with `iter.clone().collect::<String>()`',
           once(src, '                let tail = iter.as_str();\n', '                let tail = &iter.clone().collect::<String>();\n', 'q'))

def locate(line):
    """the theorem of Proofs/C05f.lean that contains a line"""
    src = open(PROOF).read().split('\n')
    for k in range(min(line, len(src)) - 1, -1, -1):
        m = re.match(r"^(?:private )?(?:theorem|def|example)\s*([A-Za-z_][A-Za-z0-9_.']*)?", src[k])
        if m:
            return '`%s`' % (m.group(1) or 'example')
    return '?'


def main():
    work = '/tmp/exsens'
    if '--work' in sys.argv:
        work = sys.argv[sys.argv.index('--work') + 1]
    shutil.rmtree(work, ignore_errors=True)
    os.makedirs(work)
    lean_path = sh(['lake', 'env', 'printenv', 'LEAN_PATH'], cwd=LEAN).stdout.strip().split('\n')[-1]
    lean_bin = sh(['lake', 'env', 'which', 'lean'], cwd=LEAN).stdout.strip().split('\n')[-1]
    src = open(SRC).read()
    cases = [('unmutated /repo/src/expand.rs', {'expand.rs': src})] + [(n, {'expand.rs': t}) for n, t in mutations(src)]
    for p in sorted(glob.glob(os.path.join(VERIF, 'seeded', '*', '*', 'patch.diff'))):
        if 'src/expand.rs' not in open(p).read() and '/C12/' not in p:
            continue
        d = os.path.join(work, 'patch')
        shutil.rmtree(d, ignore_errors=True)
        shutil.copytree('/repo/src', os.path.join(d, 'src'))
        r = sh(['patch', '-p1', '-s', '-f', '-i', p], cwd=d)
        name = 'seeded/' + os.path.relpath(os.path.dirname(p), os.path.join(VERIF, 'seeded'))
        if r.returncode != 0:
            cases.append((name, None))
            continue
        cases.append((name, {'expand.rs': open(os.path.join(d, 'src', 'expand.rs')).read()}))
    if '--only' in sys.argv:
        cases = cases[:1] + [x for x in cases[1:] if sys.argv[sys.argv.index('--only') + 1] in x[0]]
    base_gen = None
    rows = []
    for i, (name, files) in enumerate(cases):
        d = os.path.join(work, 'c%02d' % i)
        os.makedirs(os.path.join(d, 'lib', 'ExScratch'))
        if files is None:
            rows.append((name, 'patch does not apply', '-', ''))
            continue
        os.makedirs(os.path.join(d, 'src'))
        open(os.path.join(d, 'src', 'expand.rs'), 'w').write(files['expand.rs'])
        rs_ = os.path.join(d, 'src', 'expand.rs')
        os.makedirs(os.path.join(d, 'root', 'ExScratch'))
        gen = os.path.join(d, 'root', 'ExScratch', 'GeneratedExpand.lean')
        r = sh([sys.executable, TRANSLATOR, rs_, '-o', gen])
        if r.returncode != 0:
            rows.append((name, 'REJECTED (exit %d)' % r.returncode, '-', r.stdout.strip().split('\n')[-1].replace(rs_, 'expand.rs')))
            continue
        g = open(gen).read()
        if base_gen is None:
            base_gen = g
        same = (re.sub(r'line \d+', 'line N', g) == re.sub(r'line \d+', 'line N', base_gen))      # up to the line numbers in the doc comments
        if same and i:
            rows.append((name, 'accepted, generated Lean identical (up to line numbers)', 'proof HOLDS', 'the change is outside the translated functions' if name.startswith('seeded') else ''))
            continue
        env = dict(os.environ, LEAN_PATH=os.path.join(d, 'lib') + ':' + lean_path)
        r = sh([lean_bin, '--root=' + os.path.join(d, 'root'), '-o', os.path.join(d, 'lib', 'ExScratch', 'GeneratedExpand.olean'), gen],
               env=env, cwd=os.path.join(d, 'root'))
        if r.returncode != 0:
            rows.append((name, 'accepted', 'generated file does not compile', r.stdout.strip().split('\n')[0]))
            continue
        proof = os.path.join(d, 'root', 'ExScratch', 'C12c.lean')
        ptext = open(PROOF).read()
        if ptext.count('import FancyModel.GeneratedExpand\n') != 1:
            sys.exit('C12c.lean does not import FancyModel.GeneratedExpand exactly once')
        open(proof, 'w').write(ptext.replace('import FancyModel.GeneratedExpand\n', 'import ExScratch.GeneratedExpand\n'))
        r = sh([lean_bin, '--root=' + os.path.join(d, 'root'), proof], env=env, cwd=os.path.join(d, 'root'))
        errs = [l for l in r.stdout.split('\n') if ': error' in l]
        if r.returncode == 0 and not errs:
            rows.append((name, 'accepted', 'proof HOLDS', ''))
        else:
            where = sorted({l.split(':')[1] for l in errs if l.count(':') > 2 and l.split(':')[1].isdigit()}, key=int)
            thms = []
            for w in where:
                t = locate(int(w))
                if t not in thms:
                    thms.append(t)
            rows.append((name, 'accepted', 'proof FAILS', '%d error(s): %s' % (len(errs), ', '.join(thms[:3]) + (' …' if len(thms) > 3 else ''))))
    print('| source | translator | Proofs/C12c.lean | detail |')
    print('|---|---|---|---|')
    for r in rows:
        print('| %s | %s | %s | %s |' % r)
    return 0


if __name__ == '__main__':
    sys.exit(main())
