#!/usr/bin/env python3
"""Integer semantics shared by the rs2lean_* translators (vm, state, api, tostr, expand, lib).

The Rust integer types in use are `usize`, `u64`, `u32`, `u16`, `u8` (signed types are NOT in the subset). Every one of them
is a Lean `Nat`; the type tag carried by the translators decides what an operation means. The choices, stated once:

 * target: 64 bit. `usize` and `u64` have the same range; a cast between them is the identity.
 * PROFILE: release (`overflow-checks = false`), except for `-`:
     - `a + b`, `a * b` on `usize` / `u64`: the mathematical sum / product. ASSUMPTION (as in every earlier translator): 64-bit
       arithmetic on offsets, lengths and counters does not overflow (2^64 steps / bytes are out of reach).
     - `a + b`, `a * b` on `u32` / `u16` / `u8`: wrapping, `(a + b) % 2^w` - a 32-bit counter CAN wrap within a run.
     - `a - b` (every width): a panic outcome when `b > a` (hoisted `checkedSub`), as in every earlier translator: an
       underflow is a defect in either profile, and the panic outcome makes the proof fail where it can happen.
     - `a << b`, `a >> b`: the shift amount is masked, `a << (b % w)`, truncated to `w` bits (release; debug would panic
       for `b >= w`). `wrapping_shl` / `wrapping_shr` are the same thing by definition.
 * `x as T`: widening is the identity, narrowing is `x % 2^w` (in every profile).
 * `|`, `&`, `^`: bitwise on `Nat` (`|||`, `&&&`, `^^^`), exact for every width; `!x` = `2^w - 1 - x`.
 * `a.min(b)`, `a.max(b)`; `a.saturating_sub(b)` = truncated subtraction; `a.saturating_add(b)` = `min (a + b) (2^w - 1)`;
   `a.wrapping_add(b)` = `(a + b) % 2^w`; `a.wrapping_sub(b)` = `(a + (2^w - b % 2^w)) % 2^w`;
   `a.checked_sub(b)` = `if b ≤ a then some (a - b) else none`; `a.checked_add(b)` = `if a + b < 2^w then some (a + b) else none`;
   `a.checked_mul(b)` likewise;
   `a.abs_diff(b)` = `max a b - min a b`; `a.pow(b)` is not in the subset.
 * an unsuffixed literal takes the type of the other operand / the annotation / the assigned variable; where the
   translators had no such context they always read it as `usize` (rustc's inference is not replicated; a literal that does
   not fit the type is refused). A shift whose left operand is an unsuffixed literal needs such a context (its width
   matters); without one it is refused.
"""

WIDTH = {'u8': 8, 'u16': 16, 'u32': 32, 'u64': 64, 'usize': 64}
SIGNED = ('i8', 'i16', 'i32', 'i64', 'isize', 'i128', 'u128')


def is_int(t):
    return t in WIDTH


def modulus(t):
    return 1 << WIDTH[t]


def fits(v, t):
    return 0 <= v < modulus(t)


def strip(e):
    while e[0] == 'paren':
        e = e[1]
    return e


def literalish(e):
    """an expression whose integer type comes from its context: an unsuffixed literal, or a shift / bit operation / sum of
    such (the left operand decides for a shift)"""
    e = strip(e)
    if e[0] == 'int':
        return True
    if e[0] == 'bin' and e[1] in ('<<', '>>'):
        return literalish(e[2])
    if e[0] == 'bin' and e[1] in ('|', '&', '^', '+', '*'):
        return literalish(e[2]) and literalish(e[3])
    return False


def cast(txt, src, dst):
    """`txt as dst` for a value of type `src`"""
    if WIDTH[dst] >= WIDTH[src]:
        return txt
    return '(%s %% %d)' % (txt, modulus(dst))


def arith(op, l, r, t):
    """`+` / `*` (not `-`: that one is hoisted by the caller)"""
    if WIDTH[t] == 64:
        return '(%s %s %s)' % (l, op, r)
    return '((%s %s %s) %% %d)' % (l, op, r, modulus(t))


BITOPS = {'|': '|||', '&': '&&&', '^': '^^^'}


def bitop(op, l, r):
    return '(%s %s %s)' % (l, BITOPS[op], r)


def shift(op, l, r, t):
    w = WIDTH[t]
    if op == '<<':
        return '((%s <<< (%s %% %d)) %% %d)' % (l, r, w, modulus(t))
    return '(%s >>> (%s %% %d))' % (l, r, w)


def bitnot(x, t):
    return '(%d - %s)' % (modulus(t) - 1, x)


# methods on an integer receiver: name -> (number of arguments, kind of the argument, result)
#   result 'same' | 'opt' (an Option of the same type)
METHODS = {
    'min': (1, 'same', 'same'), 'max': (1, 'same', 'same'), 'saturating_sub': (1, 'same', 'same'),
    'saturating_add': (1, 'same', 'same'), 'wrapping_add': (1, 'same', 'same'), 'wrapping_sub': (1, 'same', 'same'),
    'wrapping_mul': (1, 'same', 'same'), 'abs_diff': (1, 'same', 'same'),
    'checked_sub': (1, 'same', 'opt'), 'checked_add': (1, 'same', 'opt'), 'checked_mul': (1, 'same', 'opt'),
    'wrapping_shl': (1, 'u32', 'same'), 'wrapping_shr': (1, 'u32', 'same'),
}


def method(name, l, r, t):
    """Lean text of `l.name(r)` for an integer `l` of type `t` (`r`: the argument's Lean text)"""
    m = modulus(t)
    if name == 'min':
        return '(Nat.min %s %s)' % (l, r)
    if name == 'max':
        return '(Nat.max %s %s)' % (l, r)
    if name == 'saturating_sub':
        return '(%s - %s)' % (l, r)
    if name == 'saturating_add':
        return '(Nat.min (%s + %s) %d)' % (l, r, m - 1)
    if name == 'wrapping_add':
        return '((%s + %s) %% %d)' % (l, r, m)
    if name == 'wrapping_mul':
        return '((%s * %s) %% %d)' % (l, r, m)
    if name == 'wrapping_sub':
        return '((%s + (%d - %s %% %d)) %% %d)' % (l, m, r, m, m)
    if name == 'abs_diff':
        return '(Nat.max %s %s - Nat.min %s %s)' % (l, r, l, r)
    if name == 'checked_sub':
        return '(if %s ≤ %s then some (%s - %s) else none)' % (r, l, l, r)
    if name == 'checked_add':
        return '(if %s + %s < %d then some (%s + %s) else none)' % (l, r, m, l, r)
    if name == 'checked_mul':
        return '(if %s * %s < %d then some (%s * %s) else none)' % (l, r, m, l, r)
    if name == 'wrapping_shl':
        return shift('<<', l, r, t)
    if name == 'wrapping_shr':
        return shift('>>', l, r, t)
    raise KeyError(name)


CMP = {'<': '<', '<=': '≤', '>': '>', '>=': '≥'}


# ------------------------------------------------------------------------------------------------ shadowing `let`
# `let x = a; …; let x = f(x);` IN THE SAME BLOCK is accepted: the second `let` is rendered as a Lean `let x`, which shadows
# exactly as the Rust one does - from there to the end of the block; and after the block no `x` is in scope in Rust (the first
# `let x` of the block must be fresh: the translators still refuse a `let` that shadows a name of an ENCLOSING scope, because
# they repeat what follows a branch inside the branch, where such a Lean `let` would still be visible).
def mark_shadow_lets(stmts, tr):
    """called with every statement list that is translated: remember the `let`s that repeat the name of an earlier `let` of
    the same list"""
    if not hasattr(tr, 'shadow_lets'):
        tr.shadow_lets = {}
    seen = set()
    for y in stmts:
        if isinstance(y, tuple) and y and y[0] == 'let' and isinstance(y[1], str):
            if y[1] in seen:
                tr.shadow_lets[id(y)] = y          # (the node is kept alive, so that its id stays its own)
            seen.add(y[1])


def shadow_ok(tr, stmt):
    return getattr(tr, 'shadow_lets', {}).get(id(stmt)) is stmt


# ------------------------------------------------------------------------------------------------ capacities
# `String::with_capacity(n)` / `Vec::<T>::with_capacity(n)` / `reserve(n)`: the ARGUMENT is not dropped. Rust evaluates it (an
# overflowing `+` / `*` panics in a build with overflow checks and wraps otherwise - here: the panic outcome "capacity arithmetic
# overflow", the profile in which the defect shows) and then panics with "capacity overflow" when `n * size_of::<T>()` exceeds
# `isize::MAX`. ADAPTOR FACT (LEN), stated here once: the `len()` of a `&str` / `String` / `Vec` is at most `isize::MAX` (an
# invariant of Rust's allocations and slices). The translators use it STATICALLY: `cap_bound` computes an upper bound of the
# argument with every `len()` leaf replaced by `isize::MAX`; when that bound (times the element size) is within `isize::MAX`
# neither panic is possible and nothing is generated (`with_capacity(text.len())`, `with_capacity(text.len() + 0)`); otherwise the
# checks are generated with CHECKED `usize` arithmetic (`cap_opt_add` / `cap_opt_mul`) and the comparison with `isize::MAX`.
ISIZE_MAX = (1 << 63) - 1
USIZE_MAX = (1 << 64) - 1


def cap_bound(e, leaf):
    """an upper bound of the capacity expression `e`, or None (unbounded). `leaf(e)` -> a bound for a leaf (a `len()`: ISIZE_MAX) or None"""
    e = strip(e)
    if e[0] == 'int':
        return e[1]
    if e[0] == 'bin' and e[1] in ('+', '*'):
        a, b = cap_bound(e[2], leaf), cap_bound(e[3], leaf)
        if a is None or b is None:
            return None
        return a + b if e[1] == '+' else a * b
    return leaf(e)


def cap_opt(e, value):
    """Lean text of type `Option Nat`: the value of the capacity expression with checked `usize` `+` / `*` (`none` = overflow);
    `value(e)` -> the Lean text of a leaf"""
    e = strip(e)
    if e[0] == 'int':
        return '(some %d)' % e[1]
    if e[0] == 'bin' and e[1] in ('+', '*'):
        return ('(Option.bind %s fun x_ => Option.bind %s fun y_ => if x_ %s y_ ≤ %d then some (x_ %s y_) else none)'
                % (cap_opt(e[2], value), cap_opt(e[3], value), e[1], USIZE_MAX, e[1]))
    return '(some %s)' % value(e)
