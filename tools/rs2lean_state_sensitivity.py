#!/usr/bin/env python3
"""Sensitivity of the backtracking-state tie (tools/rs2lean_state.py + lean/FancyModel/Proofs/C20c.lean).

For the unmutated /repo/src/vm.rs, hand-made mutations of `impl State`, meaning-preserving controls and every
seeded/*/*/patch.diff that changes the text of `impl State { … }` in src/vm.rs: translate a scratch COPY of the file into a
scratch GeneratedState.lean, compile it to a scratch .olean (module StScratch.GeneratedState), and elaborate a copy of
Proofs/C20c.lean in which only the import line `import FancyModel.GeneratedState` is redirected to it. Nothing under /repo or
/verif/lean is written. Prints a markdown table.

usage: rs2lean_state_sensitivity.py [--work DIR] [--only SUBSTRING-OF-THE-CASE-NAME]      (default /tmp/stsens)
"""
import glob, os, re, shutil, subprocess, sys

VERIF = os.path.dirname(os.path.dirname(os.path.abspath(__file__)))
LEAN = os.path.join(VERIF, 'lean')
SRC = '/repo/src/vm.rs'
TRANSLATOR = os.path.join(VERIF, 'tools', 'rs2lean_state.py')
PROOF = os.path.join(LEAN, 'FancyModel', 'Proofs', 'C20c.lean')


def sh(cmd, **kw):
    return subprocess.run(cmd, stdout=subprocess.PIPE, stderr=subprocess.STDOUT, text=True, **kw)


def once(text, old, new, what):
    if text.count(old) != 1:
        sys.exit('mutation %s: the text to replace occurs %d times' % (what, text.count(old)))
    return text.replace(old, new)


def run_text(src):
    """the text of `impl State { … }` together with the three struct declarations"""
    i = src.find('#[derive(Debug)]\nstruct Branch')
    k = src.find('\nimpl State {')
    if i < 0 or k < 0:
        return None
    j = src.find('\n}\n', k)
    return src[i:j + 3]


def mutations(src):
    yield ('(a) save: the `return;` of the "already saved" branch dropped',
           once(src, '                self.saves[slot] = val;\n                return;\n', '                self.saves[slot] = val;\n', 'a'))
    yield ('(b) save: `self.oldsave.len() - i - 1` -> `self.oldsave.len() - i`',
           once(src, 'self.oldsave[self.oldsave.len() - i - 1].slot', 'self.oldsave[self.oldsave.len() - i].slot', 'b'))
    yield ('(c) pop: `self.nsave = nsave;` -> `self.nsave = 0;`',
           once(src, '        let Branch { pc, ix, nsave } = self.stack.pop().unwrap();\n        self.nsave = nsave;',
                '        let Branch { pc, ix, nsave } = self.stack.pop().unwrap();\n        self.nsave = 0;', 'c'))
    yield ('(d) push: `self.stack.len() < self.max_stack` -> `<=`',
           once(src, 'if self.stack.len() < self.max_stack {', 'if self.stack.len() <= self.max_stack {', 'd'))
    yield ('(e) stack_push: `self.save(explicit_sp, sp + 1)` -> `self.save(explicit_sp, sp)`',
           once(src, 'self.save(explicit_sp, sp + 1);', 'self.save(explicit_sp, sp);', 'e'))
    yield ('(f) backtrack_cut: `&self.stack[count + 1..]` -> `&self.stack[count..]`',
           once(src, '&self.stack[count + 1..]', '&self.stack[count..]', 'f'))
    yield ('(g) backtrack_cut: the result of `saved.insert(slot)` negated',
           once(src, '            if new_slot {', '            if !new_slot {', 'g'))
    yield ('(h) backtrack_cut: `self.oldsave.truncate(oldsave_ix);` dropped',
           once(src, '        self.oldsave.truncate(oldsave_ix);\n', '', 'h'))
    yield ('(i) new: `explicit_sp: n_saves` -> `n_saves + 1`', once(src, 'explicit_sp: n_saves,', 'explicit_sp: n_saves + 1,', 'i'))
    yield ('(j) stack_pop: `self.get(explicit_sp) - 1` -> `self.get(explicit_sp)`',
           once(src, 'let sp = self.get(explicit_sp) - 1;', 'let sp = self.get(explicit_sp);', 'j'))
    yield ('(k) backtrack_cut: `self.nsave = oldsave_ix - oldsave_start` -> `- oldsave_end`',
           once(src, 'self.nsave = oldsave_ix - oldsave_start;', 'self.nsave = oldsave_ix - oldsave_end;', 'k'))
    yield ('(l) backtrack_cut: `swap(oldsave_ix, ix)` -> `swap(ix, ix)`',
           once(src, 'self.oldsave.swap(oldsave_ix, ix);', 'self.oldsave.swap(ix, ix);', 'l'))
    yield ('(m) pop: the restore loop runs `0..self.nsave + 1`', once(src, '        for _ in 0..self.nsave {', '        for _ in 0..self.nsave + 1 {', 'm'))
    yield ('(n) save: the old value logged is `val` instead of `self.saves[slot]`',
           once(src, '            value: self.saves[slot],', '            value: val,', 'n'))
    yield ('(o) backtrack_cut: `end -= nsave` -> `end -= 0`', once(src, '                end -= nsave;', '                end -= 0;', 'o'))
    yield ('(control) save: the independent `self.nsave += 1;` / `self.saves[slot] = val;` swapped (same meaning)',
           once(src, '        self.nsave += 1;\n        self.saves[slot] = val;\n', '        self.saves[slot] = val;\n        self.nsave += 1;\n', 'p'))
    yield ('(control) backtrack_cut: the independent `self.stack.truncate(count);` / `self.oldsave.truncate(oldsave_ix);` swapped (same meaning)',
           once(src, '        self.stack.truncate(count);\n        self.oldsave.truncate(oldsave_ix);\n',
                '        self.oldsave.truncate(oldsave_ix);\n        self.stack.truncate(count);\n', 'q'))
    yield ('(control) comments and blank lines added (same meaning)',
           once(src, '        let result = self.get(sp);\n', '        // the value on top\n\n        let result = /* read */ self.get(sp);\n', 'r'))
    yield ('(control) a tracing call `self.trace_stack("save");` and a `#[cfg(..)]` statement added (skipped)',
           once(src, '        let result = self.get(sp);\n',
                '        let result = self.get(sp);\n        self.trace_stack("stack_pop");\n        #[cfg(feature = "std")]\n        println!("{}", result);\n', 's'))
    # ---- the widened subset
    yield ('(control) stack_pop: the local `sp` renamed to `n` (a name the generated code uses itself: renamed apart; same meaning)',
           once(src, '''        let sp = self.get(explicit_sp) - 1;
        let result = self.get(sp);
        self.save(explicit_sp, sp);
        result''', '''        let n = self.get(explicit_sp) - 1;
        let result = self.get(n);
        self.save(explicit_sp, n);
        result''', 'w1'))
    yield ('(control) stack_pop: `let sp = self.get(explicit_sp); let sp = sp - 1;` (a shadowing `let` in the same block, same meaning)',
           once(src, '        let sp = self.get(explicit_sp) - 1;\n        let result = self.get(sp);', '        let sp = self.get(explicit_sp);\n        let sp = sp - 1;\n        let result = self.get(sp);', 'w0'))
    yield ('(rejected?) stack_push: a `let sp = 0;` inside the `if` block shadows the `sp` of the enclosing block',
           once(src, '        if self.saves.len() == sp {\n            self.saves.push(val);', '        if self.saves.len() == sp {\n            let sp = 0;\n            self.saves.push(val + sp);', 'w00'))
    yield ('(control) stack_pop: `let explicit_sp: usize = self.explicit_sp;` (type annotation, same meaning)',
           once(src, '''        let explicit_sp = self.explicit_sp;
        let sp = self.get(explicit_sp) - 1;''', '''        let explicit_sp: usize = self.explicit_sp;
        let sp = self.get(explicit_sp) - 1;''', 'w2'))
    yield ('(refactor, same meaning) backtrack_cut: an extra early `return` for a state without branches, `if self.stack.is_empty() && count == 0 { return; }` (same meaning: then `self.stack.len() == count`)',
           once(src, '''        if self.stack.len() == count {
            // no backtrack branches to discard, all good
            return;
        }''', '''        if self.stack.is_empty() && count == 0 {
            return;
        }
        if self.stack.len() == count {
            // no backtrack branches to discard, all good
            return;
        }''', 'w3'))
    bm = '''        let mut saved = BTreeSet::new();
        // keep all the old saves of our branch (they're all for different slots)
        for &Save { slot, .. } in &self.oldsave[oldsave_start..oldsave_end] {
            saved.insert(slot);
        }'''
    bm2 = '''            let new_slot = saved.insert(slot);
'''
    yield ('(p) backtrack_cut: the set of slots as a `u64` bit mask (`saved |= 1 << slot`, `saved & (1 << slot) == 0`)',
           once(once(src, bm, '''        let mut saved = 0u64;
        for &Save { slot, .. } in &self.oldsave[oldsave_start..oldsave_end] {
            saved |= 1 << slot;
        }''', 'w4'), bm2, '''            let new_slot = saved & (1 << slot) == 0;
            saved |= 1 << slot;
''', 'w4b'))
    yield ('(q) backtrack_cut: `end - self.stack[count].nsave` -> `end.saturating_sub(self.stack[count].nsave)`',
           once(src, 'let start = end - self.stack[count].nsave;', 'let start = end.saturating_sub(self.stack[count].nsave);', 'w5'))
    yield ('(r) push: the stack limit halved, `self.stack.len() < self.max_stack >> 1`',
           once(src, 'if self.stack.len() < self.max_stack {', 'if self.stack.len() < self.max_stack >> 1 {', 'w6'))
    yield ('(refactor, same meaning) pop: the restore loop written as `let mut k = 0; while k < n { …; k += 1; }`',
           once(src, '''        for _ in 0..self.nsave {
            let Save { slot, value } = self.oldsave.pop().unwrap();
            self.saves[slot] = value;
        }''', '''        let n = self.nsave;
        let mut k = 0;
        while k < n {
            let Save { slot, value } = self.oldsave.pop().unwrap();
            self.saves[slot] = value;
            k += 1;
        }''', 'w7'))
    yield ('(rejected?) pop: the restore loop as `while self.nsave > 0 { …; self.nsave -= 1; }` (no bound evident)',
           once(src, '''        for _ in 0..self.nsave {
            let Save { slot, value } = self.oldsave.pop().unwrap();
            self.saves[slot] = value;
        }''', '''        while self.nsave > 0 {
            let Save { slot, value } = self.oldsave.pop().unwrap();
            self.saves[slot] = value;
            self.nsave -= 1;
        }''', 'w8'))
    yield ('(rejected?) get: `self.saves[slot]` -> `*self.saves.get(slot).unwrap_or(&usize::MAX)`',
           once(src, '    fn get(&self, slot: usize) -> usize {\n        self.saves[slot]\n', '    fn get(&self, slot: usize) -> usize {\n        *self.saves.get(slot).unwrap_or(&usize::MAX)\n', 't'))

def locate(line):
    """the theorem of Proofs/C20c.lean that contains a line"""
    src = open(PROOF).read().split('\n')
    for k in range(min(line, len(src)) - 1, -1, -1):
        m = re.match(r'^(?:private )?(?:theorem|def|example)\s*([A-Za-z_][A-Za-z0-9_.\']*)?', src[k])
        if m:
            return '`%s`' % (m.group(1) or 'example')
    return '?'


def main():
    work = '/tmp/stsens'
    if '--work' in sys.argv:
        work = sys.argv[sys.argv.index('--work') + 1]
    shutil.rmtree(work, ignore_errors=True)
    os.makedirs(work)
    lean_path = sh(['lake', 'env', 'printenv', 'LEAN_PATH'], cwd=LEAN).stdout.strip().split('\n')[-1]
    lean_bin = sh(['lake', 'env', 'which', 'lean'], cwd=LEAN).stdout.strip().split('\n')[-1]
    src = open(SRC).read()
    cases = [('unmutated /repo/src/vm.rs', src)] + list(mutations(src))
    only = sys.argv[sys.argv.index('--only') + 1] if '--only' in sys.argv else None
    outside = []
    for p in sorted(glob.glob(os.path.join(VERIF, 'seeded', '*', '*', 'patch.diff'))):
        if 'src/vm.rs' not in open(p).read():
            continue
        d = os.path.join(work, 'patch')
        shutil.rmtree(d, ignore_errors=True)
        shutil.copytree('/repo/src', os.path.join(d, 'src'))
        r = sh(['patch', '-p1', '-s', '-f', '-i', p], cwd=d)
        name = 'seeded/' + os.path.relpath(os.path.dirname(p), os.path.join(VERIF, 'seeded'))
        if r.returncode != 0:
            cases.append((name, None))
            continue
        text = open(os.path.join(d, 'src', 'vm.rs')).read()
        if run_text(text) == run_text(src):
            outside.append(name)
        else:
            cases.append((name, text))
    if only is not None:
        cases = cases[:1] + [x for x in cases[1:] if only in x[0]]
    base_gen = None
    rows = []
    for i, (name, text) in enumerate(cases):
        d = os.path.join(work, 'c%02d' % i)
        os.makedirs(os.path.join(d, 'lib', 'StScratch'))
        if text is None:
            rows.append((name, 'patch does not apply', '-', ''))
            continue
        rs = os.path.join(d, 'vm.rs')
        open(rs, 'w').write(text)
        os.makedirs(os.path.join(d, 'root', 'StScratch'))
        gen = os.path.join(d, 'root', 'StScratch', 'GeneratedState.lean')
        r = sh([sys.executable, TRANSLATOR, rs, '-o', gen])
        if r.returncode != 0:
            rows.append((name, 'REJECTED (exit %d)' % r.returncode, '-', r.stdout.strip().split('\n')[-1].replace(rs, 'vm.rs')))
            continue
        g = open(gen).read()
        if base_gen is None:
            base_gen = g
        same = (g == base_gen)
        env = dict(os.environ, LEAN_PATH=os.path.join(d, 'lib') + ':' + lean_path)
        r = sh([lean_bin, '--root=' + os.path.join(d, 'root'), '-o', os.path.join(d, 'lib', 'StScratch', 'GeneratedState.olean'), gen],
               env=env, cwd=os.path.join(d, 'root'))
        if r.returncode != 0:
            rows.append((name, 'accepted', 'generated file does not compile', r.stdout.strip().split('\n')[0]))
            continue
        proof = os.path.join(d, 'root', 'StScratch', 'C20c.lean')
        ptext = open(PROOF).read()
        if ptext.count('import FancyModel.GeneratedState\n') != 1:
            sys.exit('C20c.lean does not import FancyModel.GeneratedState exactly once')
        open(proof, 'w').write(ptext.replace('import FancyModel.GeneratedState\n', 'import StScratch.GeneratedState\n'))
        r = sh([lean_bin, '--root=' + os.path.join(d, 'root'), proof], env=env, cwd=os.path.join(d, 'root'))
        errs = [l for l in r.stdout.split('\n') if ': error' in l]
        if r.returncode == 0 and not errs:
            rows.append((name, 'accepted' + (', generated Lean identical' if same and i else ''), 'proof HOLDS', ''))
        else:
            where = sorted({l.split(':')[1] for l in errs if l.count(':') > 2 and l.split(':')[1].isdigit()}, key=int)
            thms = []
            for w in where:
                t = locate(int(w))
                if t not in thms:
                    thms.append(t)
            rows.append((name, 'accepted', 'proof FAILS', '%d error(s): %s' % (len(errs), ', '.join(thms[:3]) + (' …' if len(thms) > 3 else ''))))
    print('| source | translator | Proofs/C20c.lean | detail |')
    print('|---|---|---|---|')
    for r in rows:
        print('| %s | %s | %s | %s |' % r)
    if outside:
        print('\nseeded patches that change src/vm.rs but not the text of `impl State` / its structs: ' + ', '.join(outside))
    return 0


if __name__ == '__main__':
    sys.exit(main())
