#!/usr/bin/env python3
"""Sensitivity of the glue tie (tools/rs2lean_lib.py + lean/FancyModel/Proofs/C16c.lean, C09b.lean).

For the unmutated /repo/src/lib.rs + replacer.rs, hand-made mutations, meaning-preserving controls and every
seeded/{C09,C11,C14,C16,C18}/*/patch.diff: translate a scratch COPY of the sources into a scratch GeneratedLib.lean, compile it
(module LibScratch.GeneratedLib), elaborate a copy of Proofs/C16c.lean whose import of `FancyModel.GeneratedLib` is redirected to
it (compiled to LibScratch.C16c), then a copy of Proofs/C09b.lean whose import of `FancyModel.Proofs.C16c` is redirected to that.
Nothing under /repo or /verif/lean is written. Prints a markdown table.

usage: rs2lean_lib_sensitivity.py [--work DIR] [--only SUBSTRING]      (default /tmp/libsens)
"""
import glob, os, re, shutil, subprocess, sys

VERIF = os.path.dirname(os.path.dirname(os.path.abspath(__file__)))
LEAN = os.path.join(VERIF, 'lean')
TRANSLATOR = os.path.join(VERIF, 'tools', 'rs2lean_lib.py')
P16 = os.path.join(LEAN, 'FancyModel', 'Proofs', 'C16c.lean')
P09 = os.path.join(LEAN, 'FancyModel', 'Proofs', 'C09b.lean')


def sh(cmd, **kw):
    return subprocess.run(cmd, stdout=subprocess.PIPE, stderr=subprocess.STDOUT, text=True, **kw)


def once(text, old, new, what):
    if text.count(old) != 1:
        sys.exit('mutation %s: the text to replace occurs %d times' % (what, text.count(old)))
    return text.replace(old, new)


def mutations(lib, rep):
    L = lambda name, old, new, what: (name, {'lib.rs': once(lib, old, new, what)})
    yield L('(a) captures: `saves.truncate(n_groups * 2)` -> `* 2 + 2`', 'saves.truncate(n_groups * 2);', 'saves.truncate(n_groups * 2 + 2);', 'a')
    yield L('(b) is_match: searches from position 1', 'let result = vm::run(prog, text, 0, 0, options)?;', 'let result = vm::run(prog, text, 1, 0, options)?;', 'b')
    yield L('(c) captures_len: `*n_groups` -> `*n_groups + 1`', 'RegexImpl::Fancy { n_groups, .. } => *n_groups,', 'RegexImpl::Fancy { n_groups, .. } => *n_groups + 1,', 'c')
    yield L('(d) capture_names: off by one, `names[i + 1] = …`', 'names[i] = Some(name.as_str());', 'names[i + 1] = Some(name.as_str());', 'd')
    yield L('(e) Captures::get: the start read from `saves[slot + 1]`', '                let lo = saves[slot];', '                let lo = saves[slot + 1];', 'e')
    yield L('(e2) Captures::get: the F22 repair reverted (`i.checked_mul(2)` -> `i * 2`: wraps / panics for i >= 2^63)',
            '                let slot = match i.checked_mul(2) {\n                    Some(slot) => slot,\n                    None => return None,\n                };\n', '                let slot = i * 2;\n', 'e2')
    yield L('(f) Captures::name: `self.get(*i)` -> `self.get(*i + 1)`', '.and_then(|i| self.get(*i))', '.and_then(|i| self.get(*i + 1))', 'f')
    yield L('(g) builder: `backtrack_limit` writes `delegate_size_limit`', '        self.0.backtrack_limit = limit;', '        self.0.delegate_size_limit = Some(limit);', 'g')
    yield ('(h) no_expansion: the `$` test inverted', {'replacer.rs': once(rep, "if s.contains('$') {", "if !s.contains('$') {", 'h')})
    yield L('(i) find_from_pos: passes flags 2 instead of 0', 'self.find_from_pos_with_option_flags(text, pos, 0)', 'self.find_from_pos_with_option_flags(text, pos, 2)', 'i')
    yield L('(j) new_options: `if !inner_info.hard` -> `if inner_info.hard`', '        if !inner_info.hard {', '        if inner_info.hard {', 'j')
    yield L('(k) find: `Match::new(text, saves[0], saves[1])` -> `saves[1], saves[0]`', 'Match::new(text, saves[0], saves[1])', 'Match::new(text, saves[1], saves[0])', 'k')
    yield L('(l) new_options: `n_groups: info.end_group` -> `info.end_group + 1`', '                n_groups: info.end_group,', '                n_groups: info.end_group + 1,', 'l')
    yield L('(m) SubCaptureMatches::next: `self.i < self.caps.len()` -> `<=`', 'if self.i < self.caps.len() {', 'if self.i <= self.caps.len() {', 'm')
    yield L('(n) wrap_tree: the prefix `(?s:.)*?` made greedy', '                greedy: false,\n            },\n            Expr::Group(Box::new(raw_tree.expr)),', '                greedy: true,\n            },\n            Expr::Group(Box::new(raw_tree.expr)),', 'n')
    yield ('(o) NoExpand::no_expansion: `None`', {'replacer.rs': once(rep, '        Some(Cow::Borrowed(self.0))', '        None', 'o')})
    yield L('(p) find_from_pos_with_option_flags (VM path): the flags are not passed on', 'let result = vm::run(prog, text, pos, option_flags, options)?;\n                Ok(result.map(|saves| Match::new', 'let result = vm::run(prog, text, pos, 0, options)?;\n                Ok(result.map(|saves| Match::new', 'p')
    yield L('(q) case_insensitive: the setter stores the negation', 'self.0.syntaxc = syntaxc.case_insensitive(yes);', 'self.0.syntaxc = syntaxc.case_insensitive(!yes);', 'q')
    yield L('(r) new_options: the hardness of the WHOLE wrapped tree is tested (`info.children[1]`)', 'let inner_info = &info.children[1].children[0];', 'let inner_info = &info.children[1];', 'r')
    yield L('(control) new_options: the fields of the returned `Regex { .. }` written in the other order (same meaning)',
            '        Ok(Regex {\n            inner: RegexImpl::Fancy {\n                prog,\n                n_groups: info.end_group,\n                options,\n            },\n            named_groups: Arc::new(tree.named_groups),\n        })',
            '        Ok(Regex {\n            named_groups: Arc::new(tree.named_groups),\n            inner: RegexImpl::Fancy {\n                prog,\n                n_groups: info.end_group,\n                options,\n            },\n        })', 's')
    yield L('(control) comments and blank lines added (same meaning)', '                let slot = match i.checked_mul(2) {\n', '                // two slots per group\n\n                let slot = /* start */ match i.checked_mul(2) {\n', 't')
    yield L('(control) RegexOptions::default: two fields swapped in the literal (same meaning)',
            '            backtrack_limit: 1_000_000,\n            delegate_size_limit: None,\n', '            delegate_size_limit: None,\n            backtrack_limit: 1_000_000,\n', 'u')
    # ---- the widened subset
    yield L('(control) Captures::get: the local `slot` renamed to `order` (a name the generated code uses itself: renamed apart; same meaning)',
            '                let slot = match i.checked_mul(2) {\n                    Some(slot) => slot,\n                    None => return None,\n                };\n                if slot >= saves.len() {\n                    return None;\n                }\n                let lo = saves[slot];\n                if lo == usize::MAX {\n                    return None;\n                }\n                let hi = saves[slot + 1];',
            '                let order = match i.checked_mul(2) {\n                    Some(order) => order,\n                    None => return None,\n                };\n                if order >= saves.len() {\n                    return None;\n                }\n                let lo = saves[order];\n                if lo == usize::MAX {\n                    return None;\n                }\n                let hi = saves[order + 1];', 'w1')
    yield L('(control) Captures::get: `let slot: usize = match …;` (type annotation, same meaning)', '                let slot = match i.checked_mul(2) {\n', '                let slot: usize = match i.checked_mul(2) {\n', 'w2')
    yield L('(w) find (VM path): the start capped from below, `saves[0].max(pos)` (seeded C09/d without its vm.rs half)',
            'Match::new(text, saves[0], saves[1])', 'Match::new(text, saves[0].max(pos), saves[1])', 'w3')
    yield L('(x) capture_names: `Vec::with_capacity` and a `resize` on demand instead of `resize(self.captures_len(), None)` (seeded C16/g)',
            '        let mut names = Vec::new();\n        names.resize(self.captures_len(), None);\n        for (name, &i) in self.named_groups.iter() {\n',
            '        let mut names = Vec::with_capacity(self.captures_len());\n        for (name, &i) in self.named_groups.iter() {\n            if names.len() <= i {\n                names.resize(i + 1, None);\n            }\n', 'w4')
    yield L('(y) captures: `saves.truncate(n_groups * 2)` -> `saves.truncate(n_groups << 2)`', 'saves.truncate(n_groups * 2);', 'saves.truncate(n_groups << 2);', 'w5')
    yield L('(rejected?) Captures::len written with `.checked_div`', 'CapturesImpl::Fancy { saves, .. } => saves.len() / 2,', 'CapturesImpl::Fancy { saves, .. } => saves.len().checked_div(2).unwrap_or(0),', 'v')


def locate(path, line):
    src = open(path).read().split('\n')
    for k in range(min(line, len(src)) - 1, -1, -1):
        m = re.match(r"^(?:private )?(?:theorem|def|example)\s*([A-Za-z_][A-Za-z0-9_.']*)?", src[k])
        if m:
            return '`%s`' % (m.group(1) or 'example')
    return '?'


def errs_of(out, path):
    errs = [l for l in out.split('\n') if ': error' in l]
    where = sorted({l.split(':')[1] for l in errs if l.count(':') > 2 and l.split(':')[1].isdigit()}, key=int)
    thms = []
    for w in where:
        t = locate(path, int(w))
        if t not in thms:
            thms.append(t)
    return errs, thms


def main():
    work = '/tmp/libsens'
    if '--work' in sys.argv:
        work = sys.argv[sys.argv.index('--work') + 1]
    only = sys.argv[sys.argv.index('--only') + 1] if '--only' in sys.argv else None
    shutil.rmtree(work, ignore_errors=True)
    os.makedirs(work)
    lean_path = sh(['lake', 'env', 'printenv', 'LEAN_PATH'], cwd=LEAN).stdout.strip().split('\n')[-1]
    lean_bin = sh(['lake', 'env', 'which', 'lean'], cwd=LEAN).stdout.strip().split('\n')[-1]
    lib, rep = open('/repo/src/lib.rs').read(), open('/repo/src/replacer.rs').read()
    cases = [('unmutated /repo/src/lib.rs + replacer.rs', {})] + list(mutations(lib, rep))
    for p in sorted(glob.glob(os.path.join(VERIF, 'seeded', 'C*', '*', 'patch.diff'))):
        if not re.search(r'/seeded/(C09|C11|C14|C16|C18)/', p):
            continue
        d = os.path.join(work, 'patch')
        shutil.rmtree(d, ignore_errors=True)
        shutil.copytree('/repo/src', os.path.join(d, 'src'))
        r = sh(['patch', '-p1', '-s', '-f', '-i', p], cwd=d)
        name = 'seeded/' + os.path.relpath(os.path.dirname(p), os.path.join(VERIF, 'seeded'))
        if r.returncode != 0:
            cases.append((name, None))
            continue
        cases.append((name, {fn: open(os.path.join(d, 'src', fn)).read() for fn in ('lib.rs', 'replacer.rs')}))
    if only:
        cases = [cases[0]] + [x for x in cases[1:] if only in x[0]]
    norm = lambda g: re.sub(r'line \d+', 'line N', g)
    base_gen, rows = None, []
    for i, (name, files) in enumerate(cases):
        d = os.path.join(work, 'c%02d' % i)
        os.makedirs(os.path.join(d, 'lib', 'LibScratch'))
        if files is None:
            rows.append((name, 'patch does not apply', '-', '-', ''))
            continue
        os.makedirs(os.path.join(d, 'src'))
        for fn in ('lib.rs', 'replacer.rs'):
            open(os.path.join(d, 'src', fn), 'w').write(files.get(fn) or open('/repo/src/' + fn).read())
        os.makedirs(os.path.join(d, 'root', 'LibScratch'))
        gen = os.path.join(d, 'root', 'LibScratch', 'GeneratedLib.lean')
        r = sh([sys.executable, TRANSLATOR, os.path.join(d, 'src', 'lib.rs'), '-o', gen])
        if r.returncode != 0:
            rows.append((name, 'REJECTED (exit %d)' % r.returncode, '-', '-', r.stdout.strip().split('\n')[-1].replace(os.path.join(d, 'src') + '/', '')))
            continue
        g = open(gen).read()
        if base_gen is None:
            base_gen = g
        if i and norm(g) == norm(base_gen):
            rows.append((name, 'accepted, generated Lean identical (up to line numbers)', 'proof HOLDS', 'proof HOLDS',
                         'the change is outside the translated functions' if name.startswith('seeded') else ''))
            continue
        env = dict(os.environ, LEAN_PATH=os.path.join(d, 'lib') + ':' + lean_path)
        root = os.path.join(d, 'root')
        r = sh([lean_bin, '--root=' + root, '-o', os.path.join(d, 'lib', 'LibScratch', 'GeneratedLib.olean'), gen], env=env, cwd=root)
        if r.returncode != 0:
            rows.append((name, 'accepted', 'generated file does not compile', '-', r.stdout.strip().split('\n')[0]))
            continue
        p16 = os.path.join(root, 'LibScratch', 'C16c.lean')
        open(p16, 'w').write(open(P16).read().replace('import FancyModel.GeneratedLib\n', 'import LibScratch.GeneratedLib\n'))
        r16 = sh([lean_bin, '--root=' + root, '-o', os.path.join(d, 'lib', 'LibScratch', 'C16c.olean'), p16], env=env, cwd=root)
        e16, t16 = errs_of(r16.stdout, P16)
        ok16 = r16.returncode == 0 and not e16
        s16 = 'proof HOLDS' if ok16 else 'proof FAILS'
        detail = '' if ok16 else 'C16c: %d error(s): %s' % (len(e16), ', '.join(t16[:3]))
        if not ok16:
            # C09b needs a compiled C16c: check it against the real C16c's statements by compiling C16c with `sorry`-free stubs is not
            # possible; report it as not checked
            rows.append((name, 'accepted', s16, 'not checked (imports C16c)', detail))
            continue
        p09 = os.path.join(root, 'LibScratch', 'C09b.lean')
        open(p09, 'w').write(open(P09).read().replace('import FancyModel.Proofs.C16c\n', 'import LibScratch.C16c\n'))
        r09 = sh([lean_bin, '--root=' + root, p09], env=env, cwd=root)
        e09, t09 = errs_of(r09.stdout, P09)
        ok09 = r09.returncode == 0 and not e09
        if not ok09:
            detail = 'C09b: %d error(s): %s' % (len(e09), ', '.join(t09[:3]))
        rows.append((name, 'accepted', s16, 'proof HOLDS' if ok09 else 'proof FAILS', detail))
    print('| source | translator | Proofs/C16c.lean | Proofs/C09b.lean | detail |')
    print('|---|---|---|---|---|')
    for r in rows:
        print('| %s | %s | %s | %s | %s |' % r)
    return 0


if __name__ == '__main__':
    sys.exit(main())
