#!/usr/bin/env python3
"""Translate the remaining glue of src/lib.rs and src/replacer.rs (fancy-regex) into Lean: lean/FancyModel/GeneratedLib.lean.

  lib.rs: `RegexOptions::default`, `RegexBuilder::{new, build, case_insensitive, backtrack_limit, delegate_size_limit,
  delegate_dfa_size_limit}`, `Regex::{new, new_options}`, `wrap_tree`, the entry points `is_match`, `find`, `find_from_pos`,
  `find_from_pos_with_option_flags`, `captures`, `captures_from_pos`, `captures_from_pos_with_option_flags`, `captures_len`,
  `capture_names`, `Match::{start, end, range, as_str, new}`, `Captures::{get, name, iter, len}`, `SubCaptureMatches::next`;
  replacer.rs: `fn no_expansion`, the `no_expansion` / `replace_append` methods of the `Replacer` impls.

usage: rs2lean_lib.py [LIB_RS] [-o OUT.lean] [--replacer REPLACER_RS] [--stub-on-failure]
       (LIB_RS defaults to $RS2LEAN_LIB_SRC or /repo/src/lib.rs, REPLACER_RS to replacer.rs next to it, OUT to $RS2LEAN_LIBGLUE_OUT or
        lean/FancyModel/GeneratedLib.lean; --stub-on-failure, used by tools/extract.py: a failure leaves a stub that does not
        compile in OUT and exits 0)

Mechanical, like the other rs2lean_* translators. Anything outside the subset is an error (exit status 2, the construct and
its line). What is NOT read from the Rust text is in lean/FancyModel/GenLibPrelude.lean and in the tables below;
see notes/translator-lib.md.
"""
import os, re, sys

sys.path.insert(0, os.path.dirname(os.path.abspath(__file__)))
import rs2lean_analyze as ra
import rs2lean_vm as rv
import rs2lean_tostr as rt
import rs2lean_expand as rx
import rs2lean_ints as ints
from rs2lean_analyze import Unsupported, bad, matching, top_level_positions, parse_struct, parse_enum, int_of, find_seq
from rs2lean_vm import tokenize, lean_id, LITERALS
from rs2lean_tostr import lean_char, lean_str

VERIF = os.path.dirname(os.path.dirname(os.path.abspath(__file__)))
DEFAULT_SRC = '/repo/src/lib.rs'
DEFAULT_OUT = os.path.join(VERIF, 'lean', 'FancyModel', 'GeneratedLib.lean')
ENUMS = ('Expr', 'Assertion', 'RegexImpl', 'CapturesImpl')


# ------------------------------------------------------------------------------------------------ parser

class Parser(rx.Parser):
    """+ struct literals with `..base`, patterns of `RegexImpl` / `CapturesImpl`, `return`, `for`, `+=`, `unreachable!()`"""

    def p_primary(self, ns):
        t = self.peek()
        if t.kind == 'id' and t.text == 'vec' and self.peek(1).text == '!' and self.peek(2).text == '[':
            self.next()
            self.next()
            self.next()
            items = []
            while not self.at(']'):
                items.append(self.expr())
                if self.at(';'):
                    bad('`vec![x; n]`', t.line)
                if not self.at(']'):
                    self.expect(',')
            self.next()
            return ('vec', items, t.line)
        if t.kind == 'id' and t.text == 'unreachable' and self.peek(1).text == '!':
            self.next()
            self.next()
            self.i = matching(self.toks, self.i) + 1
            return ('panic', t.line)
        if t.kind == 'id' and t.text[:1].isupper() and not ns:
            # a path followed by `{`: a struct literal, possibly with `..base`
            j, path = self.i, [t.text]
            k = j + 1
            while self.toks[k].text == '::' and self.toks[k + 1].kind == 'id':
                path.append(self.toks[k + 1].text)
                k += 2
            if self.toks[k].text == '{' and path[-1][:1].isupper():
                self.i = k + 1
                fields, base = [], None
                while not self.at('}'):
                    if self.at('..'):
                        self.next()
                        base = self.expr()
                        break
                    ft = self.peek()
                    name = self.ident()
                    if self.at(':'):
                        self.next()
                        fields.append((name, self.expr(), ft.line))
                    else:
                        fields.append((name, ('path', [name], ft.line), ft.line))
                    if not self.at('}'):
                        self.expect(',')
                self.expect('}')
                return ('struct', path, fields, base, t.line)
        return rx.Parser.p_primary(self, ns)

    def closure(self):
        t = self.next()
        params = []
        if t.text == '|':
            while not self.at('|'):
                if self.at('mut'):
                    self.next()
                params.append(self.pattern())
                if self.at(':'):
                    bad('closure parameter with a type', t.line)
                if not self.at('|'):
                    self.expect(',')
            self.next()
        if self.at('{'):
            stmts, tail = self.block()
            return ('closure', params, ('blockexpr', stmts, tail, t.line), t.line)
        return ('closure', params, self.expr(), t.line)

    def pattern(self):
        t = self.peek()
        if t.kind == 'id' and self.peek(1).text == '::' and t.text in ENUMS and t.text not in ('Expr', 'Assertion'):
            self.next()
            self.next()
            v = self.ident()
            items, rest, shape = {}, False, 'unit'
            if self.at('{'):
                shape = 'struct'
                self.next()
                while not self.at('}'):
                    if self.at('..'):
                        self.next()
                        rest = True
                        break
                    if self.at('ref'):
                        self.next()
                    f = self.ident()
                    if self.at(':'):
                        self.next()
                        items[f] = self.pattern()
                    else:
                        items[f] = ('pbind', f, t.line)
                    if not self.at('}'):
                        self.expect(',')
                self.expect('}')
            return ('pvariant', t.text, v, shape, items, rest, t.line)
        return rx.Parser.pattern(self)

    def block(self):
        self.expect('{')
        stmts, tail = [], None
        while not self.at('}'):
            t = self.peek()
            if tail is not None:
                if tail[0] in ('if', 'iflet', 'match'):
                    stmts.append(('expr', tail, tail[-1]))
                    tail = None
                else:
                    bad('statement after a tail expression', t.line)
            if t.kind == 'op' and t.text == '#':
                if self.cfg_attr() is not None:
                    bad('`#[cfg(feature = "std")]` on a statement here', t.line)
                continue
            if t.kind == 'id' and t.text == 'let':
                self.next()
                mut = False
                if self.at('mut'):
                    self.next()
                    mut = True
                if self.peek().kind != 'id' or self.peek(1).text not in ('=', ':'):
                    bad('`let` with a pattern that is not a plain identifier', t.line)
                name = self.ident()
                ty = None
                if self.at(':'):
                    self.next()
                    ty = self.type_(['=', ';'])
                    if not (ints.is_int(ty) or ty == 'bool'):
                        bad('`let` with a type annotation other than an integer type / bool', t.line)
                self.expect('=')
                e = self.expr()
                self.expect(';')
                if ty is not None:
                    e = ('typed', e, ty, t.line)
                stmts.append(('let', name, mut, e, t.line))
            elif t.kind == 'id' and t.text == 'for':
                self.next()
                pat = self.pattern()
                self.expect('in')
                it = self.expr(no_struct=True)
                body, btail = self.block()
                if btail is not None:
                    bad('`for` body with a value', t.line)
                stmts.append(('for', pat, it, body, t.line))
            elif t.kind == 'id' and t.text == 'return':
                self.next()
                e = None if self.at(';') else self.expr()
                self.expect(';')
                stmts.append(('return', e, t.line))
            elif t.kind == 'id' and t.text in ('while', 'loop', 'break', 'continue', 'unsafe', 'fn', 'struct', 'use', 'const', 'static'):
                bad('`%s` statement' % t.text, t.line)
            else:
                e = self.expr()
                nt = self.peek()
                op = self.assign_op(('=', '+=', '-=', '*=', '|=', '&=', '^=', '<<=', '>>='))
                if op:
                    r = self.expr()
                    self.expect(';')
                    stmts.append(('assign', e, op, r, t.line))
                elif self.at(';'):
                    self.next()
                    stmts.append(('expr', e, t.line))
                elif self.at('}') or e[0] in ('if', 'iflet', 'match'):
                    tail = e
                else:
                    bad('unexpected `%s` after an expression' % nt.text, nt.line)
        self.expect('}')
        return stmts, tail


# ------------------------------------------------------------------------------------------------ tables

LEAN_T = {'usize': 'Nat', 'u32': 'Nat', 'int': 'Nat', 'bool': 'Bool', 'char': 'Char', 'str': 'List Char', 'Text': 'Ctx',
          'Options': 'ROptions', 'Builder': 'ROptions', 'Syntaxc': 'Bool', 'Regex': 'RRegex', 'Impl': 'RImpl', 'Prog': 'Prog',
          'RaRegex': 'List Char', 'Names': 'Names', 'Name': 'Name', 'Caps': 'RCaptures', 'CapsImpl': 'RCapsImpl', 'Locs': 'RaLocs',
          'Saves': 'List Nat', 'Match': '(Nat × Nat)', 'Span': '(Nat × Nat)', 'Info': 'GenAnalyze.GInfo', 'Expr': 'Expr', 'Tree': 'Tree',
          'VecExpr': 'List Expr', 'VecInfo': 'List GenAnalyze.GInfo', 'SubCaps': 'RSubCaptureMatches', 'OptNames': 'List (Option Name)',
          'Input': 'Option Ctx', 'unit': 'Unit', 'u64': 'Nat', 'u16': 'Nat', 'u8': 'Nat', 'Backrefs': 'List Nat', 'NoExpand': 'List Char'}
NUM = ('usize', 'u32', 'u64', 'u16', 'u8', 'int')


def width_of(t):
    return 'usize' if t == 'int' else t


def lt(t):
    if isinstance(t, tuple):
        if t[0] == 'opt':
            s = lt(t[1])
            return 'Option %s' % ('(%s)' % s if ' ' in s and not s.startswith('(') else s)
        if t[0] == 'pair':
            return '(%s × %s)' % (lt(t[1]), lt(t[2]))
    if t not in LEAN_T:
        bad('internal: no Lean type for %r' % (t,))
    return LEAN_T[t]


def same(a, b):
    if a in NUM and b in NUM:
        return True
    if isinstance(a, tuple) and isinstance(b, tuple) and a[0] == b[0] and len(a) == len(b):
        return all(x is None or y is None or same(x, y) for x, y in zip(a[1:], b[1:]))
    return a == b or {a, b} <= {'Match', 'Span'} or {a, b} <= {'Builder', 'Options'} or {a, b} <= {'str', 'RaRegex'}


# struct declarations checked on every run: name -> (tuple struct?, [(field, rust type)])
DECLS = {
    'RegexOptions': [('pattern', 'String'), ('syntaxc', 'SyntaxConfig'), ('backtrack_limit', 'usize'),
                     ('delegate_size_limit', 'Option<usize>'), ('delegate_dfa_size_limit', 'Option<usize>')],
    'Regex': [('inner', 'RegexImpl'), ('named_groups', 'Arc<NamedGroups>')],
    'Match': [('text', "&'t str"), ('start', 'usize'), ('end', 'usize')],
    'Captures': [('inner', "CapturesImpl<'t>"), ('named_groups', 'Arc<NamedGroups>')],
    'SubCaptureMatches': [('caps', "&'c Captures<'t>"), ('i', 'usize')],
}
TOKEN_DECLS = [
    'pub struct RegexBuilder ( RegexOptions ) ;',
    'enum RegexImpl { Wrap { inner : RaRegex , options : RegexOptions , } , Fancy { prog : Prog , n_groups : usize , options : RegexOptions , } , }',
    "enum CapturesImpl < 't > { Wrap { text : & 't str , locations : RaCaptures , } , Fancy { text : & 't str , saves : Vec < usize > , } , }",
    "pub struct CaptureNames < 'r > ( vec :: IntoIter < Option < & 'r str > > ) ;",
]
# (type, rust field) -> (lean projection | None, type of the field)
FIELDS = {
    ('Options', 'pattern'): ('pattern', 'str'), ('Options', 'syntaxc'): ('syntaxc', 'Syntaxc'),
    ('Options', 'backtrack_limit'): ('backtrackLimit', 'usize'),
    ('Options', 'delegate_size_limit'): ('delegateSizeLimit', ('opt', 'usize')),
    ('Options', 'delegate_dfa_size_limit'): ('delegateDfaSizeLimit', ('opt', 'usize')),
    ('Regex', 'inner'): ('inner', 'Impl'), ('Regex', 'named_groups'): ('namedGroups', 'Names'),
    ('Caps', 'inner'): ('inner', 'CapsImpl'), ('Caps', 'named_groups'): ('namedGroups', 'Names'),
    ('SubCaps', 'caps'): ('caps', 'Caps'), ('SubCaps', 'i'): ('i', 'usize'),
    ('Match', 'start'): ('1', 'usize'), ('Match', 'end'): ('2', 'usize'), ('Match', 'text'): (None, 'Text'),
    ('Span', 'start'): ('1', 'usize'), ('Span', 'end'): ('2', 'usize'),
    ('Info', 'children'): ('children', 'VecInfo'), ('Info', 'hard'): ('hard', 'bool'), ('Info', 'end_group'): ('endGroup', 'usize'),
    ('Tree', 'expr'): ('expr', 'Expr'), ('Tree', 'named_groups'): ('namedGroups', 'Names'), ('Tree', 'backrefs'): ('backrefs', 'Backrefs'),
}
# struct literals: name -> (lean constructor form, [(rust field, lean field | None, type)]); positional if the form has {}
STRUCT_LITS = {
    ('RegexOptions',): ('record', 'ROptions', [('pattern', 'pattern', 'str'), ('syntaxc', 'syntaxc', 'Syntaxc'),
                                               ('backtrack_limit', 'backtrackLimit', 'usize'),
                                               ('delegate_size_limit', 'delegateSizeLimit', ('opt', 'usize')),
                                               ('delegate_dfa_size_limit', 'delegateDfaSizeLimit', ('opt', 'usize'))], 'Options'),
    ('Regex',): ('record', 'RRegex', [('inner', 'inner', 'Impl'), ('named_groups', 'namedGroups', 'Names')], 'Regex'),
    ('RegexImpl', 'Wrap'): ('ctor', '.wrap', [('inner', 0, 'RaRegex'), ('options', 1, 'Options')], 'Impl'),
    ('RegexImpl', 'Fancy'): ('ctor', '.fancy', [('prog', 0, 'Prog'), ('n_groups', 1, 'usize'), ('options', 2, 'Options')], 'Impl'),
    ('Captures',): ('record', 'RCaptures', [('inner', 'inner', 'CapsImpl'), ('named_groups', 'namedGroups', 'Names')], 'Caps'),
    ('CapturesImpl', 'Wrap'): ('ctor', '.wrap', [('text', None, 'Text'), ('locations', 0, 'Locs')], 'CapsImpl'),
    ('CapturesImpl', 'Fancy'): ('ctor', '.fancy', [('text', None, 'Text'), ('saves', 0, 'Saves')], 'CapsImpl'),
    ('SubCaptureMatches',): ('record', 'RSubCaptureMatches', [('caps', 'caps', 'Caps'), ('i', 'i', 'usize')], 'SubCaps'),
    ('Match',): ('pair', None, [('text', None, 'Text'), ('start', 0, 'usize'), ('end', 1, 'usize')], 'Match'),
    ('ExprTree',): ('record', 'Tree', [('expr', 'expr', 'Expr'), ('backrefs', 'backrefs', 'Backrefs'), ('named_groups', 'namedGroups', 'Names')], 'Tree'),
}
# enum patterns: (enum, variant) -> (lean pattern template with {field}, {field: type}); fields not named are `_`
VARIANT_PATS = {
    ('RegexImpl', 'Wrap'): ('.wrap {inner} {options}', {'inner': 'RaRegex', 'options': 'Options'}),
    ('RegexImpl', 'Fancy'): ('.fancy {prog} {n_groups} {options}', {'prog': 'Prog', 'n_groups': 'usize', 'options': 'Options'}),
    ('CapturesImpl', 'Wrap'): ('.wrap {locations}', {'locations': 'Locs', 'text': None}),
    ('CapturesImpl', 'Fancy'): ('.fancy {saves}', {'saves': 'Saves', 'text': None}),
}
RESERVED = {'sem', 'fuel', 'parse', 'order', 'e_', 's_', 'rest_', 'expand'}


def vid(name):
    """the Lean identifier of a Rust variable: a name that the generated code uses for itself (RESERVED, `t1`, `t2`, …) is
    renamed apart (`n` -> `n_rs`), so that a local may be called anything"""
    return lean_id(name + '_rs') if (name in RESERVED or re.match(r't[0-9]+$', name)) else lean_id(name)


def clash_rs(name):
    return name.endswith('_rs') and (name[:-3] in RESERVED or re.match(r't[0-9]+$', name[:-3]) is not None)


def is_path(e, *names):
    return e[0] == 'path' and e[1] == list(names)


class Ctx:
    def __init__(self):
        self.types, self.mutable, self.fn, self.lres = {}, set(), None, False
        self.ret = None
        self.loop = None
        self.self_type = None
        self.mutself = False
        self.result_type = False
        self.pubparams = frozenset()

    def copy(self):
        c = Ctx()
        c.__dict__.update(self.__dict__)
        c.types, c.mutable = dict(self.types), set(self.mutable)
        return c


class Translator:
    def __init__(self, toks, rep_toks):
        self.toks, self.rep_toks = toks, rep_toks
        self.defs, self.names, self.have, self.tmpn = [], set(), {}, 0

    def fresh(self):
        self.tmpn += 1
        return 't%d' % self.tmpn

    @staticmethod
    def emit_pre(pre, ind):
        out = []
        for h in pre:
            if h[0] == 'let':
                out.append(ind + 'let %s := %s' % (h[1], h[2]))
            elif h[0] == 'opt':
                out += [ind + 'match %s with' % h[1], ind + '| none => .panic "%s"' % h[2], ind + '| some %s =>' % h[3]]
                ind += '  '
            else:
                out += [ind + 'match %s with' % h[1], ind + '| .err e_ => .err e_', ind + '| .panic s_ => .panic s_', ind + '| .ok %s =>' % h[2]]
                ind += '  '
        return out, ind

    def need_lres(self, c, pre, line):
        if pre and not c.lres:
            bad('an operation that can panic / fail in `%s`, which is translated as a total function' % c.fn, line)

    def bind(self, c, name, t, line, mut=False, shadow=False):
        if (name in c.types and not shadow) or clash_rs(name) or name in self.names:
            bad('`%s` shadows a name of an enclosing scope / a parameter (only an earlier `let` of the same block may be shadowed)' % name, line)
        c2 = c.copy()
        c2.types[name] = 'usize' if t == 'int' else t
        c2.mutable.discard(name)
        if mut:
            c2.mutable.add(name)
        return c2

    def site(self, c, op):
        return '%s: %s' % (c.fn, op)

    # ---- expressions -> (pre, lean text, type)
    def ex(self, e, c, expect=None):
        k, line = e[0], e[-1]
        if k == 'int':
            return [], str(e[1]), 'int'
        if k == 'tint':
            if not ints.is_int(e[2]) or not ints.fits(e[1], e[2]):
                bad('integer literal of type %s' % e[2], line)
            return [], str(e[1]), e[2]
        if k == 'typed':                     # `let x: T = e`
            p, s, t = self.ex(e[1], c, e[2])
            if ints.is_int(e[2]):
                if not (t == e[2] or (t == 'int' and s.isdigit() and ints.fits(int(s), e[2]))):
                    bad('`let _: %s` of a value of type %s' % (e[2], t), line)
                return p, s, e[2]
            if t != e[2]:
                bad('`let _: %s` of a value of type %s' % (e[2], t), line)
            return p, s, t
        if k == 'cast':
            p, s, t = self.ex(e[1], c)
            if e[2] in ints.SIGNED:
                bad('cast to the signed / 128-bit type %s (not in the subset)' % e[2], line)
            if t not in NUM or not ints.is_int(e[2]):
                bad('cast from %s to %s' % (t, e[2]), line)
            if t == 'int':
                if not (s.isdigit() and ints.fits(int(s), e[2])):
                    bad('cast of a literal expression', line)
                return p, s, e[2]
            return p, ints.cast(s, t, e[2]), e[2]
        if k == 'char':
            return [], lean_char(e[1]), 'char'
        if k == 'bool':
            return [], ('true' if e[1] else 'false'), 'bool'
        if k == 'unit':
            return [], '()', 'unit'
        if k in ('paren', 'ref', 'refmut', 'deref'):
            return self.ex(e[1], c, expect)
        if k == 'path':
            if e[1] == ['None']:
                return [], 'none', ('opt', expect[1] if isinstance(expect, tuple) and expect[0] == 'opt' else None)
            if e[1] == ['usize', 'MAX']:
                return [], 'UNSET', 'usize'
            if len(e[1]) != 1 or e[1][0] not in c.types:
                bad('`%s` as a value' % '::'.join(e[1]), line)
            n = e[1][0]
            return [], ('self' if n == 'self' else vid(n)), c.types[n]
        if k == 'tfield':
            p, s, t = self.ex(e[1], c)
            if e[2] == 0 and t == 'Builder':
                return p, s, 'Options'
            if e[2] == 0 and t == 'NoExpand':
                return p, s, 'str'
            bad('`.%d` on a value of type %s' % (e[2], t), line)
        if k == 'field':
            p, s, t = self.ex(e[1], c)
            if (t, e[2]) in FIELDS:
                proj, ft = FIELDS[(t, e[2])]
                if proj is None:
                    if ft == 'Text' and 'text' in c.types:
                        return p, 'text', 'Text'
                    bad('field `.%s` has no counterpart in the model' % e[2], line)
                return p, '%s.%s' % (s, proj), ft
            bad('field `.%s` of a value of type %s' % (e[2], t), line)
        if k == 'not':
            p, s, t = self.ex(e[1], c)
            if t != 'bool':
                bad('operand of `!` has type %s' % (t,), line)
            return p, '(!%s)' % s, 'bool'
        if k == 'range':
            (p1, a, t1), (p2, b, t2) = self.ex(e[1], c), self.ex(e[2], c)
            if t1 not in NUM or t2 not in NUM:
                bad('range of %s .. %s' % (t1, t2), line)
            return p1 + p2, '(%s, %s)' % (a, b), 'Range'
        if k == 'bin':
            _, op, a, b, _ = e
            (pa, l, tl), (pb, r, tr) = self.ex(a, c), self.ex(b, c)
            if op in ('&&', '||') and tl == tr == 'bool' and not pb:
                return pa, '(%s %s %s)' % (l, op, r), 'bool'
            if op in ('==', '!=') and same(tl, tr) and (tl in NUM or tl in ('char', 'bool')):
                return pa + pb, '(%s %s %s)' % (l, op, r), 'bool'
            if op in ('<', '<=', '>', '>=') and tl in NUM and tr in NUM:
                return pa + pb, '(decide (%s %s %s))' % (l, {'<': '<', '<=': '≤', '>': '>', '>=': '≥'}[op], r), 'bool'
            if op in ('+', '*') and tl in NUM and tr in NUM:
                rt_ = tr if tl == 'int' else tl
                if rt_ in ('usize', 'int') and any(x[0] == 'path' and len(x[1]) == 1 and x[1][0] in c.pubparams
                                                   for x in (ints.strip(a), ints.strip(b))):
                    # an operand is a `usize` PARAMETER OF A PUBLIC FUNCTION: a caller may pass any value, so "64-bit arithmetic
                    # on offsets and counters does not overflow" is not available (F22): the overflow is a panic outcome (the
                    # profile the harness builds with: overflow checks on), as an underflowing `-` is everywhere
                    t = self.fresh()
                    return (pa + pb + [('opt', '(if %s %s %s < %d then some (%s %s %s) else none)' % (l, op, r, ints.modulus('usize'), l, op, r),
                                        self.site(c, 'overflow'), t)], t, 'usize')
                if rt_ in ('usize', 'u32', 'int'):       # (the flags are `u32`: as before, no overflow)
                    return pa + pb, '(%s %s %s)' % (l, op, r), 'usize' if rt_ == 'int' else ('usize' if rt_ == 'u32' else rt_)
                return pa + pb, ints.arith(op, l, r, rt_), rt_
            if op == '/' and tl in NUM and b[0] == 'int' and b[1] != 0:
                return pa + pb, '(%s / %s)' % (l, r), 'usize'
            if op == '-' and tl in NUM and tr in NUM:
                t = self.fresh()                   # underflow = panic, as in the other translators
                return pa + pb + [('opt', 'checkedSub %s %s' % (l, r), self.site(c, 'sub'), t)], t, (tr if tl == 'int' else tl)
            if op in ('|', '&', '^') and tl in NUM and tr in NUM:
                return pa + pb, ints.bitop(op, l, r), (tr if tl == 'int' else tl)
            if op in ('|', '&') and tl == tr == 'bool':
                return pa + pb, '(%s %s %s)' % (l, '||' if op == '|' else '&&', r), 'bool'
            if op in ('<<', '>>') and tl in NUM and tr in NUM:
                if tl == 'int':
                    bad('`%s` on an integer literal whose type is not evident here' % op, line)
                return pa + pb, ints.shift(op, l, r, tl), tl
            bad('`%s` between %s and %s' % (op, tl, tr), line)
        if k == 'index':
            if e[2][0] == 'range' and e[1][0] == 'field' and e[1][2] == 'text' and self.ex(e[1][1], c)[2] == 'Match':
                p2, r, _ = self.ex(e[2], c)          # `&self.text[a..b]`: the haystack is not represented, the slice is its bounds
                return p2, r, 'Span'
            pb, b, tb = self.ex(e[1], c)
            if e[2][0] == 'range':
                if tb == 'Text':
                    p2, r, _ = self.ex(e[2], c)
                    return pb + p2, r, 'Span'
                bad('slice of a value of type %s' % (tb,), line)
            pi, i, ti = self.ex(e[2], c)
            elem = {'Saves': 'usize', 'VecInfo': 'Info', 'VecExpr': 'Expr'}.get(tb)
            if elem is None or ti not in NUM:
                bad('indexing a value of type %s' % (tb,), line)
            t = self.fresh()
            return pb + pi + [('opt', '%s[%s]?' % (b, i), self.site(c, 'index'), t)], t, elem
        if k == 'struct':
            return self.ex_struct(e, c)
        if k == 'vec':
            vals = [self.ex(x, c) for x in e[1]]
            if any(t != 'Expr' for _, _, t in vals):
                bad('`vec![..]` of something other than expressions', line)
            return sum((p for p, _, _ in vals), []), '[%s]' % ', '.join(v for _, v, _ in vals), 'VecExpr'
        if k == 'call':
            return self.ex_call(e, c, expect)
        if k == 'mcall':
            return self.ex_mcall(e, c, expect)
        if k == 'try':
            p, s, t = self.ex(e[1], c)
            if not (isinstance(t, tuple) and t[0] == 'lres'):
                bad('`?` on a value of type %s' % (t,), line)
            v = self.fresh()
            return p + [('res', s, v)], v, t[1]
        if k in ('if', 'iflet', 'match', 'closure', 'blockexpr', 'panic'):
            bad('`%s` expression here' % k, line)
        bad('expression form %s' % k, line)

    def ex_struct(self, e, c):
        _, path, fields, base, line = e
        key = tuple(path)
        if key == ('Expr', 'Repeat') or key == ('Expr', 'Any'):
            given = {f: self.ex(fe, c) for f, fe, _ in fields}
            if base is not None:
                bad('`..base` in an `Expr` literal', line)
            if key[1] == 'Any' and set(given) == {'newline'} and given['newline'][2] == 'bool':
                return given['newline'][0], '(.any %s)' % given['newline'][1], 'Expr'
            if set(given) == {'child', 'lo', 'hi', 'greedy'} and given['child'][2] == 'Expr' and given['lo'][2] in NUM \
                    and given['hi'][2] in NUM and given['greedy'][2] == 'bool':
                pre = sum((given[f][0] for f in ('child', 'lo', 'hi', 'greedy')), [])
                return pre, '(.repeat %s %s (hiOpt %s) %s)' % (given['child'][1], given['lo'][1], given['hi'][1], given['greedy'][1]), 'Expr'
            bad('`Expr::%s { .. }` literal' % key[1], line)
        if key not in STRUCT_LITS:
            bad('struct literal `%s { .. }`' % '::'.join(path), line)
        form, lname, decl, rtype = STRUCT_LITS[key]
        given = {}
        for f, fe, fl in fields:
            if f in given:
                bad('field `%s` given twice' % f, fl)
            given[f] = fe
        names = [f for f, _, _ in decl]
        for f in given:
            if f not in names:
                bad('`%s` has no field `%s`' % ('::'.join(path), f), line)
        if base is None and set(given) != set(names):
            bad('`%s { .. }` does not give every field' % '::'.join(path), line)
        pre, vals = [], {}
        for f, lf, ty in decl:
            if f in given and lf is None:
                continue                                 # a `text` field: the haystack is not represented
            if f in given:
                p, v, t = self.ex(given[f], c, expect=ty)
                if not same(t, ty):
                    bad('field `%s` has type %s, expected %s' % (f, t, ty), line)
                pre += p
                vals[f] = v
        if form == 'record':
            sets = ', '.join('%s := %s' % (lf, vals[f]) for f, lf, ty in decl if f in vals)
            if base is not None:
                pb, b, tb = self.ex(base, c)
                if not same(tb, rtype):
                    bad('`..base` of type %s' % (tb,), line)
                return pre + pb, '({ %s with %s } : %s)' % (b, sets, lname), rtype
            return pre, '({ %s } : %s)' % (sets, lname), rtype
        if base is not None:
            bad('`..base` in a `%s` literal' % '::'.join(path), line)
        pos = sorted((lf, vals[f]) for f, lf, ty in decl if lf is not None)
        if form == 'pair':
            return pre, '(%s, %s)' % (pos[0][1], pos[1][1]), rtype
        return pre, '(%s %s)' % (lname, ' '.join(v for _, v in pos)), rtype

    # generated functions callable from later ones: (receiver type | None, rust name) -> (lean call prefix, [param types], ret type, lres?)
    def register(self, recv, name, prefix, ptypes, ret, lres, result):
        self.have[(recv, name)] = (prefix, ptypes, ret, lres, result)

    def call_gen(self, key, recv_text, args, c, line):
        prefix, ptypes, ret, lres, result = self.have[key]
        if len(args) != len(ptypes):
            bad('`%s` takes %d argument(s)' % (key[1], len(ptypes)), line)
        pre, vals = [], []
        for a, w in zip(args, ptypes):
            if w is None:
                continue                      # the haystack handed to `Match::new`: not represented
            p, v, t = self.ex(a, c, expect=w)
            if not same(t, w):
                bad('argument of `%s` has type %s, expected %s' % (key[1], t, w), line)
            pre += p
            vals.append(v)
        text = '%s%s%s' % (prefix, ' ' + recv_text if recv_text else '', ''.join(' ' + v for v in vals))
        if lres and not result:
            v = self.fresh()                 # the callee can only panic (it does not return a `Result`): the panic propagates
            return pre + [('res', text, v)], v, ret
        return pre, '(%s)' % text, (('lres', ret) if lres else ret)

    def ex_call(self, e, c, expect):
        _, path, args, line = e
        key = (None, '::'.join(path))
        if key in self.have:
            return self.call_gen(key, None, args, c, line)
        if path == ['Some'] and len(args) == 1:
            p, s, t = self.ex(args[0], c)
            return p, '(some %s)' % s, ('opt', 'usize' if t == 'int' else t)
        if path in (['Box', 'new'], ['Arc', 'new'], ['RegexBuilder'], ['CaptureNames'], ['Cow', 'Borrowed']) and len(args) == 1:
            p, s, t = self.ex(args[0], c, expect)
            if path == ['RegexBuilder']:
                if t != 'Options':
                    bad('`RegexBuilder(..)` of a value of type %s' % (t,), line)
                t = 'Builder'
            return p, s, t
        if path == ['String', 'new'] and not args:
            return [], '([] : List Char)', 'str'
        if path == ['Vec', 'new'] and not args:
            if expect not in ('OptNames',):
                bad('`Vec::new()` whose element type is not known here', line)
            return [], '([] : %s)' % lt(expect), expect
        if path == ['Vec', 'with_capacity'] and len(args) == 1:
            p, n, tn = self.ex(args[0], c)
            if expect not in ('OptNames',) or tn not in NUM:
                bad('`Vec::with_capacity(..)` whose element type is not known here', line)
            # the argument is not dropped (rs2lean_ints, "capacities"): checked `usize` arithmetic, then `n * size_of::<T>()`
            # against isize::MAX - unless neither can happen (statically, adaptor fact LEN). `Option<&str>`: 16 bytes (64 bit)
            esize = {'OptNames': 16}[expect]

            def leaf(x):
                if x[0] == 'mcall' and x[2] == 'len' and not x[3]:
                    return ints.ISIZE_MAX
                return None

            def value(x):
                px, vx, tx = self.ex(x, c)
                if px or tx not in NUM:
                    bad('capacity whose value can panic / of type %s' % (tx,), x[-1])
                return vx
            b = ints.cap_bound(args[0], leaf)
            if b is None or b * esize > ints.ISIZE_MAX:
                t1, t2 = self.fresh(), self.fresh()
                p = p + [('opt', ints.cap_opt(args[0], value), self.site(c, 'capacity arithmetic overflow'), t1),
                         ('opt', '(if %s * %d ≤ %d then some () else none)' % (t1, esize, ints.ISIZE_MAX),
                          self.site(c, 'capacity overflow'), t2)]
            return p, '([] : %s)' % lt(expect), expect
        if path == ['SyntaxConfig', 'default'] and not args:
            return [], 'syntaxcDefault', 'Syntaxc'
        if path == ['Expr', 'Concat'] and len(args) == 1:
            p, s, t = self.ex(args[0], c)
            if t != 'VecExpr':
                bad('`Expr::Concat(..)` of a value of type %s' % (t,), line)
            return p, '(.concat %s)' % s, 'Expr'
        if path == ['Expr', 'Group'] and len(args) == 1:
            p, s, t = self.ex(args[0], c)
            if t != 'Expr':
                bad('`Expr::Group(..)` of a value of type %s' % (t,), line)
            return p, '(.group 0 %s)' % s, 'Expr'
        adapt = {('Parser', 'parse_with_case_insensitive'): ('parse', ['str', 'bool'], 'Tree'),
                 ('analyze',): ('analyze', ['Tree'], 'Info'),
                 ('compile', 'compile_inner'): ('compile_inner', ['str', 'Options'], 'RaRegex'),
                 ('compile_with_options',): ('compile_with_options', ['Info', 'Options'], 'Prog'),
                 ('vm', 'run'): ('vmRun fuel', ['Prog', 'Text', 'usize', 'u32', 'Options'], ('opt', 'Saves'))}
        if tuple(path) in adapt:
            fn, want, ret = adapt[tuple(path)]
            if len(args) != len(want):
                bad('`%s`: wrong number of arguments' % '::'.join(path), line)
            pre, vals = [], []
            for a, w in zip(args, want):
                p, v, t = self.ex(a, c)
                if not (same(t, w) or (w == 'bool' and t == 'Syntaxc')):
                    bad('argument of `%s` has type %s, expected %s' % ('::'.join(path), t, w), line)
                pre += p
                vals.append(v)
            return pre, '(%s %s)' % (fn, ' '.join(vals)), ('lres', ret)
        bad('call of `%s`' % '::'.join(path), line)

    def closure_pure(self, cl, c, argty):
        """`|x| e` / `|| e` with a body that cannot panic -> (binder | None, body text, body type)"""
        _, params, body, line = cl
        c2, x = c, None
        if params:
            if len(params) != 1 or params[0][0] != 'pbind':
                bad('closure that does not take one plain parameter', line)
            c2 = self.bind(c, params[0][1], argty, line)
            x = vid(params[0][1])
        if body[0] == 'blockexpr':
            if body[1] or body[2] is None:
                bad('closure with statements here', line)
            body = body[2]
        p, s, t = self.ex(body, c2)
        if p:
            bad('closure whose body can panic here', line)
        return x, s, t

    def ex_mcall(self, e, c, expect):
        _, recv, m, args, line = e
        # RaInput::new(text).span(pos..text.len())
        if m == 'span' and recv[0] == 'call' and recv[1] == ['RaInput', 'new'] and len(recv[2]) == 1 and len(args) == 1 \
                and args[0][0] == 'range':
            (p0, tx, t0), (p1, a, t1), (p2, b, t2) = self.ex(recv[2][0], c), self.ex(args[0][1], c), self.ex(args[0][2], c)
            if t0 != 'Text' or t1 not in NUM or t2 not in NUM:
                bad('`RaInput::new(text).span(a..b)` with arguments of type %s, %s, %s' % (t0, t1, t2), line)
            return p0 + p1 + p2, '(raInput %s %s %s)' % (tx, a, b), 'Input'
        p, s, t = self.ex(recv, c)
        if (t, m) in self.have:
            p2, txt, rt_ = self.call_gen((t, m), s, args, c, line)
            return p + p2, txt, rt_
        if m in ('to_string', 'clone', 'to_owned', 'as_str', 'as_ref', 'into_iter') and not args:
            return p, s, t
        if m == 'iter' and not args and t == 'Names':
            return p, 'order', 'NamesIter'
        av = [self.ex(a, c) if a[0] != 'closure' else None for a in args]
        at = [x[2] if x else 'closure' for x in av]
        pre = p + sum((x[0] for x in av if x), [])
        a0 = av[0][1] if av and av[0] else None
        if t == 'Syntaxc' and m == 'get_case_insensitive' and not args:
            return pre, s, 'bool'
        if t == 'Syntaxc' and m == 'case_insensitive' and at == ['bool']:
            return pre, '(syntaxcSet %s %s)' % (s, a0), 'Syntaxc'
        if t == 'Text' and m == 'len' and not args:
            return pre, '%s.len' % s, 'usize'
        if t in ('Saves', 'OptNames', 'VecExpr', 'VecInfo', 'str') and m == 'len' and not args:
            return pre, '%s.length' % s, 'usize'
        if t in ('Saves', 'OptNames', 'VecExpr', 'VecInfo', 'str', 'Names') and m == 'is_empty' and not args:
            return pre, '(List.isEmpty %s)' % s, 'bool'
        if t in NUM and m in ints.METHODS and len(at) == 1 and at[0] in NUM:
            if t == 'int':
                bad('`.%s(..)` on an integer literal whose type is not evident here' % m, line)
            if ints.METHODS[m][2] == 'opt':
                return pre, ints.method(m, s, a0, t), ('opt', t)
            return pre, ints.method(m, s, a0, t), t
        if isinstance(t, tuple) and t[0] == 'opt' and t[1] in NUM and m == 'unwrap_or' and len(at) == 1 and at[0] in NUM:
            return pre, '(Option.getD %s %s)' % (s, a0), t[1]
        if t == 'str' and m == 'contains' and at == ['char']:
            return pre, '(List.contains %s %s)' % (s, a0), 'bool'
        if t == 'RaRegex' and m == 'is_match' and at == ['Text']:
            return pre, '(raIsMatch sem %s %s)' % (s, a0), 'bool'
        if t == 'RaRegex' and m == 'search' and at == ['Input']:
            return pre, '(raSearch sem %s %s)' % (s, a0), ('opt', 'Span')
        if t == 'RaRegex' and m == 'create_captures' and not args:
            return pre, '(none : RaLocs)', 'Locs'
        if t == 'RaRegex' and m == 'captures_len' and not args:
            return pre, '(raCapturesLen sem %s)' % s, 'usize'
        if t == 'Locs' and m == 'is_match' and not args:
            return pre, '(Option.isSome %s)' % s, 'bool'
        if t == 'Locs' and m == 'get_group' and len(at) == 1 and at[0] in NUM:
            return pre, '(raGetGroup %s %s)' % (s, a0), ('opt', 'Span')
        if t == 'Locs' and m == 'group_len' and not args:
            return pre, '(raGroupLen %s)' % s, 'usize'
        if t == 'Names' and m == 'get' and at == ['Name']:
            return pre, '(namedGet %s %s)' % (s, a0), ('opt', 'usize')
        if t in ('Span', 'Match') and m in ('start', 'end') and not args and (t, m) not in self.have:
            return pre, '%s.%s' % (s, '1' if m == 'start' else '2'), 'usize'
        if isinstance(t, tuple) and t[0] == 'opt':
            if m == 'is_some' and not args:
                return pre, '(Option.isSome %s)' % s, 'bool'
            if m == 'is_none' and not args:
                return pre, '(Option.isNone %s)' % s, 'bool'
            if m == 'map' and at == ['closure']:
                x, b, tb = self.closure_pure(args[0], c, t[1])
                return pre, '(Option.map (fun %s => %s) %s)' % (x, b, s), ('opt', tb)
            if m == 'and_then' and at == ['closure']:
                x, b, tb = self.closure_pure(args[0], c, t[1])
                if not (isinstance(tb, tuple) and tb[0] == 'opt'):
                    bad('the closure of `and_then` has type %s' % (tb,), line)
                return pre, '(Option.bind %s (fun %s => %s))' % (s, x, b), tb
        if t == 'bool' and m == 'then' and at == ['closure']:
            x, b, tb = self.closure_pure(args[0], c, None)
            return pre, '(if %s then some %s else none)' % (s, b), ('opt', tb)
        bad('method call `.%s(…)` on a value of type %s' % (m, t), line)

    # ---- patterns
    def pat(self, p, ty, c, line):
        """-> (lean pattern, [(name, type)])"""
        k = p[0]
        if k == 'pwild':
            return '_', []
        if k == 'pbind':
            return vid(p[1]), [(p[1], ty)]
        if k == 'pnone' and isinstance(ty, tuple) and ty[0] == 'opt':
            return 'none', []
        if k == 'psome' and isinstance(ty, tuple) and ty[0] == 'opt':
            s, b = self.pat(p[1], ty[1], c, line)
            return 'some %s' % ('(%s)' % s if ' ' in s and not s.startswith('(') else s), b
        if k == 'ptuple' and ty == 'NameEntry' and len(p[1]) == 2:
            (s1, b1), (s2, b2) = self.pat(p[1][0], 'Name', c, line), self.pat(p[1][1], 'usize', c, line)
            return '(%s, %s)' % (s1, s2), b1 + b2
        if k == 'pvariant' and (p[1], p[2]) in VARIANT_PATS and ty in ('Impl', 'CapsImpl'):
            tmpl, ftypes = VARIANT_PATS[(p[1], p[2])]
            items = p[4]
            for f in items:
                if f not in ftypes:
                    bad('`%s::%s` has no field `%s`' % (p[1], p[2], f), line)
            if not p[5] and set(items) != set(ftypes):
                bad('`%s::%s { .. }` without `..` does not name every field' % (p[1], p[2]), line)
            args, binds = {}, []
            for f, fty in ftypes.items():
                q = items.get(f)
                if q is None or q[0] == 'pwild' or fty is None:
                    args[f] = '_'
                elif q[0] == 'pbind':
                    args[f] = vid(q[1])
                    binds.append((q[1], fty))
                else:
                    bad('sub-pattern of `%s::%s`' % (p[1], p[2]), line)
            return tmpl.format(**args), binds
        if k == 'pvariant' and p[1] == 'Expr' and ty == 'Expr' and p[3] == 'tuple' and len(p[4]) == 1 and p[4][0][0] == 'pbind':
            if p[2] == 'Concat':
                return '.concat %s' % vid(p[4][0][1]), [(p[4][0][1], 'VecExpr')]
            if p[2] == 'Group':
                return '.group _ %s' % vid(p[4][0][1]), [(p[4][0][1], 'Expr')]
        bad('pattern of form %s on a value of type %s' % (k, ty), line)

    # ---- statements, continuation-passing; k(c, ind, tail)
    def block(self, blk, c, ind, k):
        return self.stmts(blk[0], blk[1], c, ind, k)

    def update(self, place, val, c, line):
        """-> (root variable, lean text of its new value) after `place = val`"""
        if place[0] == 'path' and len(place[1]) == 1:
            return place[1][0], val
        if place[0] == 'tfield' and place[2] == 0:
            return self.update(place[1], val, c, line)
        if place[0] == 'field':
            p, s, t = self.ex(place[1], c)
            if p or (t, place[2]) not in FIELDS or FIELDS[(t, place[2])][0] is None:
                bad('this place cannot be written', line)
            return self.update(place[1], '{ %s with %s := %s }' % (s, FIELDS[(t, place[2])][0], val), c, line)
        bad('this place cannot be written', line)

    def stmts(self, stmts, tail, c, ind, k):
        if not stmts:
            return k(c, ind, tail)
        ints.mark_shadow_lets(stmts, self)
        s, rest = stmts[0], stmts[1:]
        kind, line = s[0], s[-1]
        cont = lambda c2, i2: self.stmts(rest, tail, c2, i2, k)

        def no_value(c_inner, i2, tl):
            if tl is not None and tl[0] in ('if', 'iflet', 'match'):
                return self.cps(tl, c_inner, i2, no_value)
            if tl is not None and tl[0] != 'unit':
                bad('a value is dropped here', tl[-1])
            return cont(c, i2)
        if kind == 'let':
            _, name, mut, e, _ = s
            anno = None
            if e[0] == 'typed' and e[1][0] in ('if', 'iflet', 'match') and ints.is_int(e[2]):
                anno, e = e[2], e[1]            # `let x: usize = match … { … };`: every branch value is checked against the annotation
            if e[0] in ('if', 'iflet', 'match'):
                def kv(c_inner, i2, tl):
                    if tl is None:
                        bad('this branch of `let %s = …` has no value' % name, line)
                    if tl[0] in ('if', 'iflet', 'match'):
                        return self.cps(tl, c_inner, i2, kv)
                    if tl[0] == 'panic':
                        return [i2 + '.panic "%s"' % self.site(c, 'unreachable')]
                    p, v, t = self.ex(('typed', tl, anno, line), c_inner) if anno else self.ex(tl, c_inner)
                    self.need_lres(c, p, line)
                    c3 = self.bind(c, name, t, line, mut, shadow=ints.shadow_ok(self, s) and name != 'self')
                    out, i3 = self.emit_pre(p, i2)
                    return out + [i3 + 'let %s : %s := %s' % (vid(name), lt(c3.types[name]), v)] + cont(c3, i3)
                return self.cps(e, c, ind, kv)
            expect = LOCAL_TYPES.get((c.fn, name))
            p, v, t = self.ex(e, c, expect)
            if isinstance(t, tuple) and t[0] == 'lres':
                bad('a fallible call without `?`', line)
            self.need_lres(c, p, line)
            c2 = self.bind(c, name, t, line, mut, shadow=ints.shadow_ok(self, s) and name != 'self')
            out, i2 = self.emit_pre(p, ind)
            return out + [i2 + 'let %s : %s := %s' % (vid(name), lt(c2.types[name]), v)] + cont(c2, i2)
        if kind == 'assign':
            _, target, op, e, _ = s
            pv, v, tv = self.ex(e, c)
            if target[0] == 'index':
                pb, b, tb = self.ex(target[1], c)
                pi, i, ti = self.ex(target[2], c)
                if tb != 'OptNames' or ti not in NUM or not same(tv, ('opt', 'Name')) or op != '=' or target[1][0] != 'path':
                    bad('indexed assignment into a value of type %s' % (tb,), line)
                self.need_lres(c, [1], line)
                t = self.fresh()
                out, i2 = self.emit_pre(pb + pi + pv + [('opt', 'vecSet %s %s %s' % (b, i, v), self.site(c, 'index'), t)], ind)
                return out + [i2 + 'let %s : %s := %s' % (b, lt(tb), t)] + cont(c, i2)
            pc, cur, tc = self.ex(target, c)
            if not same(tc, tv):
                bad('assignment of a value of type %s to a place of type %s' % (tv, tc), line)
            if op == '+=':
                if tc not in NUM:
                    bad('`+=` on a value of type %s' % (tc,), line)
                v = '(%s + %s)' % (cur, v) if tc in ('usize', 'u32') else ints.arith('+', cur, v, tc)
            elif op == '-=':
                if tc not in NUM:
                    bad('`-=` on a value of type %s' % (tc,), line)
                t_ = self.fresh()
                pv, v = pv + [('opt', 'checkedSub %s %s' % (cur, v), self.site(c, 'sub'), t_)], t_
            elif op == '*=':
                if tc not in NUM:
                    bad('`*=` on a value of type %s' % (tc,), line)
                v = ints.arith('*', cur, v, width_of(tc))
            elif op in ('|=', '&=', '^='):
                if tc in NUM:
                    v = ints.bitop(op[0], cur, v)
                elif tc == 'bool' and op != '^=':
                    v = '(%s %s %s)' % (cur, '||' if op == '|=' else '&&', v)
                else:
                    bad('`%s` on a value of type %s' % (op, tc), line)
            elif op in ('<<=', '>>='):
                if tc not in NUM:
                    bad('`%s` on a value of type %s' % (op, tc), line)
                v = ints.shift(op[:2], cur, v, width_of(tc))
            elif op != '=':
                bad('compound assignment `%s`' % op, line)
            root, newval = self.update(target, v, c, line)
            if root != 'self' and root not in c.mutable:
                bad('assignment to `%s`, which is not `let mut`' % root, line)
            if root == 'self' and not c.mutself:
                bad('`self` is changed in a method that does not take `&mut self`', line)
            self.need_lres(c, pv, line)
            out, i2 = self.emit_pre(pv, ind)
            rn = 'self' if root == 'self' else vid(root)
            return out + [i2 + 'let %s : %s := %s' % (rn, lt(c.types[root]), newval)] + cont(c, i2)
        if kind == 'expr':
            e = s[1]
            if e[0] in ('if', 'iflet', 'match'):
                return self.cps(e, c, ind, no_value)
            if e[0] == 'mcall':
                r = self.effect(e, c, ind, cont)
                if r is not None:
                    return r
            bad('expression statement outside the subset', line)
        if kind == 'for':
            return self.for_loop(s, c, ind, cont)
        if kind == 'return':
            if rest or tail is not None:
                bad('statement after `return`', line)
            return self.tail(s[1], c, ind)
        bad('statement form %s' % kind, line)

    def effect(self, e, c, ind, cont):
        _, recv, m, args, line = e
        if recv[0] != 'path' or len(recv[1]) != 1 or recv[1][0] not in c.types:
            return None
        v, t = recv[1][0], c.types[recv[1][0]]
        lv = vid(v)
        if m == 'resize' and t == 'OptNames' and len(args) == 2 and is_path(args[1], 'None') and v in c.mutable:
            p, n, tn = self.ex(args[0], c)
            if tn not in NUM:
                bad('`resize` to a length of type %s' % (tn,), line)
            out, i2 = self.emit_pre(p, ind)
            return out + [i2 + 'let %s : %s := vecResize %s %s none' % (lv, lt(t), lv, n)] + cont(c, i2)
        if m == 'truncate' and t == 'Saves' and len(args) == 1 and v in c.mutable:
            p, n, tn = self.ex(args[0], c)
            if tn not in NUM:
                bad('`truncate` to a length of type %s' % (tn,), line)
            out, i2 = self.emit_pre(p, ind)
            return out + [i2 + 'let %s : List Nat := List.take %s %s' % (lv, n, lv)] + cont(c, i2)
        if m == 'to_str' and t == 'Expr' and len(args) == 2 and args[0][0] == 'refmut' and args[0][1][0] == 'path':
            b = args[0][1][1][0]
            p, prec, tp = self.ex(args[1], c)
            if c.types.get(b) != 'str' or b not in c.mutable or tp not in NUM:
                bad('`to_str(&mut buf, precedence)`', line)
            self.need_lres(c, [1], line)
            out, i2 = self.emit_pre(p + [('opt', 'GenToStr.genToStr %s %s %s' % (lv, vid(b), prec), self.site(c, 'to_str'), vid(b))], ind)
            return out + cont(c, i2)
        if m == 'captures' and t == 'RaRegex' and len(args) == 2 and args[1][0] == 'refmut' and args[1][1][0] == 'path':
            loc = args[1][1][1][0]
            p, inp, ti = self.ex(args[0], c)
            if c.types.get(loc) != 'Locs' or loc not in c.mutable or ti != 'Input':
                bad('`inner.captures(input, &mut locations)`', line)
            out, i2 = self.emit_pre(p, ind)
            return out + [i2 + 'let %s : RaLocs := raCaptures sem %s %s' % (vid(loc), lv, inp)] + cont(c, i2)
        if m == 'push_str' and t == 'str' and len(args) == 1 and v in c.mutable:
            p, x, tx = self.ex(args[0], c)
            if tx != 'str':
                bad('`push_str` of a value of type %s' % (tx,), line)
            out, i2 = self.emit_pre(p, ind)
            return out + [i2 + 'let %s : List Char := (%s ++ %s)' % (lv, lv, x)] + cont(c, i2)
        if m == 'expand' and t == 'Caps' and len(args) == 2 and args[1][0] == 'path' and c.types.get(args[1][1][0]) == 'str':
            p, x, tx = self.ex(args[0], c)
            d = vid(args[1][1][0])
            if tx != 'str' or args[1][1][0] not in c.mutable:
                bad('`caps.expand(template, dst)`', line)
            out, i2 = self.emit_pre(p, ind)
            return out + [i2 + 'let %s : List Char := expand %s %s %s' % (d, lv, x, d)] + cont(c, i2)
        return None

    def cps(self, e, c, ind, kv):
        k, line = e[0], e[-1]
        if k == 'if':
            _, cnd, th, el, _ = e
            p, cs, ct = self.ex(cnd, c)
            if ct != 'bool':
                bad('condition of type %s' % (ct,), line)
            self.need_lres(c, p, line)
            out, i2 = self.emit_pre(p, ind)
            els = el if el else ([], None)
            return out + [i2 + 'if %s then' % cs] + self.block(th, c.copy(), i2 + '  ', kv) + [i2 + 'else'] \
                + self.block(els, c.copy(), i2 + '  ', kv)
        if k == 'iflet':
            bad('`if let`', line)
        _, scrut, arms, _ = e
        p, s, st = self.ex(scrut, c)
        self.need_lres(c, p, line)
        out, i2 = self.emit_pre(p, ind)
        out.append(i2 + 'match %s with' % s)
        for pats, body, aline in arms:
            if len(pats) != 1:
                bad('or-pattern', aline)
            lp, binds = self.pat(pats[0], st, c, aline)
            c2 = c
            for n, t in binds:
                c2 = self.bind(c2, n, t, aline)
            out.append(i2 + '| %s =>' % lp)
            out += self.block(body, c2, i2 + '  ', kv)
        return out

    # ---- the value a function ends with
    def tail(self, e, c, ind):
        line = e[-1] if e else None
        if e is None or e[0] == 'unit':
            if c.ret != 'unit':
                bad('`%s` ends without a value' % c.fn, line)
            return [ind + self.wrap_ok(c, '()')]
        if e[0] in ('if', 'iflet', 'match'):
            return self.cps(e, c, ind, lambda c2, i2, tl: self.tail(tl, c2, i2))
        if e[0] == 'panic':
            self.need_lres(c, [1], line)
            return [ind + '.panic "%s"' % self.site(c, 'unreachable')]
        if e[0] == 'call' and e[1] == ['Ok'] and len(e[2]) == 1 and c.result_type:
            return self.tail_value(e[2][0], c, ind, c.ret)
        if c.result_type:
            # a tail call of another fallible function
            p, v, t = self.ex(e, c)
            if not (isinstance(t, tuple) and t[0] == 'lres' and same(t[1], c.ret)):
                bad('`%s` (which returns a `Result`) ends in a value of type %s' % (c.fn, t), line)
            out, i2 = self.emit_pre(p, ind)
            return out + [i2 + v[1:-1] if v.startswith('(') else i2 + v]
        return self.tail_value(e, c, ind, c.ret)

    def wrap_ok(self, c, v):
        if c.mutself:
            v = '(%s, self)' % v
        return '.ok %s' % v if c.lres else v

    def tail_value(self, e, c, ind, want):
        line = e[-1]
        # `x.map(|v| <body that can panic>)` / `x.and_then(|i| <fallible call>)` on an Option
        if e[0] == 'mcall' and e[2] in ('map', 'and_then') and len(e[3]) == 1 and e[3][0][0] == 'closure' and c.lres:
            p, s, t = self.ex(e[1], c)
            if isinstance(t, tuple) and t[0] == 'opt':
                _, params, body, cl = e[3][0]
                if len(params) != 1 or params[0][0] != 'pbind':
                    bad('closure that does not take one plain parameter', cl)
                c2 = self.bind(c, params[0][1], t[1], cl, mut=True)
                out, i2 = self.emit_pre(p, ind)
                out += [i2 + 'match %s with' % s, i2 + '| none => %s' % self.wrap_ok(c, 'none'), i2 + '| some %s =>' % vid(params[0][1])]
                blk = (body[1], body[2]) if body[0] == 'blockexpr' else ([], body)
                if e[2] == 'map':
                    inner_want = want[1] if isinstance(want, tuple) and want[0] == 'opt' else None
                    return out + self.block(blk, c2, i2 + '  ', lambda c3, i3, tl: self.some_value(tl, c3, i3, inner_want))
                return out + self.block(blk, c2, i2 + '  ', lambda c3, i3, tl: self.tail_value(tl, c3, i3, want))
        p, v, t = self.ex(e, c, want)
        if isinstance(t, tuple) and t[0] == 'lres':
            if not same(t[1], want) or c.mutself:
                bad('`%s` ends in a fallible call of type %s' % (c.fn, t[1]), line)
            out, i2 = self.emit_pre(p, ind)
            return out + [i2 + (v[1:-1] if v.startswith('(') else v)]
        if t == 'Range' and want == 'Span':
            t = 'Span'
        if not same(t, want):
            bad('`%s` ends in a value of type %s, expected %s' % (c.fn, t, want), line)
        self.need_lres(c, p, line)
        out, i2 = self.emit_pre(p, ind)
        return out + [i2 + self.wrap_ok(c, v)]

    def some_value(self, tl, c, ind, want):
        if tl is None:
            bad('closure without a value', None)
        p, v, t = self.ex(tl, c, want)
        if want is not None and not same(t, want):
            bad('the closure yields a value of type %s, expected %s' % (t, want), tl[-1])
        out, i2 = self.emit_pre(p, ind)
        return out + [i2 + self.wrap_ok(c, '(some %s)' % v)]

    def for_loop(self, s, c, ind, cont):
        _, pat, it, body, line = s
        p, src, t = self.ex(it, c)
        if t != 'NamesIter' or p or c.loop:
            bad('`for` over something other than `self.named_groups.iter()`', line)
        lp, binds = self.pat(pat, 'NameEntry', c, line)
        mut = sorted(x for x in self.mutated(body, set()) if x in c.mutable)
        if len(mut) != 1:
            bad('the loop must change exactly one `let mut` local (it changes %s)' % mut, line)
        acc = mut[0]
        name = 'loop' + ''.join(w[:1].upper() + w[1:] for w in c.fn.split('_'))
        self.names.add(name)
        cl = c
        for n, ty in binds:
            cl = self.bind(cl, n, ty, line)
        cl.loop = True
        a = vid(acc)
        lines = ['def %s : Names → %s → LRes (%s)' % (name, lt(c.types[acc]), lt(c.types[acc])),
                 '  | [], %s => .ok %s' % (a, a), '  | %s :: rest_, %s =>' % (lp, a)]
        saved = (cl.lres, cl.mutself, cl.ret)
        cl.lres, cl.mutself = True, False
        lines += self.stmts(body, None, cl, '    ', lambda c2, i2, tl: [i2 + '%s rest_ %s' % (name, a)])
        self.defs.append(('the `for` loop of `%s` over the entries of `named_groups`, in the order `order`' % c.fn, lines))
        self.need_lres(c, [1], line)
        return [ind + 'match %s %s %s with' % (name, src, a), ind + '| .err e_ => .err e_', ind + '| .panic s_ => .panic s_',
                ind + '| .ok %s =>' % a] + cont(c, ind + '  ')

    def mutated(self, x, out):
        if isinstance(x, tuple) and x:
            if x[0] == 'assign':
                r = x[1]
                while r[0] in ('field', 'tfield', 'index'):
                    r = r[1]
                if r[0] == 'path' and len(r[1]) == 1:
                    out.add(r[1][0])
            for y in (x[1:] if isinstance(x[0], str) else x):
                self.mutated(y, out)
        elif isinstance(x, list):
            for y in x:
                self.mutated(y, out)
        return out


LOCAL_TYPES = {('capture_names', 'names'): 'OptNames'}

# the functions, in the order they are generated. Each: key, container (token string of the impl header, or None = top level /
# ('rep', …) = replacer.rs), signature tokens, gen name, extra Lean parameters, self (lean name, type) | None, params, return type,
# lres?, Rust returns Result?, &mut self?, registered as (receiver type | None, call name)
P_PARSE = '(parse : List Char → Bool → LRes Tree)'
P_SEM = '(sem : RaSem)'
P_FUEL = '(fuel : Nat)'
I_BUILDER = 'impl RegexBuilder {'
I_REGEX = 'impl Regex {'
I_MATCH = "impl < 't > Match < 't > {"
I_CAPS = "impl < 't > Captures < 't > {"
I_SUB = "impl < 'c , 't > Iterator for SubCaptureMatches < 'c , 't > {"
R_FIND = "Result < Option < Match < 't > > >"
R_CAPS = "Result < Option < Captures < 't > > >"
FUNCS = [
    dict(fn='default', impl='impl Default for RegexOptions {', sig='fn default ( ) -> Self {', gen='genRegexOptionsDefault', extra=[],
         slf=None, params=[], ret='Options', reg=(None, 'RegexOptions::default')),
    dict(fn='case_insensitive', impl=I_BUILDER, sig='pub fn case_insensitive ( & mut self , yes : bool ) -> & mut Self {',
         gen='genCaseInsensitive', extra=[], slf='Builder', params=[('yes', 'bool')], ret='Builder', mutself='ret'),
    dict(fn='backtrack_limit', impl=I_BUILDER, sig='pub fn backtrack_limit ( & mut self , limit : usize ) -> & mut Self {',
         gen='genBacktrackLimit', extra=[], slf='Builder', params=[('limit', 'usize')], ret='Builder', mutself='ret'),
    dict(fn='delegate_size_limit', impl=I_BUILDER, sig='pub fn delegate_size_limit ( & mut self , limit : usize ) -> & mut Self {',
         gen='genDelegateSizeLimit', extra=[], slf='Builder', params=[('limit', 'usize')], ret='Builder', mutself='ret'),
    dict(fn='delegate_dfa_size_limit', impl=I_BUILDER, sig='pub fn delegate_dfa_size_limit ( & mut self , limit : usize ) -> & mut Self {',
         gen='genDelegateDfaSizeLimit', extra=[], slf='Builder', params=[('limit', 'usize')], ret='Builder', mutself='ret'),
    dict(fn='wrap_tree', impl=None, sig='pub fn wrap_tree ( raw_tree : ExprTree ) -> ExprTree {', gen='genWrapTree', extra=[], slf=None,
         params=[('raw_tree', 'Tree')], ret='Tree', reg=(None, 'wrap_tree')),
    dict(fn='new_options', impl=I_REGEX, sig='fn new_options ( options : RegexOptions ) -> Result < Regex > {', gen='genNewOptions',
         extra=[P_PARSE], slf=None, params=[('options', 'Options')], ret='Regex', lres=True, result=True,
         reg=[(None, 'Self::new_options'), (None, 'Regex::new_options')], call='genNewOptions parse'),
    dict(fn='build', impl=I_BUILDER, sig='pub fn build ( & self ) -> Result < Regex > {', gen='genBuild', extra=[P_PARSE], slf='Builder',
         params=[], ret='Regex', lres=True, result=True),
    dict(fn='new', impl=I_BUILDER, sig='pub fn new ( pattern : & str ) -> Self {', gen='genRegexBuilderNew', extra=[], slf=None,
         params=[('pattern', 'str')], ret='Builder'),
    dict(fn='new', impl=I_REGEX, sig='pub fn new ( re : & str ) -> Result < Regex > {', gen='genRegexNew', extra=[P_PARSE], slf=None,
         params=[('re', 'str')], ret='Regex', lres=True, result=True),
    dict(fn='new', impl=I_MATCH, sig="fn new ( text : & 't str , start : usize , end : usize ) -> Match < 't > {", gen='genMatchNew',
         extra=[], slf=None, params=[('text', 'Text'), ('start', 'usize'), ('end', 'usize')], ret='Match', reg=(None, 'Match::new'),
         drop=['text']),
    dict(fn='start', impl=I_MATCH, sig='pub fn start ( & self ) -> usize {', gen='genMatchStart', extra=[], slf='Match', params=[], ret='usize',
         reg=('Match', 'start')),
    dict(fn='end', impl=I_MATCH, sig='pub fn end ( & self ) -> usize {', gen='genMatchEnd', extra=[], slf='Match', params=[], ret='usize',
         reg=('Match', 'end')),
    dict(fn='range', impl=I_MATCH, sig='pub fn range ( & self ) -> Range < usize > {', gen='genMatchRange', extra=[], slf='Match', params=[],
         ret='Span'),
    dict(fn='as_str', impl=I_MATCH, sig="pub fn as_str ( & self ) -> & 't str {", gen='genMatchAsStr', extra=[], slf='Match', params=[],
         ret='Span', text=True),
    dict(fn='len', impl=I_CAPS, sig='pub fn len ( & self ) -> usize {', gen='genCapturesLenOf', extra=[], slf='Caps', params=[], ret='usize',
         reg=('Caps', 'len')),
    dict(fn='get', impl=I_CAPS, sig="pub fn get ( & self , i : usize ) -> Option < Match < 't > > {", gen='genCapturesGet', extra=[],
         slf='Caps', params=[('i', 'usize')], ret=('opt', 'Match'), lres=True, reg=('Caps', 'get'), text=True),
    dict(fn='name', impl=I_CAPS, sig="pub fn name ( & self , name : & str ) -> Option < Match < 't > > {", gen='genCapturesName', extra=[],
         slf='Caps', params=[('name', 'Name')], ret=('opt', 'Match'), lres=True),
    dict(fn='iter', impl=I_CAPS, sig="pub fn iter < 'c > ( & 'c self ) -> SubCaptureMatches < 'c , 't > {", gen='genCapturesIter',
         extra=[], slf='Caps', params=[], ret='SubCaps'),
    dict(fn='next', impl=I_SUB, sig="fn next ( & mut self ) -> Option < Option < Match < 't > > > {", gen='genSubCaptureMatchesNext',
         extra=[], slf='SubCaps', params=[], ret=('opt', ('opt', 'Match')), lres=True, mutself='pair'),
    dict(fn='captures_len', impl=I_REGEX, sig='pub fn captures_len ( & self ) -> usize {', gen='genCapturesLen', extra=[P_SEM], slf='Regex',
         params=[], ret='usize', reg=('Regex', 'captures_len'), call='genCapturesLen sem'),
    dict(fn='capture_names', impl=I_REGEX, sig='pub fn capture_names ( & self ) -> CaptureNames {', gen='genCaptureNames',
         extra=[P_SEM, '(order : Names)'], slf='Regex', params=[], ret='OptNames', lres=True),
    dict(fn='find_from_pos_with_option_flags', impl=I_REGEX,
         sig="fn find_from_pos_with_option_flags < 't > ( & self , text : & 't str , pos : usize , option_flags : u32 , ) -> " + R_FIND + ' {',
         gen='genFindFromPosWithOptionFlags', extra=[P_SEM, P_FUEL], slf='Regex',
         params=[('text', 'Text'), ('pos', 'usize'), ('option_flags', 'u32')], ret=('opt', 'Match'), lres=True, result=True,
         reg=('Regex', 'find_from_pos_with_option_flags'), call='genFindFromPosWithOptionFlags sem fuel'),
    dict(fn='find_from_pos', impl=I_REGEX, sig="pub fn find_from_pos < 't > ( & self , text : & 't str , pos : usize ) -> " + R_FIND + ' {',
         gen='genFindFromPos', extra=[P_SEM, P_FUEL], slf='Regex', params=[('text', 'Text'), ('pos', 'usize')], ret=('opt', 'Match'),
         lres=True, result=True, reg=('Regex', 'find_from_pos'), call='genFindFromPos sem fuel'),
    dict(fn='find', impl=I_REGEX, sig="pub fn find < 't > ( & self , text : & 't str ) -> " + R_FIND + ' {', gen='genFind',
         extra=[P_SEM, P_FUEL], slf='Regex', params=[('text', 'Text')], ret=('opt', 'Match'), lres=True, result=True),
    dict(fn='captures_from_pos_with_option_flags', impl=I_REGEX,
         sig="fn captures_from_pos_with_option_flags < 't > ( & self , text : & 't str , pos : usize , option_flags : u32 , ) -> " + R_CAPS + ' {',
         gen='genCapturesFromPosWithOptionFlags', extra=[P_SEM, P_FUEL], slf='Regex',
         params=[('text', 'Text'), ('pos', 'usize'), ('option_flags', 'u32')], ret=('opt', 'Caps'), lres=True, result=True,
         reg=('Regex', 'captures_from_pos_with_option_flags'), call='genCapturesFromPosWithOptionFlags sem fuel'),
    dict(fn='captures_from_pos', impl=I_REGEX, sig="pub fn captures_from_pos < 't > ( & self , text : & 't str , pos : usize ) -> " + R_CAPS + ' {',
         gen='genCapturesFromPos', extra=[P_SEM, P_FUEL], slf='Regex', params=[('text', 'Text'), ('pos', 'usize')], ret=('opt', 'Caps'),
         lres=True, result=True, reg=('Regex', 'captures_from_pos'), call='genCapturesFromPos sem fuel'),
    dict(fn='captures', impl=I_REGEX, sig="pub fn captures < 't > ( & self , text : & 't str ) -> " + R_CAPS + ' {', gen='genCaptures',
         extra=[P_SEM, P_FUEL], slf='Regex', params=[('text', 'Text')], ret=('opt', 'Caps'), lres=True, result=True),
    dict(fn='is_match', impl=I_REGEX, sig='pub fn is_match ( & self , text : & str ) -> Result < bool > {', gen='genIsMatch',
         extra=[P_SEM, P_FUEL], slf='Regex', params=[('text', 'Text')], ret='bool', lres=True, result=True),
]
# replacer.rs
REP_FN = "fn no_expansion < T : AsRef < str > > ( t : & T ) -> Option < Cow < '_ , str > > {"
REP_IMPLS = [("impl < 'a > Replacer for & 'a str {", 'Str', 'str'), ("impl < 'a > Replacer for & 'a String {", 'StringRef', 'str'),
             ('impl Replacer for String {', 'String', 'str'), ("impl < 'a > Replacer for Cow < 'a , str > {", 'Cow', 'str'),
             ("impl < 'a > Replacer for & 'a Cow < 'a , str > {", 'CowRef', 'str'), ("impl < 't > Replacer for NoExpand < 't > {", 'NoExpand', 'NoExpand')]
REP_SIG_NE = "fn no_expansion ( & mut self ) -> Option < Cow < '_ , str > > {"
REP_SIG_RA = "fn replace_append ( & mut self , caps : & Captures < '_ > , dst : & mut String ) {"
REP_SIG_RA_NOEXPAND = "fn replace_append ( & mut self , _ : & Captures < '_ > , dst : & mut String ) {"
REP_TRAIT_DEFAULT = "fn no_expansion ( & mut self ) -> Option < Cow < str > > { None }"


class Driver(Translator):
    def body_at(self, toks, impl, sig):
        lo, hi = 0, None
        if impl is not None:
            i = find_seq(toks, impl.split())
            if i < 0:
                bad('cannot find `%s`' % impl.replace(' ', ''))
            lo = i + len(impl.split()) - 1
            hi = matching(toks, lo)
        want = sig.split()
        i = find_seq(toks, want, lo, hi)
        self.mut_params = set()
        if i < 0:
            # the same signature with `mut` in front of by-value parameters (`fn f(mut x: T)`): the parameter is a `let mut` local
            k0 = find_seq(toks, want[:want.index('(') + 1], lo, hi) if '(' in want else -1
            while k0 >= 0:
                j, k, muts = 0, k0, set()
                while j < len(want) and k < len(toks):
                    if toks[k].text == 'mut' and toks[k - 1].text in ('(', ',') and toks[k + 1].kind == 'id' and toks[k + 2].text == ':' \
                            and want[j] != 'mut':
                        muts.add(toks[k + 1].text)
                        k += 1
                        continue
                    if toks[k].text != want[j]:
                        break
                    j, k = j + 1, k + 1
                if j == len(want) and muts:
                    self.mut_params = muts
                    return Parser(toks, k - 1).block(), toks[k0].line
                k0 = find_seq(toks, want[:want.index('(') + 1], k0 + 1, hi)
            bad('cannot find `%s`%s' % (sig.replace(' ', ''), ' in `%s`' % impl.replace(' ', '') if impl else ''))
        if find_seq(toks, want, i + 1, hi) >= 0 and impl is not None:
            bad('`%s` occurs twice' % sig.replace(' ', ''))
        return Parser(toks, i + len(want) - 1).block(), toks[i].line

    def one(self, toks, f, src_name):
        blk, line = self.body_at(toks, f.get('impl'), f['sig'])
        c = Ctx()
        c.fn, c.ret, c.lres, c.result_type = f['fn'], f['ret'], f.get('lres', False), f.get('result', False)
        c.mutself = f.get('mutself') == 'pair'
        self.setter = f.get('mutself') == 'ret'
        if self.setter:
            c.mutself_ret = True
        lparams = list(f['extra'])
        if f['slf']:
            c.types['self'] = f['slf']
            lparams.append('(self : %s)' % lt(f['slf']))
        if f['sig'].startswith('pub fn'):
            c.pubparams = frozenset(n for n, t in f['params'] if t == 'usize')
        for n, t in f['params']:
            c.types[n] = t
            if n in self.mut_params:
                c.mutable.add(n)
            if n not in f.get('drop', []):
                lparams.append('(%s : %s)' % (vid(n), lt(t)))
        if f.get('text'):
            pass                      # `self.text` / `text` of a `Match` / `Captures`: the haystack, not represented
        self.tmpn = 0
        retty = lt(f['ret'])
        if c.mutself:
            retty = '(%s × %s)' % (retty, lt(f['slf']))
        if c.lres:
            retty = 'LRes %s' % (retty if ' ' not in retty or retty.startswith('(') else '(%s)' % retty)
        if self.setter:
            # `&mut self -> &mut Self`: the builder is handed in and returned
            c.mutself = False
            saved = c
            body = self.block(blk, self.setter_ctx(c), '  ', lambda c2, i2, tl: self.setter_tail(tl, c2, i2))
        else:
            body = self.block(blk, c, '  ', lambda c2, i2, tl: self.tail(tl, c2, i2))
        head = 'def %s %s : %s :=' % (f['gen'], ' '.join(lparams), retty) if lparams else 'def %s : %s :=' % (f['gen'], retty)
        self.defs.append(('`%s%s` (%s line %d)' % ((re.sub(r'^impl(<[^>]*>)?', '', f['impl'].split(' {')[0].replace(' ', '')).replace('Iteratorfor', '').replace('Replacerfor', '') + '::') if f.get('impl') else '', f['fn'],
                                                   src_name, line), [head] + body))
        self.names.add(f['gen'])
        regs = f.get('reg')
        if regs:
            for recv, name in (regs if isinstance(regs, list) else [regs]):
                self.register(recv, name, f.get('call', f['gen']), [(None if n in f.get('drop', []) else t) for n, t in f['params']], f['ret'],
                              c.lres, c.result_type)

    def setter_ctx(self, c):
        c2 = c.copy()
        c2.mutself = True         # assignments to `self.…` are allowed; the function returns `self`
        return c2

    def setter_tail(self, tl, c, ind):
        if tl is None or not is_path(tl, 'self'):
            bad('a builder method must end in `self`', tl[-1] if tl else None)
        return [ind + 'self']

    def run(self):
        toks = self.toks
        for sname, decl in DECLS.items():
            fields, sline = parse_struct(toks, sname)
            if fields != decl:
                bad('struct %s: fields %s differ from the translator\'s table %s' % (sname, fields, decl), sline)
        for d in TOKEN_DECLS:
            if find_seq(toks, d.split()) < 0:
                bad('declaration not found (the translator\'s table): `%s`' % d)
        for f in FUNCS:
            self.one(toks, f, 'lib.rs')
        self.replacer()

    def replacer(self):
        toks = self.rep_toks
        if find_seq(toks, REP_TRAIT_DEFAULT.split()) < 0:
            bad('replacer.rs: the default `fn no_expansion(&mut self) -> Option<Cow<str>> { None }` of the trait not found')
        self.defs.append(('the default `Replacer::no_expansion` (closures): `None`', ['def genNoExpansionDefault : Option (List Char) :=', '  none']))
        f = dict(fn='no_expansion', impl=None, sig=REP_FN, gen='genNoExpansionFn', extra=[], slf=None, params=[('t', 'str')],
                 ret=('opt', 'str'), reg=(None, 'no_expansion'))
        self.one(toks, f, 'replacer.rs')
        for impl, tag, sty in REP_IMPLS:
            self.one(toks, dict(fn='no_expansion', impl=impl, sig=REP_SIG_NE, gen='genNoExpansion' + tag, extra=[], slf=sty, params=[],
                                ret=('opt', 'str')), 'replacer.rs')
        for impl, tag, sty in (REP_IMPLS[0], REP_IMPLS[5]):
            sig = REP_SIG_RA if tag != 'NoExpand' else REP_SIG_RA_NOEXPAND
            params = [('caps', 'Caps'), ('dst', 'str')] if tag != 'NoExpand' else [('dst', 'str')]
            f = dict(fn='replace_append', impl=impl, sig=sig, gen='genReplaceAppend' + tag,
                     extra=['(expand : RCaptures → List Char → List Char → List Char)'] if tag != 'NoExpand' else [], slf=sty, params=params,
                     ret='str', dstret=True)
            self.one_dst(toks, f)

    def one_dst(self, toks, f):
        """`fn replace_append(&mut self, caps, dst: &mut String)`: `dst` is handed in and returned"""
        blk, line = self.body_at(toks, f['impl'], f['sig'])
        c = Ctx()
        c.fn, c.ret = f['fn'], 'str'
        c.types = {'self': f['slf'], 'dst': 'str'}
        c.mutable = {'dst'}
        lparams = list(f['extra']) + ['(self : List Char)']
        for n, t in f['params']:
            c.types[n] = t
            lparams.append('(%s : %s)' % (vid(n), lt(t)))
        self.tmpn = 0
        body = self.block(blk, c, '  ', lambda c2, i2, tl: self.dst_tail(tl, c2, i2))
        self.defs.append(('`%s::replace_append` (replacer.rs line %d): `dst` is handed in and returned' % (
            re.sub(r'^impl(<[^>]*>)?', '', f['impl'].split(' {')[0].replace(' ', '')).replace('Replacerfor', ''), line), ['def %s %s : List Char :=' % (f['gen'], ' '.join(lparams))] + body))

    def dst_tail(self, tl, c, ind):
        if tl is not None and tl[0] == 'mcall':
            r = self.effect(tl, c, ind, lambda c2, i2: [i2 + 'dst'])
            if r is not None:
                return r
        if tl is not None:
            bad('`replace_append` ends in a value', tl[-1])
        return [ind + 'dst']

    def render(self):
        L = ['/- generated by tools/rs2lean_lib.py from src/lib.rs and src/replacer.rs — do not edit -/',
             'import FancyModel.GenLibPrelude',
             '/-!',
             '# The remaining glue of src/lib.rs and src/replacer.rs, translated statement by statement',
             '',
             '`RegexOptions::default`, the `RegexBuilder` methods, `Regex::new` / `new_options`, `wrap_tree`, the search entry points,',
             '`captures_len`, `capture_names`, the accessors of `Match` / `Captures` / `SubCaptureMatches`, and the `no_expansion` /',
             '`replace_append` family. `LRes`: a value, an `Err`, or a panic. The adaptors (what is not taken from the Rust text: the',
             'parser, the translated analyzer / compiler / printer, the engine `vm::run`, regex-automata) are in GenLibPrelude.lean.',
             'Proofs/C16c.lean and Proofs/C09b.lean prove these definitions equal to the hand-written model.',
             '-/',
             'set_option linter.unusedVariables false',
             'namespace Fancy.GenLib',
             'open Fancy.Parse',
             '']
        for doc, lines in self.defs:
            L.append('/-- %s -/' % doc)
            L += lines
            L.append('')
        L.append('end Fancy.GenLib')
        return '\n'.join(L) + '\n'


def translate(src_path, rep_path):
    tr = Driver(tokenize(open(src_path).read()), tokenize(open(rep_path).read(), rep_path))
    tr.run()
    return tr.render()


def main(argv):
    src = os.environ.get('RS2LEAN_LIB_SRC', DEFAULT_SRC)
    out = os.environ.get('RS2LEAN_LIBGLUE_OUT', DEFAULT_OUT)
    rep = None
    args, pos, stub_on_failure = list(argv), [], False
    while args:
        a = args.pop(0)
        if a == '-o':
            out = args.pop(0)
        elif a == '--replacer':
            rep = args.pop(0)
        elif a == '--stub-on-failure':
            stub_on_failure = True
        elif a in ('-h', '--help'):
            print(__doc__)
            return 0
        else:
            pos.append(a)
    if len(pos) > 1:
        print('rs2lean_lib.py: too many arguments')
        return 2
    if pos:
        src = pos[0]
    if rep is None:
        sib = os.path.join(os.path.dirname(os.path.abspath(src)), 'replacer.rs')
        rep = sib if os.path.exists(sib) else '/repo/src/replacer.rs'
    failure = None
    try:
        text = translate(src, rep)
    except Unsupported as e:
        where = '%s:%s: ' % (src, e.line) if e.line else '%s: ' % src
        failure = 'rs2lean_lib.py: NOT TRANSLATED - %s%s' % (where, e.msg)
    except Exception as e:                  # whatever goes wrong inside the translator is a refusal: never a stale file
        failure = 'rs2lean_lib.py: NOT TRANSLATED - %s: %s: %r' % (src, type(e).__name__, e)
    if failure is not None:
        print(failure)
        if not stub_on_failure or out == '-':
            return 2
        stub = ('/- tools/rs2lean_lib.py could not translate the glue of src/lib.rs / src/replacer.rs (exit 2):\n%s\n-/\n'
                'namespace Fancy.GenLib\n'
                'theorem translator_could_not_read_lib_glue : False := by\n'
                '  exact translation_failed   -- deliberately unresolved: see the comment above\n'
                'end Fancy.GenLib\n') % failure.replace('-/', '- /')[-1500:]
        old = open(out).read() if os.path.exists(out) else ''
        if old != stub:
            with open(out, 'w') as f:
                f.write(stub)
        print('rs2lean_lib.py: the glue is not translated; %s now holds a failing stub (Proofs/C16c and C09b will not build)' % os.path.basename(out))
        return 0
    if out == '-':
        sys.stdout.write(text)
        return 0
    old = open(out).read() if os.path.exists(out) else None
    if old != text:
        with open(out, 'w') as f:
            f.write(text)
    print('rs2lean_lib.py: ok (%s -> %s%s)' % (src, out, '' if old != text else ', unchanged'))
    return 0


if __name__ == '__main__':
    sys.exit(main(sys.argv[1:]))
