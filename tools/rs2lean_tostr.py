#!/usr/bin/env python3
"""Translate `is_special`, `push_usize`, `push_quoted`, `escape` and `Expr::to_str` (src/lib.rs of fancy-regex) into Lean:
lean/FancyModel/GeneratedToStr.lean.

usage: rs2lean_tostr.py [LIB_RS] [-o OUT.lean] [--stub-on-failure]
       (LIB_RS defaults to $RS2LEAN_LIB_SRC or /repo/src/lib.rs, OUT to $RS2LEAN_TOSTR_OUT or lean/FancyModel/GeneratedToStr.lean;
        --stub-on-failure, used by tools/extract.py: a failure leaves a stub that does not compile in OUT and exits 0)

Mechanical, like the other rs2lean_* translators (whose tokenizer and parsers are reused): one Lean `let` / `match` / `if` per
Rust statement in source order. Anything outside the subset is an error (exit status 2, the construct and its line).
What is NOT read from the Rust text is in lean/FancyModel/GenToStrPrelude.lean and in the tables below;
see notes/translator-tostr.md.
"""
import os, re, sys

sys.path.insert(0, os.path.dirname(os.path.abspath(__file__)))
import rs2lean_analyze as ra
import rs2lean_vm as rv
import rs2lean_api as rapi
import rs2lean_ints as ints
from rs2lean_analyze import Unsupported, bad, matching, top_level_positions, parse_enum, int_of, find_seq
from rs2lean_vm import tokenize, lean_id, LITERALS

VERIF = os.path.dirname(os.path.dirname(os.path.abspath(__file__)))
DEFAULT_SRC = '/repo/src/lib.rs'
DEFAULT_OUT = os.path.join(VERIF, 'lean', 'FancyModel', 'GeneratedToStr.lean')

CHAR_ESC = {'n': '\n', 'r': '\r', 't': '\t', '0': '\0', '\\': '\\', "'": "'", '"': '"'}


def unescape(body, line):
    out, i = [], 0
    while i < len(body):
        ch = body[i]
        if ch != '\\':
            out.append(ch)
            i += 1
            continue
        if i + 1 >= len(body):
            bad('dangling backslash in a literal', line)
        e = body[i + 1]
        if e in CHAR_ESC:
            out.append(CHAR_ESC[e])
            i += 2
        elif e == 'x':
            out.append(chr(int(body[i + 2:i + 4], 16)))
            i += 4
        elif e == 'u':
            j = body.index('}', i)
            out.append(chr(int(body[i + 3:j], 16)))
            i = j + 1
        else:
            bad('escape `\\%s` in a literal' % e, line)
    return ''.join(out)


def lean_char(ch):
    if ch == '\\':
        return "'\\\\'"
    if ch == "'":
        return "'\\''"
    if 32 <= ord(ch) < 127:
        return "'%s'" % ch
    return '(Char.ofNat %d)' % ord(ch)


def lean_str(s):
    if all(32 <= ord(ch) < 127 for ch in s):
        return '"%s".toList' % s.replace('\\', '\\\\').replace('"', '\\"')
    return '[%s]' % ', '.join(lean_char(ch) for ch in s)


# ------------------------------------------------------------------------------------------------ parser

class Parser(rapi.Parser):
    """+ char / string literals, `as` casts, `/` `%`, `*self`, closures, `panic!`, enum / literal / or-patterns"""

    def p_mul(self, ns):
        l = self.p_cast(ns)
        while self.peek().kind == 'op' and self.peek().text in ('*', '/', '%'):
            t = self.next()
            l = ('bin', t.text, l, self.p_cast(ns), t.line)
        return l

    def p_unary(self, ns):
        t = self.peek()
        if t.kind == 'op' and t.text == '!':
            self.next()
            return ('not', self.p_unary(ns), t.line)
        if t.kind == 'op' and t.text == '&':
            self.next()
            if self.at('mut'):
                self.next()
                return ('refmut', self.p_unary(ns), t.line)
            return ('ref', self.p_unary(ns), t.line)
        if t.kind == 'op' and t.text == '*':
            self.next()
            return ('deref', self.p_unary(ns), t.line)
        if t.kind == 'op' and t.text == '-':
            bad('unary minus', t.line)
        if t.kind == 'op' and t.text in ('|', '||'):
            return self.closure()
        return self.p_postfix(ns)             # (`as` is one level up: `p_cast` of the vm parser)

    def closure(self):
        t = self.expect('|')
        pat = self.pattern()
        if self.at(':'):                 # `|b: &u8|`: the annotation is checked to be a scalar (or a reference to one); rustc has
            self.next()                  # checked that it is the element type, and `*b` on it is the value
            ty = self.type_(['|'])
            if ty.lstrip('&') not in ('u8', 'char', 'usize', 'bool'):
                bad('closure parameter of type `%s`' % ty, t.line)
            if pat[0] != 'pbind':
                bad('typed closure parameter with a pattern', t.line)
        self.expect('|')
        if self.at('{'):
            stmts, tail = self.block()
            if stmts or tail is None:
                bad('closure whose block body is not a single expression', t.line)
            return ('closure', pat, tail, t.line)
        return ('closure', pat, self.expr(), t.line)

    def p_primary(self, ns):
        t = self.peek()
        if t.kind == 'chr':
            self.next()
            s = unescape(t.text[1:-1], t.line)
            if len(s) != 1:
                bad('character literal %s' % t.text, t.line)
            return ('char', s, t.line)
        if t.kind == 'str':
            self.next()
            if t.text.startswith('b'):
                bad('byte string literal', t.line)
            return ('strlit', unescape(t.text[1:-1], t.line), t.line)
        if t.kind == 'id' and t.text == 'panic' and self.peek(1).text == '!':
            self.next()
            self.next()
            self.i = matching(self.toks, self.i) + 1
            return ('panic', t.line)
        return rapi.Parser.p_primary(self, ns)

    def args(self):
        self.expect('(')
        out = []
        while not self.at(')'):
            out.append(self.expr())
            if not self.at(')'):
                self.expect(',')
        self.expect(')')
        return out

    def pattern(self):
        t = self.peek()
        if self.at('&'):
            self.next()
            return self.pattern()
        if self.at('ref'):
            self.next()
            if self.at('mut'):
                bad('`ref mut` binding', t.line)
            return ('pbind', self.ident(), t.line)
        if self.at('('):
            self.next()
            items = []
            while not self.at(')'):
                items.append(self.pattern())
                if not self.at(')'):
                    self.expect(',')
            self.next()
            return ('ptuple', items, t.line)
        if t.kind == 'int':
            self.next()
            return ('pint', int_of(t), t.line)
        if t.kind == 'chr':
            self.next()
            s = unescape(t.text[1:-1], t.line)
            if len(s) != 1:
                bad('character literal %s' % t.text, t.line)
            return ('pchar', s, t.line)
        if t.kind == 'bchr':
            self.next()
            return ('pint', rv.byte_of(t), t.line)
        if t.kind != 'id':
            bad('pattern starting with `%s`' % t.text, t.line)
        name = self.ident()
        if name == '_':
            return ('pwild', t.line)
        if name in ('true', 'false'):
            return ('pbool', name == 'true', t.line)
        if not self.at('::'):
            if name[:1].isupper() or self.at('(') or self.at('{') or self.at('@'):
                bad('pattern `%s …`' % name, t.line)
            return ('pbind', name, t.line)
        path = [name]
        while self.at('::'):
            self.next()
            path.append(self.ident())
        if path == ['usize', 'MAX']:
            return ('pmax', t.line)
        if len(path) != 2 or path[0] not in ('Expr', 'Assertion'):
            bad('pattern `%s`' % '::'.join(path), t.line)
        if self.at('('):
            self.next()
            items, rest = [], False
            while not self.at(')'):
                if self.at('..'):
                    self.next()
                    rest = True
                else:
                    items.append(self.pattern())
                if not self.at(')'):
                    self.expect(',')
            self.next()
            return ('pvariant', path[0], path[1], 'tuple', items, rest, t.line)
        if self.at('{'):
            self.next()
            items, rest = {}, False
            while not self.at('}'):
                if self.at('..'):
                    self.next()
                    rest = True
                    break
                isref = False
                if self.at('ref'):
                    self.next()
                    isref = True
                f = self.ident()
                if self.at(':'):
                    if isref:
                        bad('`ref f: pat`', t.line)
                    self.next()
                    items[f] = self.pattern()
                else:
                    items[f] = ('pbind', f, t.line)
                if not self.at('}'):
                    self.expect(',')
            self.expect('}')
            return ('pvariant', path[0], path[1], 'struct', items, rest, t.line)
        return ('pvariant', path[0], path[1], 'unit', [], False, t.line)

    def match_expr(self):
        t = self.expect('match')
        scrut = self.expr(no_struct=True)
        self.expect('{')
        arms = []
        while not self.at('}'):
            at = self.peek()
            pats = [self.pattern()]
            while self.at('|'):
                self.next()
                pats.append(self.pattern())
            if self.at('if'):
                bad('match guard', at.line)
            self.expect('=>')
            body = self.arm_body()
            if self.at(','):
                self.next()
            arms.append((pats, body, at.line))
        self.expect('}')
        return ('match', scrut, arms, t.line)


# ------------------------------------------------------------------------------------------------ tables

FIELD_ADAPTORS = {('Repeat', 'hi'): ('hiVal', 'Option Nat')}
LEAN_T = {'usize': 'Nat', 'u8': 'Nat', 'int': 'Nat', 'bool': 'Bool', 'char': 'Char', 'str': 'List Char', 'String': 'List Char',
          'Expr': 'Expr', 'Vec<Expr>': 'List Expr', 'Assertion': 'Assertion', 'LookAround': 'Look'}
FIELD_TAGS = {'bool': 'bool', 'usize': 'usize', 'String': 'str', 'Box<Expr>': 'Expr', 'Vec<Expr>': 'Vec<Expr>', 'Assertion': 'Assertion',
              'LookAround': 'LookAround'}
SIGS = {
    'push_usize': ('fn push_usize ( s : & mut String , x : usize ) {', 'buffer', 's', [('x', 'usize')]),
    'is_special': ('fn is_special ( c : char ) -> bool {', 'value', None, [('c', 'char')]),
    'push_quoted': ('fn push_quoted ( buf : & mut String , s : & str ) {', 'buffer', 'buf', [('s', 'str')]),
    'escape': ('pub fn escape ( text : & str ) -> Cow < str > {', 'cow', None, [('text', 'str')]),
    'to_str': ('pub fn to_str ( & self , buf : & mut String , precedence : u8 ) {', 'buffer', 'buf', [('precedence', 'u8')]),
}
GEN = {'push_usize': 'genPushUsize', 'is_special': 'genIsSpecial', 'push_quoted': 'genPushQuoted', 'escape': 'genEscape',
       'to_str': 'genToStr'}
RESERVED = {'rest_', 'h_', 'acc', 'r_'}


def vid(name):
    """the Lean identifier of a Rust variable: a name that the generated code uses for itself (RESERVED, `t1`, `t2`, …) is
    renamed apart (`n` -> `n_rs`), so that a local may be called anything"""
    return lean_id(name + '_rs') if (name in RESERVED or re.match(r't[0-9]+$', name)) else lean_id(name)


def clash_rs(name):
    return name.endswith('_rs') and (name[:-3] in RESERVED or re.match(r't[0-9]+$', name[:-3]) is not None)
NUM = ('usize', 'u8', 'int')


def is_path(e, *names):
    return e[0] == 'path' and e[1] == list(names)


class NeedsFallible(Unsupported):
    pass


class Ctx:
    def __init__(self):
        self.types, self.buf, self.fallible, self.fn, self.kind = {}, None, False, None, None
        self.dep_if = False

    def copy(self):
        c = Ctx()
        c.__dict__.update(self.__dict__)
        c.types = dict(self.types)
        return c


class Translator:
    def __init__(self, toks):
        self.toks = toks
        self.defs = []          # (doc, lines, group)  group: None | 'to_str'
        self.fallible = {}      # rust fn -> bool
        self.names = set()
        self.tmpn = 0

    def fresh(self):
        self.tmpn += 1
        return 't%d' % self.tmpn

    @staticmethod
    def emit_pre(pre, ind):
        out = []
        for scrut, okpat in pre:
            out += [ind + 'match %s with' % scrut, ind + '| none => none', ind + '| some %s =>' % okpat]
            ind += '  '
        return out, ind

    def bind(self, c, name, t, line, shadow=False):
        if (name in c.types and not (shadow and name != c.buf and name != 'self')) or clash_rs(name) or name in self.names:
            bad('`%s` shadows a name of an enclosing scope / a parameter (only an earlier `let` of the same block may be shadowed)' % name, line)
        c2 = c.copy()
        c2.types[name] = 'usize' if t == 'int' else t
        return c2

    # ---- expressions -> (pre, lean text, type)
    def vex(self, e, c):
        k, line = e[0], e[-1]
        if k == 'int':
            return [], str(e[1]), 'int'
        if k == 'byte':
            return [], str(e[1]), 'u8'
        if k == 'char':
            return [], lean_char(e[1]), 'char'
        if k == 'strlit':
            return [], lean_str(e[1]), 'str'
        if k == 'bool':
            return [], ('true' if e[1] else 'false'), 'bool'
        if k == 'paren':
            return self.vex(e[1], c)
        if k == 'path':
            if e[1] == ['usize', 'MAX']:
                return [], 'UNSET', 'usize'
            if len(e[1]) != 1 or e[1][0] not in c.types:
                bad('`%s` as a value' % '::'.join(e[1]), line)
            n = e[1][0]
            if c.types[n] not in LEAN_T:
                bad('`%s` (of type %s) as a value' % (n, c.types[n]), line)
            return [], vid(n), c.types[n]
        if k == 'ref':
            return self.vex(e[1], c)
        if k == 'deref':
            p, s, t = self.vex(e[1], c)
            if e[1][0] == 'path' and (t in NUM or t in ('char', 'bool')):
                return p, s, t                # `*b` on a reference to a scalar (a closure parameter `|b: &u8|`, `&b`)
            bad('`*` on a value of type %s' % t, line)
        if k == 'typed':                     # `let x: T = e`
            p, s, t = self.vex(e[1], c)
            if e[2] in ('usize', 'u8'):
                if not (t == e[2] or (t == 'int' and s.isdigit() and ints.fits(int(s), e[2]))):
                    bad('`let _: %s` of a value of type %s' % (e[2], t), line)
                return p, s, e[2]
            if e[2] != t or t != 'bool':
                bad('`let _: %s` of a value of type %s' % (e[2], t), line)
            return p, s, t
        if k == 'tint':
            if e[2] not in ('usize', 'u8') or not ints.fits(e[1], e[2]):
                bad('integer literal of type %s' % e[2], line)
            return [], str(e[1]), e[2]
        if k == 'matches':
            _, scrut, pats, _ = e
            p, s, t = self.vex(scrut, c)
            if t not in NUM and t != 'char':
                bad('`matches!` on a value of type %s' % t, line)
            tests = []
            for q in pats:
                if q[0] == 'pint' and t in NUM:
                    tests.append('%s == %d' % (s, q[1]))
                elif q[0] == 'pmax' and t == 'usize':
                    tests.append('%s == UNSET' % s)
                elif q[0] == 'pchar' and t == 'char':
                    tests.append('%s == %s' % (s, lean_char(q[1])))
                else:
                    bad('`matches!`: pattern of form %s on a value of type %s' % (q[0], t), line)
            return p, '(%s)' % ' || '.join(tests), 'bool'
        if k == 'not':
            p, s, t = self.vex(e[1], c)
            if t != 'bool':
                bad('operand of `!` has type %s' % t, line)
            return p, '(!%s)' % s, 'bool'
        if k == 'cast':
            p, s, t = self.vex(e[1], c)
            if e[2] == 'u8' and t in ('usize', 'int', 'u8'):
                return p, ('(%s %% 256)' % s if t != 'u8' else s), 'u8'
            if e[2] == 'char' and t == 'u8':
                return p, '(Char.ofNat %s)' % s, 'char'
            if e[2] == 'usize' and t in ('u8', 'usize', 'int'):
                return p, s, 'usize'
            bad('cast of a value of type %s to `%s`' % (t, e[2]), line)
        if k == 'bin':
            _, op, a, b, _ = e
            (pa, l, tl), (pb, r, tr) = self.vex(a, c), self.vex(b, c)
            if op in ('&&', '||'):
                if tl != 'bool' or tr != 'bool' or pb:
                    bad('`%s` between %s and %s' % (op, tl, tr), line)
                return pa, '(%s %s %s)' % (l, op, r), 'bool'
            numeric = tl in NUM and tr in NUM and (tl == tr or 'int' in (tl, tr))
            if op in ('==', '!='):
                if not (numeric or (tl == tr and tl in ('char', 'bool'))):
                    bad('`%s` between %s and %s' % (op, tl, tr), line)
                return pa + pb, '(%s %s %s)' % (l, op, r), 'bool'
            if op in ('<', '<=', '>', '>='):
                if not numeric:
                    bad('`%s` between %s and %s' % (op, tl, tr), line)
                lop = {'<': '<', '<=': '≤', '>': '>', '>=': '≥'}[op]
                return pa + pb, ('(decide (%s %s %s))' % (l, lop, r)), 'bool'
            if not numeric:
                bad('`%s` between %s and %s' % (op, tl, tr), line)
            ty = tr if tl == 'int' else tl
            if op == '+':
                if ty == 'u8':
                    if not c.fallible:
                        raise NeedsFallible('`u8` addition (it can overflow)', line)
                    t = self.fresh()
                    return pa + pb + [('u8Add %s %s' % (l, r), t)], t, 'u8'
                return pa + pb, '(%s + %s)' % (l, r), ty
            if op in ('/', '%'):
                if b[0] != 'int' or b[1] == 0:
                    bad('`%s` by something that is not a non-zero literal' % op, line)
                return pa + pb, '(%s %s %s)' % (l, op, r), ty
            bad('operator `%s`' % op, line)
        if k == 'call':
            path, args = e[1], e[2]
            if path == ['is_special'] and len(args) == 1:
                if 'is_special' not in self.fallible:
                    bad('`is_special` is called before it is translated', line)
                p, s, t = self.vex(args[0], c)
                if t != 'char':
                    bad('`is_special` of a value of type %s' % t, line)
                return p, '(genIsSpecial %s)' % s, 'bool'
            if path == ['String', 'with_capacity'] and len(args) == 1:
                p, s, t = self.vex(args[0], c)
                if t not in NUM:
                    bad('capacity of type %s' % t, line)
                # the functions of this translator cannot report a panic here, so the argument must be one whose `usize`
                # arithmetic cannot overflow (rs2lean_ints, adaptor fact LEN: a `len()`, and a `.count()` over the bytes of a string,
                # are at most isize::MAX). NOT modelled: "capacity overflow" for a sum above isize::MAX (a string of more than
                # 2^62 bytes - the string being built would have that many bytes)
                def leaf(x):
                    if x[0] == 'mcall' and x[2] == 'len' and not x[3]:
                        return ints.ISIZE_MAX
                    if x[0] == 'path' and len(x[1]) == 1 and x[1][0] in getattr(c, 'counts', ()):
                        return ints.ISIZE_MAX
                    return None
                b = ints.cap_bound(args[0], leaf)
                if b is None or b > ints.USIZE_MAX:
                    bad('`String::with_capacity(..)`: the arithmetic of its argument can overflow `usize`, and this function has no '
                        'way to report a panic', line)
                return [], '([] : List Char)', 'String'
            if len(path) == 1 and path[0] not in SIGS:
                gen, ptypes, ret = self.helper(path[0], line)
                if len(args) != len(ptypes):
                    bad('`%s`: wrong number of arguments' % path[0], line)
                pre, vals = [], []
                for a, w in zip(args, ptypes):
                    p, v, t = self.vex(a, c)
                    if not (t == w or (t == 'int' and w in NUM)):
                        bad('argument of `%s` has type %s, expected %s' % (path[0], t, w), line)
                    pre += p
                    vals.append(v)
                return pre, '(%s %s)' % (gen, ' '.join(vals)), ret
            bad('call of `%s`' % '::'.join(path), line)
        if k == 'mcall':
            _, recv, m, args, _ = e
            if m == 'count' and not args and recv[0] == 'mcall' and recv[2] == 'filter' and len(recv[3]) == 1 \
                    and recv[3][0][0] == 'path' and len(recv[3][0][1]) == 1 and isinstance(c.types.get(recv[3][0][1][0]), tuple):
                recv = recv[:3] + ([c.types[recv[3][0][1][0]][1]],) + recv[4:]       # `let f = |x| …; ….filter(f)`
            if m == 'count' and not args and recv[0] == 'mcall' and recv[2] == 'filter' and len(recv[3]) == 1 \
                    and recv[3][0][0] == 'closure' and recv[1][0] == 'mcall' and recv[1][2] == 'bytes' and not recv[1][3]:
                p, s, t = self.vex(recv[1][1], c)
                if t != 'str' or p:
                    bad('`.bytes()` on a value of type %s' % t, line)
                _, pat, body, cl = recv[3][0]
                if pat[0] != 'pbind':
                    bad('closure parameter that is not `x` / `&x`', cl)
                c2 = self.bind(c, pat[1], 'u8', cl)
                pb, sb, tb = self.vex(body, c2)
                if tb != 'bool' or pb:
                    bad('the closure of `filter` must be a `bool` expression that cannot panic', cl)
                return [], '(List.filter (fun %s => %s) (strBytes %s)).length' % (vid(pat[1]), sb, s), 'usize'
            p, s, t = self.vex(recv, c)
            if t == 'str' and m == 'len' and not args:
                return p, '(strBytes %s).length' % s, 'usize'
            if t in ('str', 'String') and m == 'is_empty' and not args:
                return p, '(List.isEmpty %s)' % s, 'bool'
            if t in ('usize', 'u8') and m in ('min', 'max', 'saturating_sub', 'abs_diff') and len(args) == 1:
                pa, a, ta = self.vex(args[0], c)
                if not (ta == t or ta == 'int'):
                    bad('argument of `.%s(..)` has type %s' % (m, ta), line)
                return p + pa, ints.method(m, s, a, t), t
            bad('method call `.%s(…)` on a value of type %s' % (m, t), line)
        if k == 'if':
            _, cnd, th, el, _ = e
            if th[0] or th[1] is None or not el or el[0] or el[1] is None:
                bad('`if` used as a value whose branches are not single expressions', line)
            (pc, cs, ct), (pa, x, tx), (pb, y, ty) = self.vex(cnd, c), self.vex(th[1], c), self.vex(el[1], c)
            if ct != 'bool' or tx != ty or pa or pb:
                bad('`if` expression: condition %s, branches %s / %s' % (ct, tx, ty), line)
            return pc, '(if %s then %s else %s)' % (cs, x, y), tx
        bad('expression form %s' % k, line)

    # ---- results
    def done(self, c):
        """the value of a buffer function that ends here"""
        if c.kind != 'buffer':
            bad('`%s` ends without a value' % c.fn)
        return ('some %s' if c.fallible else '%s') % vid(c.buf)

    def value(self, e, c, ind):
        """lines for the value `e` of a non-buffer function"""
        line = e[-1]
        if c.kind == 'cow':
            if e[0] == 'call' and e[1] in (['Cow', 'Borrowed'], ['Cow', 'Owned']) and len(e[2]) == 1:
                p, s, t = self.vex(e[2][0], c)
                if e[1][1] == 'Borrowed' and t == 'str' and not p:
                    return [ind + 'none']
                if e[1][1] == 'Owned' and t == 'String' and not p:
                    return [ind + 'some %s' % s]
            bad('value: expected `Cow::Borrowed(text)` or `Cow::Owned(buf)`', line)
        p, s, t = self.vex(e, c)
        if p or t != c.ret:
            bad('value of type %s (with %d operation(s) that can panic) where %s is returned' % (t, len(p), c.ret), line)
        return [ind + s]

    # ---- statements, continuation-passing; k(c, ind) is called where the block falls through
    def block(self, blk, c, ind, k):
        stmts, tail = blk
        if tail is not None:
            stmts = stmts + [('tail', tail, tail[-1])]
        return self.stmts(stmts, c, ind, k)

    def stmts(self, stmts, c, ind, k):
        if not stmts:
            return k(c, ind)
        ints.mark_shadow_lets(stmts, self)
        s, rest = stmts[0], stmts[1:]
        kind, line = s[0], s[-1]
        cont = lambda c2, i2: self.stmts(rest, c2, i2, k)
        after = lambda c_inner, i2: cont(c, i2)
        if kind in ('expr', 'tail'):
            e = s[1]
            if e[0] == 'matches':
                # `matches!(x, P | Q)` IS `match x { P | Q => true, _ => false }` (the macro's definition)
                e = ('match', e[1], [(e[2], ([], ('bool', True, line)), line), ([('pwild', line)], ([], ('bool', False, line)), line)], line)
            if e[0] == 'unit':
                return cont(c, ind)
            if e[0] == 'panic':
                if not c.fallible:
                    raise NeedsFallible('`panic!`', line)
                return [ind + 'none']
            if e[0] in ('if', 'match'):
                if rest and c.kind == 'buffer' and c.buf is not None:
                    return self.join(e, c, ind, cont)        # the branches only change the buffer: compute it, go on once
                return (self.if_cps if e[0] == 'if' else self.match_cps)(e, c, ind, after)
            if e[0] in ('mcall', 'call'):
                r = self.effect(e, c, ind, cont)
                if r is not None:
                    return r
            if kind == 'tail' and c.kind != 'buffer':
                if rest:
                    bad('statement after the value', line)
                return self.value(e, c, ind)
            bad('statement that is not a write into the buffer, a call, `if`, `match` or `for`', line)
        if kind == 'let' and s[3][0] == 'closure':
            # `let f = |x| e;`: nothing happens here; the closure is looked up where `f` is handed to an iterator adaptor. It must
            # not capture a variable (then its meaning cannot change between here and there)
            _, name, mut, e, _ = s
            if mut or any(x in c.types for x in self.free_names(e[2], [])):
                bad('`let %s = |..| ..`: a `mut` closure, or one that captures a variable' % name, line)
            c2 = self.bind(c, name, 'bool', line)
            c2.types[name] = ('closure', e)
            return cont(c2, ind)
        if kind == 'let':
            _, name, mut, e, _ = s
            p, v, t = self.vex(e, c)
            c2 = self.bind(c, name, t, line, ints.shadow_ok(self, s))
            if t == 'String':
                if not mut or c.buf is not None:
                    bad('a second buffer `%s`' % name, line)
                c2.buf = name
            out, i2 = self.emit_pre(p, ind)
            return out + [i2 + 'let %s : %s := %s' % (vid(name), LEAN_T[c2.types[name]], v)] + cont(c2, i2)
        if kind == 'for':
            return self.for_loop(s, c, ind, cont)
        if kind == 'return':
            bad('`return`', line)
        bad('statement form %s' % kind, line)

    def join(self, e, c, ind, cont):
        """a branching statement that is not last: `let buf := if … then … buf else buf` (through `Option` if a branch can panic)"""
        b = vid(c.buf)
        for fallible in ((False, True) if c.fallible else (False,)):
            cj = c.copy()
            cj.fallible = fallible
            end = (lambda c2, i2: [i2 + 'some ' + b]) if fallible else (lambda c2, i2: [i2 + b])
            ndefs, nnames, ntmp, nhelp = len(self.defs), set(self.names), self.tmpn, dict(getattr(self, 'helpers', {}))
            try:
                body = (self.if_cps if e[0] == 'if' else self.match_cps)(e, cj, ind + '  ', end)
                break
            except NeedsFallible:
                del self.defs[ndefs:]
                self.names, self.tmpn, self.helpers = nnames, ntmp, nhelp
                if fallible or not c.fallible:
                    raise
        if not fallible:
            return [ind + 'let %s : List Char :=' % b] + body + cont(c, ind)
        return [ind + 'let r_ : Option (List Char) :='] + body + [ind + 'match r_ with', ind + '| none => none', ind + '| some %s =>' % b] \
            + cont(c, ind + '  ')

    def is_buf(self, e, c):
        if e[0] == 'refmut':
            e = e[1]
        return e[0] == 'path' and len(e[1]) == 1 and e[1][0] == c.buf

    def effect(self, e, c, ind, cont):
        """`buf.push(x)`, `buf.push_str(s)`, `f(buf, …)`, `child.to_str(buf, p)` -> lines, or None"""
        line = e[-1]
        b = vid(c.buf) if c.buf else None
        if e[0] == 'mcall' and self.is_buf(e[1], c) and e[2] in ('push', 'push_str') and len(e[3]) == 1:
            p, v, t = self.vex(e[3][0], c)
            want = 'char' if e[2] == 'push' else 'str'
            if t != want:
                bad('`%s.%s(..)` of a value of type %s' % (c.buf, e[2], t), line)
            out, i2 = self.emit_pre(p, ind)
            new = '(%s ++ [%s])' % (b, v) if e[2] == 'push' else '(%s ++ %s)' % (b, v)
            return out + [i2 + 'let %s : List Char := %s' % (b, new)] + cont(c, i2)
        callee = args = None
        if e[0] == 'call' and len(e[1]) == 1 and e[1][0] in ('push_usize', 'push_quoted') and e[2] and self.is_buf(e[2][0], c):
            callee, args, first = e[1][0], e[2][1:], []
        elif e[0] == 'mcall' and e[2] == 'to_str' and e[3] and self.is_buf(e[3][0], c):
            p0, v0, t0 = self.vex(e[1], c)
            if t0 != 'Expr' or p0:
                bad('`.to_str(..)` on a value of type %s' % t0, line)
            callee, args, first = 'to_str', e[3][1:], [v0]
        if callee is None:
            return None
        if callee not in self.fallible:
            bad('`%s` is called before it is translated' % callee, line)
        want = [t for _, t in SIGS[callee][3]]
        if len(args) != len(want):
            bad('`%s`: wrong number of arguments' % callee, line)
        pre, vals = [], []
        for a, w in zip(args, want):
            p, v, t = self.vex(a, c)
            if not (t == w or (t == 'int' and w in NUM)):
                bad('argument of `%s` has type %s, expected %s' % (callee, t, w), line)
            pre += p
            vals.append(v)
        call = '%s %s' % (GEN[callee], ' '.join(first + [b] + vals))
        out, i2 = self.emit_pre(pre, ind)
        if self.fallible[callee]:
            if not c.fallible:
                raise NeedsFallible('call of `%s`, which can panic' % callee, line)
            return out + [i2 + 'match %s with' % call, i2 + '| none => none', i2 + '| some %s =>' % b] + cont(c, i2 + '  ')
        return out + [i2 + 'let %s : List Char := %s' % (b, call)] + cont(c, i2)

    def if_cps(self, e, c, ind, k):
        _, cnd, th, el, line = e
        p, cs, ct = self.vex(cnd, c)
        if ct != 'bool':
            bad('condition of type %s' % ct, line)
        out, i2 = self.emit_pre(p, ind)
        if c.dep_if:
            if not (cs.startswith('(decide (') and cs.endswith('))')):
                bad('in a recursive function over `usize` every `if` must test a single comparison', line)
            head = 'if h_ : %s then' % cs[len('(decide ('):-2]
        else:
            head = 'if %s then' % cs
        return out + [i2 + head] + self.block(th, c.copy(), i2 + '  ', k) + [i2 + 'else'] \
            + self.block(el if el else ([], None), c.copy(), i2 + '  ', k)

    # ---- patterns of `match *self`
    def expr_pat(self, pat, c):
        """-> (lean pattern, [(name, type)], [adaptor let lines])"""
        k, line = pat[0], pat[-1]
        if k == 'pwild':
            return '_', [], []
        if k != 'pvariant' or pat[1] != 'Expr':
            bad('arm of `match *self` that is not `Expr::V …` or `_`', line)
        _, _, v, shape, items, rest, _ = pat
        table = {n: (sh, fs, tm) for n, sh, fs, tm in ra.VARIANTS}
        if v not in table:
            bad('`Expr::%s` is not a variant in the translator\'s table' % v, line)
        tshape, tfields, tmpl = table[v]
        if tshape != shape:
            bad('`Expr::%s` is a %s variant' % (v, tshape), line)
        keys = [str(i) for i in range(len(tfields))] if tshape == 'tuple' else [f for f, _ in tfields]
        ftypes = dict(zip(keys, tfields if tshape == 'tuple' else [ty for _, ty in tfields]))
        sub = {}
        if tshape == 'tuple':
            if len(items) > len(keys) or (len(items) < len(keys) and not rest):
                bad('`Expr::%s(…)`: wrong number of fields' % v, line)
            sub = {str(i): p for i, p in enumerate(items)}
        elif tshape == 'struct':
            for f in items:
                if f not in keys:
                    bad('`Expr::%s` has no field `%s`' % (v, f), line)
            if not rest and set(items) != set(keys):
                bad('`Expr::%s { … }` without `..` does not name every field' % v, line)
            sub = dict(items)
        args, binds, lets = {}, [], []
        for key in keys:
            p = sub.get(key)
            if p is None or p[0] == 'pwild':
                args[key] = '_'
            elif p[0] == 'pbind':
                if ftypes[key] not in FIELD_TAGS:
                    bad('field type `%s`' % ftypes[key], line)
                tag = FIELD_TAGS[ftypes[key]]
                if (v, key) in FIELD_ADAPTORS:
                    fn, mty = FIELD_ADAPTORS[(v, key)]
                    args[key] = p[1] + '_m'
                    lets.append('let %s : %s := %s %s_m' % (vid(p[1]), LEAN_T[tag], fn, p[1]))
                else:
                    args[key] = vid(p[1])
                binds.append((p[1], tag))
            elif p[0] == 'pvariant' and p[1] == 'Assertion' and ftypes[key] == 'Assertion':
                akey = None
                if p[3] == 'unit':
                    akey = (p[2], None)
                elif p[3] == 'struct' and set(p[4]) == {'crlf'} and p[4]['crlf'][0] == 'pbool' and not p[5]:
                    akey = (p[2], p[4]['crlf'][1])
                if akey not in rv.ASSERTION_PATTERNS:
                    bad('assertion pattern `Assertion::%s …`' % p[2], line)
                ap = rv.ASSERTION_PATTERNS[akey]
                args[key] = '(%s)' % ap if ' ' in ap else ap
            else:
                bad('sub-pattern of `Expr::%s`' % v, line)
        lp = tmpl.format(*[args.get(str(i), '_') for i in range(len(keys))], **{k2: v2 for k2, v2 in args.items() if not k2.isdigit()})
        return lp, binds, lets

    def match_cps(self, e, c, ind, k):
        _, scrut, arms, line = e
        if scrut[0] == 'deref' and is_path(scrut[1], 'self'):
            if c.types.get('self') != 'Self':
                bad('`match *self` outside `to_str`', line)
            out = [ind + 'match self with']
            for pats, body, aline in arms:
                for pat in pats:
                    lp, binds, lets = self.expr_pat(pat, c)
                    if len(pats) > 1 and binds:
                        bad('bindings inside an or-pattern', aline)
                    c2 = c
                    for n, t in binds:
                        c2 = self.bind(c2, n, t, aline)
                    out.append(ind + '| %s =>' % lp)
                    out += [ind + '  ' + l for l in lets]
                    out += self.block(body, c2, ind + '  ', k)
            return out
        # a scalar or a tuple of scalars: the arms become a chain of tests
        if scrut[0] == 'mcall' and scrut[2] == 'count' and not scrut[3]:
            c = c.copy()
            c.count_scrut = True          # a name bound to this value is a count of items of a string's bytes (<= its length)
        comps = scrut[1] if scrut[0] == 'tuple' else [scrut]
        pre, vals = [], []
        for x in comps:
            p, s, t = self.vex(x, c)
            if t not in NUM and t != 'char':
                bad('`match` on a value of type %s' % t, line)
            pre += p
            vals.append((x, s, t))
        out, i2 = self.emit_pre(pre, ind)
        named = []
        for x, s, t in vals:
            if x[0] == 'path':
                named.append((s, t))
            else:
                tmp = self.fresh()
                out.append(i2 + 'let %s : %s := %s' % (tmp, LEAN_T[t], s))
                named.append((tmp, t))
        return out + self.arm_chain(arms, 0, named, scrut[0] == 'tuple', c, i2, k, line)

    def arm_chain(self, arms, i, named, is_tuple, c, ind, k, line):
        if i >= len(arms):
            bad('`match` on numbers / characters without an irrefutable last arm', line)
        pats, body, aline = arms[i]
        tests, irrefutable_binds = [], None
        for pat in pats:
            ps = pat[1] if (is_tuple and pat[0] == 'ptuple') else ([pat] if not is_tuple else None)
            if ps is None:
                if pat[0] in ('pwild', 'pbind') and pat[0] == 'pwild':
                    ps = [('pwild', aline)] * len(named)
                else:
                    bad('pattern on a tuple that is not a tuple pattern or `_`', aline)
            if len(ps) != len(named):
                bad('tuple pattern of the wrong width', aline)
            conj, binds = [], []
            for q, (s, t) in zip(ps, named):
                if q[0] == 'pint' and t in NUM:
                    conj.append('%s == %d' % (s, q[1]))
                elif q[0] == 'pmax' and t == 'usize':
                    conj.append('%s == UNSET' % s)
                elif q[0] == 'pchar' and t == 'char':
                    conj.append('%s == %s' % (s, lean_char(q[1])))
                elif q[0] == 'pwild':
                    pass
                elif q[0] == 'pbind':
                    binds.append((q[1], s, t))
                else:
                    bad('pattern of form %s on a value of type %s' % (q[0], t), aline)
            if not conj:
                if len(pats) > 1:
                    bad('an irrefutable alternative inside an or-pattern', aline)
                irrefutable_binds = binds
            else:
                if binds:
                    bad('a pattern that both tests a literal and binds', aline)
                tests.append(' && '.join(conj))
        if irrefutable_binds is not None:
            c2, out = c, []
            for n, s, t in irrefutable_binds:
                if vid(n) == s:
                    continue                      # `(lo, hi) => …` on the scrutinee `(lo, hi)`: the same values
                c2 = self.bind(c2, n, t, aline)
                if getattr(c, 'count_scrut', False):
                    c2.counts = set(getattr(c, 'counts', ())) | {n}
                out.append(ind + 'let %s : %s := %s' % (vid(n), LEAN_T[c2.types[n]], s))
            return out + self.block(body, c2, ind, k)
        test = ' || '.join('(%s)' % x if ' && ' in x and len(tests) > 1 else x for x in tests)
        return [ind + 'if (%s) then' % test] + self.block(body, c.copy(), ind + '  ', k) + [ind + 'else'] \
            + self.arm_chain(arms, i + 1, named, is_tuple, c, ind + '  ', k, line)

    # ---- `for` over the children / the characters
    def free_names(self, x, out):
        if isinstance(x, tuple) and x:
            if x[0] == 'path' and isinstance(x[1], list) and len(x[1]) == 1 and x[1][0] not in out:
                out.append(x[1][0])
            for y in (x[1:] if isinstance(x[0], str) else x):
                self.free_names(y, out)
        elif isinstance(x, list):
            for y in x:
                self.free_names(y, out)
        return out

    def for_loop(self, s, c, ind, cont):
        _, pat, it, body, line = s
        if c.buf is None:
            bad('`for` loop in a function without a buffer', line)
        idx = None
        if it[0] == 'mcall' and it[2] == 'enumerate' and not it[3] and it[1][0] == 'mcall' and it[1][2] == 'iter' and not it[1][3]:
            p, src, t = self.vex(it[1][1], c)
            if pat[0] != 'ptuple' or len(pat[1]) != 2 or pat[1][0][0] != 'pbind' or pat[1][1][0] != 'pbind':
                bad('`for` over `.iter().enumerate()` needs the pattern `(i, x)`', line)
            idx, var = pat[1][0][1], pat[1][1][1]
        elif it[0] == 'mcall' and it[2] == 'chars' and not it[3]:
            p, src, t = self.vex(it[1], c)
            if t != 'str' or pat[0] != 'pbind':
                bad('`for c in s.chars()` on a value of type %s' % t, line)
            t, var = 'chars', pat[1]
        else:
            p, src, t = self.vex(it, c)
            if pat[0] != 'pbind':
                bad('`for` pattern', line)
            var = pat[1]
        if p:
            bad('`for` over something that can panic', line)
        if t == 'Vec<Expr>':
            et = 'Expr'
        elif t == 'chars':
            et = 'char'
        else:
            bad('`for` over a value of type %s' % t, line)
        base = 'loop' + GEN[c.fn][3:]
        name, n = base, 1
        while name in self.names:
            n += 1
            name = base + str(n)
        self.names.add(name)
        cl = self.bind(c, var, et, line)
        if idx:
            cl = self.bind(cl, idx, 'usize', line)
        b = vid(c.buf)
        cap = sorted(x for x in self.free_names(body, []) if x in c.types and x != c.buf and c.types[x] in LEAN_T)
        params = ''.join(' (%s : %s)' % (vid(x), LEAN_T[c.types[x]]) for x in cap)
        call = name + ''.join(' ' + vid(x) for x in cap)
        ret = 'Option (List Char)' if c.fallible else 'List Char'
        ixs = ' Nat →' if idx else ''
        ixp = ', %s' % vid(idx) if idx else ''
        lines = ['def %s%s : List %s →%s List Char → %s' % (name, params, LEAN_T[et], ixs, ret),
                 '  | []%s, %s => %s' % (ixp, b, 'some ' + b if c.fallible else b),
                 '  | %s :: rest_%s, %s =>' % (vid(var), ixp, b)]
        lines += self.stmts(body, cl, '    ', lambda c2, i2: [i2 + '%s rest_%s %s' % (call, ' (%s + 1)' % vid(idx) if idx else '', b)])
        self.defs.append(('a `for` loop of `%s`: the elements left%s, the buffer' % (c.fn, ', the index' if idx else ''), lines, c.group))
        start = '%s %s%s %s' % (call, src, ' 0' if idx else '', b)
        if c.fallible:
            return [ind + 'match %s with' % start, ind + '| none => none', ind + '| some %s =>' % b] + cont(c, ind + '  ')
        return [ind + 'let %s : List Char := %s' % (b, start)] + cont(c, ind)

    # ---- a free function that is not in the table: translated too, if it takes and returns scalars and its body is one value
    SCALARS = {'char': 'char', 'u8': 'u8', 'usize': 'usize', 'bool': 'bool'}

    def helper(self, fn, line):
        if not hasattr(self, 'helpers'):
            self.helpers = {}
        if fn in self.helpers:
            if self.helpers[fn] is None:
                bad('`%s` is recursive' % fn, line)
            return self.helpers[fn]
        toks = self.toks
        tops = top_level_positions(toks)
        ii = [i for i in tops if toks[i].text == 'fn' and toks[i + 1].text == fn]
        if len(ii) != 1:
            bad('call of `%s` (not a function of the translator\'s table, and there %s top-level `fn %s` to translate)' % (
                fn, 'is no' if not ii else 'are several', fn), line)
        pz = Parser(toks, ii[0] + 2)
        if not pz.at('('):
            bad('call of `%s`: a generic function' % fn, line)
        pz.next()
        params = []
        while not pz.at(')'):
            if pz.at('mut'):
                bad('call of `%s`: a `mut` parameter' % fn, line)
            n = pz.ident()
            pz.expect(':')
            ty = pz.type_([',', ')'])
            if ty not in self.SCALARS:
                bad('call of `%s`: parameter `%s: %s` (only char / u8 / usize / bool)' % (fn, n, ty), line)
            params.append((n, self.SCALARS[ty]))
            if pz.at(','):
                pz.next()
        pz.next()
        pz.expect('->')
        rty = pz.type_(['{'])
        if rty not in self.SCALARS:
            bad('call of `%s`: return type `%s`' % (fn, rty), line)
        blk = pz.block()
        self.helpers[fn] = None
        c = Ctx()
        c.fn, c.kind, c.buf, c.fallible, c.group, c.dep_if = fn, 'value', None, False, None, False
        c.types = dict(params)
        c.ret = self.SCALARS[rty]
        saved_tmp, self.tmpn = self.tmpn, 0
        try:
            body = self.block(blk, c, '  ', lambda c2, i2: [i2 + self.done(c2)])
        except NeedsFallible as ex:
            bad('%s in `%s`, which has no way to report a panic' % (ex.msg, fn), ex.line)
        self.tmpn = saved_tmp
        gen = 'genAux' + ''.join(w[:1].upper() + w[1:] for w in fn.split('_'))
        if gen in self.names:
            bad('name clash for the helper `%s`' % fn, line)
        self.names.add(gen)
        ps = ''.join(' (%s : %s)' % (vid(n), LEAN_T[t]) for n, t in params)
        self.defs.append(('`fn %s` (lib.rs line %d): a helper, translated because it is called' % (fn, toks[ii[0]].line),
                          ['def %s%s : %s :=' % (gen, ps, LEAN_T[c.ret])] + body, None))
        self.helpers[fn] = (gen, [t for _, t in params], c.ret)
        return self.helpers[fn]

    # ---- the functions
    def run(self):
        toks = self.toks
        decl = parse_enum(toks, 'Expr')
        table = [(v, shape, fs) for v, shape, fs, _ in ra.VARIANTS]
        if decl != table:
            bad('enum Expr differs from the translator\'s variant table:\n  declared: %s\n  table:    %s' % (
                [d for d in decl if d not in table], [d for d in table if d not in decl]))
        if parse_enum(toks, 'Assertion') != rv.ASSERTION_ENUM:
            bad('enum Assertion differs from the translator\'s table')
        for fn in ('is_special', 'push_usize', 'push_quoted', 'escape', 'to_str'):
            sig, kind, buf, params = SIGS[fn]
            want = sig.split()
            i = find_seq(toks, want)
            if i < 0:
                bad('cannot find `%s`' % sig.replace(' ', ''))
            if find_seq(toks, want, i + 1) >= 0:
                bad('`%s` occurs twice' % sig.replace(' ', ''))
            blk = Parser(toks, i + len(want) - 1).block()
            for fallible in (False, True):
                c = Ctx()
                c.fn, c.kind, c.buf, c.fallible = fn, kind, buf, fallible
                c.group = 'to_str' if fn == 'to_str' else None
                c.types = dict(params)
                if buf:
                    c.types[buf] = 'String'
                if fn == 'to_str':
                    c.types['self'] = 'Self'
                c.ret = {'is_special': 'bool'}.get(fn)
                c.dep_if = (fn == 'push_usize')
                self.fallible[fn] = fallible
                ndefs, nnames, self.tmpn, nhelp = len(self.defs), set(self.names), 0, dict(getattr(self, 'helpers', {}))
                try:
                    body = self.block(blk, c, '  ', lambda c2, i2: [i2 + self.done(c2)])
                    break
                except NeedsFallible as ex:
                    del self.defs[ndefs:]
                    self.names, self.helpers = nnames, nhelp
                    if fallible or kind != 'buffer':
                        bad('%s in `%s`, which has no way to report a panic' % (ex.msg, fn), ex.line)
            ret = {'value': 'Bool', 'cow': 'Option (List Char)'}.get(kind) or ('Option (List Char)' if fallible else 'List Char')
            ps = ''.join(' (%s : %s)' % (vid(n), LEAN_T[t]) for n, t in params)
            if fn == 'to_str':
                head = 'def genToStr (self : Expr) (buf : List Char)%s : %s :=' % (ps, ret)
            elif buf:
                head = 'def %s (%s : List Char)%s : %s :=' % (GEN[fn], vid(buf), ps, ret)
            else:
                head = 'def %s%s : %s :=' % (GEN[fn], ps, ret)
            lines = [head] + body
            if fn == 'push_usize':
                lines += ['termination_by x', 'decreasing_by all_goals omega']
            doc = '`fn %s` (lib.rs line %d)%s' % (fn, toks[i].line, '; `none` = the Rust code panics' if fallible else '')
            self.defs.append((doc, lines, c.group))
            self.names.add(GEN[fn])

    def render(self):
        L = ['/- generated by tools/rs2lean_tostr.py from src/lib.rs — do not edit -/',
             'import FancyModel.GenToStrPrelude',
             '/-!',
             '# `is_special`, `push_usize`, `push_quoted`, `escape`, `Expr::to_str` (src/lib.rs), translated statement by statement',
             '',
             'A function that writes into `buf: &mut String` takes the buffer and returns it (`Option`: `none` = a panic); `push` /',
             '`push_str` append; a `match` on numbers / characters is the chain of its tests in source order; `for` loops are',
             'auxiliary recursive functions over the list. The adaptors (what is not taken from the Rust text) are in',
             'GenToStrPrelude.lean. Proofs/C17c.lean proves every definition equal to the hand-written model (Model/ToStr.lean).',
             '-/',
             'set_option linter.unusedVariables false',
             'namespace Fancy.GenToStr',
             '']
        plain = [d for d in self.defs if d[2] is None]
        grp = [d for d in self.defs if d[2] == 'to_str']
        for doc, lines, _ in plain:
            L.append('/-- %s -/' % doc)
            L += lines
            L.append('')
        L.append('mutual')
        for doc, lines, _ in grp[-1:] + grp[:-1]:
            L.append('/-- %s -/' % doc)
            L += lines
        L.append('end')
        L.append('')
        L.append('end Fancy.GenToStr')
        return '\n'.join(L) + '\n'


def translate(src_path):
    tr = Translator(tokenize(open(src_path).read()))
    tr.run()
    return tr.render()


def main(argv):
    src = os.environ.get('RS2LEAN_LIB_SRC', DEFAULT_SRC)
    out = os.environ.get('RS2LEAN_TOSTR_OUT', DEFAULT_OUT)
    args, pos, stub_on_failure = list(argv), [], False
    while args:
        a = args.pop(0)
        if a == '-o':
            out = args.pop(0)
        elif a == '--stub-on-failure':
            stub_on_failure = True
        elif a in ('-h', '--help'):
            print(__doc__)
            return 0
        else:
            pos.append(a)
    if len(pos) > 1:
        print('rs2lean_tostr.py: too many arguments')
        return 2
    if pos:
        src = pos[0]
    failure = None
    try:
        text = translate(src)
    except Unsupported as e:
        where = '%s:%s: ' % (src, e.line) if e.line else '%s: ' % src
        failure = 'rs2lean_tostr.py: NOT TRANSLATED - %s%s' % (where, e.msg)
    except Exception as e:                  # whatever goes wrong inside the translator is a refusal: never a stale file
        failure = 'rs2lean_tostr.py: NOT TRANSLATED - %s: %s: %r' % (src, type(e).__name__, e)
    if failure is not None:
        print(failure)
        if not stub_on_failure or out == '-':
            return 2
        stub = ('/- tools/rs2lean_tostr.py could not translate the printer of src/lib.rs (exit 2):\n%s\n-/\n'
                'namespace Fancy.GenToStr\n'
                'theorem translator_could_not_read_to_str : False := by\n'
                '  exact translation_failed   -- deliberately unresolved: see the comment above\n'
                'end Fancy.GenToStr\n') % failure.replace('-/', '- /')[-1500:]
        old = open(out).read() if os.path.exists(out) else ''
        if old != stub:
            with open(out, 'w') as f:
                f.write(stub)
        print('rs2lean_tostr.py: src/lib.rs is not translated; %s now holds a failing stub (Proofs/C17c will not build)' % os.path.basename(out))
        return 0
    if out == '-':
        sys.stdout.write(text)
        return 0
    old = open(out).read() if os.path.exists(out) else None
    if old != text:
        with open(out, 'w') as f:
            f.write(text)
    print('rs2lean_tostr.py: ok (%s -> %s%s)' % (src, out, '' if old != text else ', unchanged'))
    return 0


if __name__ == '__main__':
    sys.exit(main(sys.argv[1:]))
