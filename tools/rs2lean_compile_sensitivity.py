#!/usr/bin/env python3
"""Sensitivity of the compiler tie (tools/rs2lean_compile.py + lean/FancyModel/Proofs/C03d.lean).

For the unmutated /repo/src/compile.rs, ten hand-made mutations (a)-(j), three controls (k)-(m) and every
seeded/*/*/patch.diff that touches src/compile.rs: make a scratch COPY of the crate's src/ directory, mutate / patch it,
translate it into a scratch GeneratedCompile.lean, compile that to a scratch .olean (module CompileScratch.GeneratedCompile),
and elaborate a copy of Proofs/C03d.lean in which only the import line `import FancyModel.GeneratedCompile` is redirected
to it (the mechanism of tools/rs2lean_vm_sensitivity.py). Nothing under /repo or /verif/lean is written.
Prints a markdown table.

usage: rs2lean_compile_sensitivity.py [--work DIR] [--only SUBSTRING]      (default work dir /tmp/compilesens)
"""
import glob, os, re, shutil, subprocess, sys

VERIF = os.path.dirname(os.path.dirname(os.path.abspath(__file__)))
LEAN = os.path.join(VERIF, 'lean')
CRATE_SRC = '/repo/src'
SRC = os.path.join(CRATE_SRC, 'compile.rs')
TRANSLATOR = os.path.join(VERIF, 'tools', 'rs2lean_compile.py')
PROOF = os.path.join(LEAN, 'FancyModel', 'Proofs', 'C03d.lean')
IMPORT = 'import FancyModel.GeneratedCompile\n'
SCRATCH_MODULE = 'CompileScratch'


def sh(cmd, **kw):
    return subprocess.run(cmd, stdout=subprocess.PIPE, stderr=subprocess.STDOUT, text=True, **kw)


def once(text, old, new, what):
    if text.count(old) != 1:
        sys.exit('mutation %s: the text to replace occurs %d times' % (what, text.count(old)))
    return text.replace(old, new)


def mutations(src):
    yield ('(a) compile_repeat: `lo == 0 && hi == 1` -> `lo == 0 && hi >= 1`',
           once(src, 'if lo == 0 && hi == 1 {', 'if lo == 0 && hi >= 1 {', 'a'))
    yield ('(b) e+: `(pc, next)` / `(next, pc)` swapped',
           once(src, 'let (x, y) = if greedy { (pc, next) } else { (next, pc) };',
                'let (x, y) = if greedy { (next, pc) } else { (pc, next) };', 'b'))
    yield ('(c) compile_negative_lookaround: `set_split_target(pc, next_pc, true)` -> `false`',
           once(src, 'self.b.set_split_target(pc, next_pc, true);', 'self.b.set_split_target(pc, next_pc, false);', 'c'))
    d = '''        self.compile_lookaround_inner(inner, la)?;
        self.b.add(Insn::Restore(save));
'''
    yield ('(d) compile_positive_lookaround: `Restore(save)` emitted before the body',
           once(src, d, '''        self.b.add(Insn::Restore(save));
        self.compile_lookaround_inner(inner, la)?;
''', 'd'))
    yield ('(e) compile_concat: prefix `take_while(|c| c.const_size && !c.hard)` -> `take_while(|c| !c.hard)`',
           once(src, '\n            .take_while(|c| c.const_size && !c.hard)\n', '\n            .take_while(|c| !c.hard)\n', 'e'))
    yield ('(f) `GoBack(inner.min_size)` -> `GoBack(inner.min_size + 1)`',
           once(src, 'Insn::GoBack(inner.min_size)', 'Insn::GoBack(inner.min_size + 1)', 'f'))
    yield ('(g) Group: `Save(group * 2 + 1)` -> `Save(group * 2)`',
           once(src, 'self.b.add(Insn::Save(group * 2 + 1));', 'self.b.add(Insn::Save(group * 2));', 'g'))
    yield ('(h) compile_alt: `jmps.push(pc);` guarded by `if i != 0` (the first jmp is never patched)',
           once(src, '                jmps.push(pc);\n',
                '                if i != 0 {\n                    jmps.push(pc);\n                }\n', 'h'))
    yield ('(i) DelegateBuilder::push: `self.end_group = info.end_group` -> `info.start_group`',
           once(src, 'self.end_group = info.end_group;', 'self.end_group = info.start_group;', 'i'))
    j = '''            Insn::Split(_, ref mut y) if second => *y = target,
            Insn::Split(ref mut x, _) => *x = target,
'''
    yield ('(j) set_split_target: the targets of the `if second` arms swapped',
           once(src, j, '''            Insn::Split(ref mut x, _) if second => *x = target,
            Insn::Split(_, ref mut y) => *y = target,
''', 'j'))
    k = '''        let pc = self.b.pc();
        self.b.add(Insn::Split(pc + 1, usize::MAX));
        self.compile_lookaround_inner(inner, la)?;
'''
    yield ('(k, control) comments and blank lines added (same meaning)',
           once(src, k, '''        // where the split goes

        let pc = /* now */ self.b.pc();
        self.b.add(Insn::Split(pc + 1, usize::MAX)); // patched below

        self.compile_lookaround_inner(inner, la)?;
''', 'k'))
    l = '''        if atomic {
            self.b.add(Insn::BeginAtomic);
        }
        let save = self.b.newsave();
'''
    yield ('(l, control) compile_positive_lookaround: `let save = self.b.newsave();` moved before `if atomic { BeginAtomic }` (same program)',
           once(src, l, '''        let save = self.b.newsave();
        if atomic {
            self.b.add(Insn::BeginAtomic);
        }
''', 'l'))
    yield ('(m, control) compile_negative_lookaround: an unused `let unused = self.b.pc();` added (same meaning)',
           once(src, k, k.replace('        self.b.add(Insn::Split(pc + 1, usize::MAX));\n',
                                  '        let unused = self.b.pc();\n        self.b.add(Insn::Split(pc + 1, usize::MAX));\n'), 'm'))
    yield ('(p) DelegateBuilder::push: `info.expr.to_str(&mut self.re, 1)` -> precedence 0',
           once(src, 'info.expr.to_str(&mut self.re, 1);', 'info.expr.to_str(&mut self.re, 0);', 'p'))
    q = once(src, 'info.expr.to_str(&mut self.re, 1);', '', 'q1')
    q = once(q, '            self.start_group = Some(info.start_group);\n', '            self.start_group = Some(info.start_group);\n            info.expr.to_str(&mut self.re, 1);\n', 'q2')
    yield ('(q) DelegateBuilder::push: `to_str` moved into `if self.start_group.is_none() { .. }` (only the first expression is printed; there is no `^` in this source to drop)', q)
    yield ('(n, control) compile_lookaround_inner: `la == LookBehind || la == LookBehindNeg` written as `matches!(la, LookBehind | LookBehindNeg)` (same meaning)',
           once(src, 'if la == LookBehind || la == LookBehindNeg {', 'if matches!(la, LookBehind | LookBehindNeg) {', 'n'))
    yield ('(o, control) VMBuilder::new written with struct update syntax (`VMBuilder { n_saves: max_group * 2, ..VMBuilder { prog: Vec::new(), n_saves: 0 } }`, same meaning)',
           once(src, '''        VMBuilder {
            prog: Vec::new(),
            n_saves: max_group * 2,
        }''', '''        VMBuilder {
            n_saves: max_group * 2,
            ..VMBuilder {
                prog: Vec::new(),
                n_saves: 0,
            }
        }''', 'o'))


def locate(line):
    """the theorem of Proofs/C03d.lean that contains a line"""
    src = open(PROOF).read().split('\n')
    for k in range(min(line, len(src)) - 1, -1, -1):
        m = re.match(r'^(?:@\[[^\]]*\]\s*)?(?:private |protected )?(?:theorem|lemma|def|example|instance)\s*(\S*)', src[k])
        if m:
            return '`%s`' % (m.group(1) or 'example')
    return '?'


def cases_of(work):
    """[(name, directory holding the scratch copy of src/ or None if the patch does not apply)]"""
    src = open(SRC).read()
    out = []

    def fresh(tag):
        d = os.path.join(work, tag)
        shutil.rmtree(d, ignore_errors=True)
        os.makedirs(d)
        shutil.copytree(CRATE_SRC, os.path.join(d, 'src'))
        return d
    out.append(('unmutated /repo/src/compile.rs', fresh('c00')))
    for i, (name, text) in enumerate(mutations(src)):
        d = fresh('c%02d' % (i + 1))
        open(os.path.join(d, 'src', 'compile.rs'), 'w').write(text)
        out.append((name, d))
    n = len(out)
    for p in sorted(glob.glob(os.path.join(VERIF, 'seeded', '*', '*', 'patch.diff'))):
        if 'src/compile.rs' not in open(p).read():
            continue
        name = 'seeded/' + os.path.relpath(os.path.dirname(p), os.path.join(VERIF, 'seeded'))
        d = fresh('c%02d' % n)
        n += 1
        r = sh(['patch', '-p1', '-s', '-f', '-i', p], cwd=d)
        out.append((name, d if r.returncode == 0 else None))
    return out


def main():
    work, only = '/tmp/compilesens', None
    if '--work' in sys.argv:
        work = sys.argv[sys.argv.index('--work') + 1]
    if '--only' in sys.argv:
        only = sys.argv[sys.argv.index('--only') + 1]
    if not os.path.exists(TRANSLATOR):
        sys.exit('rs2lean_compile_sensitivity.py: %s does not exist' % TRANSLATOR)
    shutil.rmtree(work, ignore_errors=True)
    os.makedirs(work)
    lean_path = sh(['lake', 'env', 'printenv', 'LEAN_PATH'], cwd=LEAN).stdout.strip().split('\n')[-1]
    lean_bin = sh(['lake', 'env', 'which', 'lean'], cwd=LEAN).stdout.strip().split('\n')[-1]
    have_proof = os.path.exists(PROOF)
    ptext = open(PROOF).read() if have_proof else ''
    if have_proof and ptext.count(IMPORT) != 1:
        sys.exit('C03d.lean does not import FancyModel.GeneratedCompile exactly once')
    base_gen = None
    rows = []
    for i, (name, d) in enumerate(cases_of(work)):
        if only and i and only not in name:
            continue
        if d is None:
            rows.append((name, 'patch does not apply', '-', ''))
            continue
        rs = os.path.join(d, 'src', 'compile.rs')
        os.makedirs(os.path.join(d, 'lib', SCRATCH_MODULE))
        os.makedirs(os.path.join(d, 'root', SCRATCH_MODULE))
        gen = os.path.join(d, 'root', SCRATCH_MODULE, 'GeneratedCompile.lean')
        r = sh([sys.executable, TRANSLATOR, rs, '-o', gen])
        if r.returncode != 0 or not os.path.exists(gen):
            msgs = [l for l in r.stdout.strip().split('\n') if 'NOT TRANSLATED' in l] or r.stdout.strip().split('\n')[-1:]
            rows.append((name, 'REJECTED (exit %d)' % r.returncode, '-', msgs[-1].replace(rs, 'compile.rs').replace(d + '/src/', '')))
            continue
        g = open(gen).read()
        if base_gen is None:
            base_gen = g
        same = (g == base_gen)
        acc = 'accepted' + (', generated Lean identical' if same and i else '')
        env = dict(os.environ, LEAN_PATH=os.path.join(d, 'lib') + ':' + lean_path)
        root = os.path.join(d, 'root')
        r = sh([lean_bin, '--root=' + root, '-o', os.path.join(d, 'lib', SCRATCH_MODULE, 'GeneratedCompile.olean'), gen],
               env=env, cwd=root)
        if r.returncode != 0:
            first = [l for l in r.stdout.strip().split('\n') if ': error' in l] or r.stdout.strip().split('\n')[:1]
            rows.append((name, 'accepted', 'generated file does not compile', first[0].replace(gen, 'GeneratedCompile.lean')))
            continue
        if not have_proof:
            rows.append((name, acc, 'generated file compiles; Proofs/C03d.lean does not exist yet', ''))
            continue
        proof = os.path.join(root, SCRATCH_MODULE, 'C03d.lean')
        open(proof, 'w').write(ptext.replace(IMPORT, 'import %s.GeneratedCompile\n' % SCRATCH_MODULE))
        r = sh([lean_bin, '--root=' + root, '-o', os.path.join(d, 'lib', SCRATCH_MODULE, 'C03d.olean'), proof], env=env, cwd=root)
        errs = [l for l in r.stdout.split('\n') if ': error' in l]
        if r.returncode == 0 and not errs:
            # the second proof file (the text handed to regex-automata) against the same scratch translation
            p2 = os.path.join(LEAN, 'FancyModel', 'Proofs', 'C03e.lean')
            if not os.path.exists(p2):
                rows.append((name, acc, 'proof HOLDS', ''))
                continue
            t2 = open(p2).read()
            if t2.count('import FancyModel.Proofs.C03d\n') != 1:
                sys.exit('C03e.lean does not import FancyModel.Proofs.C03d exactly once')
            proof2 = os.path.join(root, SCRATCH_MODULE, 'C03e.lean')
            open(proof2, 'w').write(t2.replace('import FancyModel.Proofs.C03d\n', 'import %s.C03d\n' % SCRATCH_MODULE))
            r2 = sh([lean_bin, '--root=' + root, proof2], env=env, cwd=root)
            errs2 = [l for l in r2.stdout.split('\n') if ': error' in l]
            if r2.returncode == 0 and not errs2:
                rows.append((name, acc, 'proof HOLDS', ''))
            else:
                lines2 = t2.split('\n')
                thms = []
                for l in errs2:
                    if l.count(':') > 2 and l.split(':')[1].isdigit():
                        k = int(l.split(':')[1])
                        while k > 0 and not re.match(r'(theorem|def)\s+(\S+)', lines2[k - 1]):
                            k -= 1
                        m = re.match(r'(theorem|def)\s+(\S+)', lines2[k - 1]) if k > 0 else None
                        t = '`%s`' % m.group(2) if m else '?'
                        if t not in thms:
                            thms.append(t)
                rows.append((name, acc, 'proof FAILS', 'C03d holds; C03e: %d error(s): %s' % (len(errs2), ', '.join(thms[:3]))))
        else:
            where = sorted({l.split(':')[1] for l in errs if l.count(':') > 2 and l.split(':')[1].isdigit()}, key=int)
            thms = []
            for w in where:
                t = locate(int(w))
                if t not in thms:
                    thms.append(t)
            detail = '%d error(s): %s' % (len(errs), ', '.join(thms[:3]) + (' …' if len(thms) > 3 else ''))
            if not errs:
                detail = 'lean exit %d: %s' % (r.returncode, r.stdout.strip().split('\n')[-1][:200])
            rows.append((name, acc, 'proof FAILS', detail))
    print('| source | translator | Proofs/C03d.lean | detail |')
    print('|---|---|---|---|')
    for r in rows:
        print('| %s | %s | %s | %s |' % r)
    return 0


if __name__ == '__main__':
    sys.exit(main())
